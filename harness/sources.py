"""The library's own stream sources driven directly: credits, ticks and cancellation chosen by the harness."""
import asyncio

KINDS = ['gen', 'agen', 'rx3', 'rx4', 'rx3ag', 'rx4ag']


def make_source(kind, count, flagged, failing, on_cancel=None, on_complete=None, pulls=None):
    """`pulls`: a list that receives the index of every element the library takes out of the application's generator"""
    from rsocket.payload import Payload
    items = [(Payload(bytes([i + 1])), flagged and i == count - 1) for i in range(count)]
    if pulls is None:
        pulls = []
    if kind == 'gen':
        from rsocket.streams.stream_from_generator import StreamFromGenerator

        def gen():
            for k, it in enumerate(items):
                pulls.append(k)
                yield it
            if failing:
                raise RuntimeError('source failure')
        return StreamFromGenerator(gen, on_cancel=on_cancel, on_complete=on_complete)
    if kind == 'agen':
        from rsocket.streams.stream_from_async_generator import StreamFromAsyncGenerator

        async def agen():
            for k, it in enumerate(items):
                pulls.append(k)
                yield it
            if failing:
                raise RuntimeError('source failure')
        return StreamFromAsyncGenerator(agen, on_cancel=on_cancel, on_complete=on_complete)
    if kind in ('rx3ag', 'rx4ag'):
        # the documented back-pressure-aware source: an async generator behind observable_from_async_generator, handed to the library as
        # from_observable_with_backpressure(...) - slow (the generator suspends before each element), so that credit can arrive while
        # the elements of an earlier grant are still being produced
        if kind == 'rx3ag':
            from rsocket.rx_support.back_pressure_publisher import (from_observable_with_backpressure, observable_from_async_generator,
                                                                   observable_to_publisher)
        else:
            from rsocket.reactivex.back_pressure_publisher import (from_observable_with_backpressure, observable_from_async_generator,
                                                                  observable_to_publisher)

        async def slow():
            for k, (p, _) in enumerate(items):
                await asyncio.sleep(0)
                await asyncio.sleep(0)
                pulls.append(k)
                yield p
            if failing:
                raise RuntimeError('source failure')
        return observable_to_publisher(from_observable_with_backpressure(lambda bp: observable_from_async_generator(slow(), bp)))
    if kind == 'rx3':
        import rx
        from rx import operators as ops
        from rsocket.rx_support.back_pressure_publisher import BackPressurePublisher
        src = rx.from_iterable([p for p, _ in items])
        if failing:
            src = rx.concat(src, rx.throw(RuntimeError('source failure')))
        return BackPressurePublisher(src)
    import reactivex
    from rsocket.reactivex.back_pressure_publisher import BackPressurePublisher
    src = reactivex.from_iterable([p for p, _ in items])
    if failing:
        src = reactivex.concat(src, reactivex.throw(RuntimeError('source failure')))
    return BackPressurePublisher(src)


class Rec:
    def __init__(self):
        self.events = []          # ('next', value, complete, credit_so_far) ...
        self.credit = 0
        self.subscription = None

    def on_subscribe(self, s):
        self.subscription = s

    def on_next(self, value, is_complete=False):
        empty = not value.data and not value.metadata
        self.events.append(('next', None if empty else value.data[0], bool(is_complete), self.credit))

    def on_complete(self):
        self.events.append(('complete', None, True, self.credit))

    def on_error(self, e):
        self.events.append(('error', None, False, self.credit))

    def summary(self):
        n = len([e for e in self.events if e[0] == 'next' and e[1] is not None])
        term = '-'
        for e in self.events:
            if e[0] == 'error':
                term = 'e'
            elif e[0] == 'complete' or (e[0] == 'next' and e[2]):
                term = 'c'
        return n, term


async def drive(loop, case):
    cancelled = []
    pulls = []
    pulls_at_cancel = None
    src = make_source(case['kind'], case['count'], case['flagged'], case['failing'], on_cancel=lambda: cancelled.append(1), pulls=pulls)
    rec = Rec()
    src.subscribe(rec)
    points, errors = [], []
    for st in case['steps']:
        op = st[0]
        if op == 'r':
            rec.credit += st[1]
            try:
                src.request(st[1])
            except Exception as e:
                errors.append('request: %s' % type(e).__name__)
        elif op == 't':
            for _ in range(st[1]):
                await asyncio.sleep(0)
        elif op == 'q':
            await loop.settle()
            points.append(rec.summary())
        elif op == 'x':
            try:
                src.cancel()
            except Exception as e:
                errors.append('cancel: %s' % type(e).__name__)
            n_at_cancel = len(rec.events)
            if pulls_at_cancel is None:
                pulls_at_cancel = len(pulls)
            await loop.settle()
            points.append(('cancelled', len(rec.events) - n_at_cancel))
    await loop.settle()
    tasks = [getattr(src, a, None) for a in ('_payload_feeder', '_n_feeder')]
    running = [t for t in tasks if t is not None and not t.done()]
    # tasks the source started and left behind (whether or not it still holds a reference to them)
    alive = [t for t in asyncio.all_tasks() if t is not asyncio.current_task() and not t.done()]
    return {'points': points, 'events': [list(e) for e in rec.events], 'errors': errors, 'on_cancel': len(cancelled), 'tasks_running': len(running),
            'tasks_alive': len(alive), 'pulled_after_cancel': (len(pulls) - pulls_at_cancel) if pulls_at_cancel is not None else 0}
