"""Two real endpoints joined by a simulated link whose delivery order, timing and (for byte-stream framing) read
chunking are chosen by the harness."""
import asyncio

from rsocket.transports.tcp import TransportTCP
from rsocket.transports.abstract_messaging import AbstractMessagingTransport
from rsocket.exceptions import RSocketTransportError


class MsgEnd(AbstractMessagingTransport):
    """message framing: every frame is one message; incoming messages pass through the real FrameParser (header 0)"""

    def __init__(self, link, side):
        super().__init__()
        self.link, self.side = link, side
        self.closed = 0

    send_delay_ms = 0

    async def send_frame(self, frame):
        if self.send_delay_ms:
            await asyncio.sleep(self.send_delay_ms / 1000.0)      # a write that takes its time (a slow reader behind drain())
        self.link.wire[self.side].append(frame.serialize())
        self.link.sent_frames[self.side].append(frame)

    pump_dead = None

    async def feed(self, message):
        # (what the pump task of every message transport of the library does with a message; if it raises, that pump is gone)
        if self.pump_dead:
            return
        try:
            async for fr in self._frame_parser.receive_data(message, 0):
                self._incoming_frame_queue.put_nowait(fr)
        except Exception as e:
            self.pump_dead = type(e).__name__

    def feed_error(self):
        self._incoming_frame_queue.put_nowait(RSocketTransportError())

    async def close(self):
        self.closed += 1


class Writer:
    def __init__(self, link, side):
        self.link, self.side = link, side
        self.closed = False

    def write(self, data):
        self.link.stream[self.side] += bytes(data)

    async def drain(self):
        pass

    def close(self):
        self.closed = True

    async def wait_closed(self):
        pass


class Link:
    """side 0 = client, side 1 = server. wire[s] / stream[s] hold what side s has written and the peer has not yet read."""

    def __init__(self, loop, tcp, read_size=1 << 16):
        self.loop, self.tcp = loop, tcp
        self.wire = [[], []]
        self.stream = [bytearray(), bytearray()]
        self.sent_frames = [[], []]
        if tcp:
            self.readers = [asyncio.StreamReader(), asyncio.StreamReader()]
            self.ends = [TransportTCP(self.readers[0], Writer(self, 0), read_buffer_size=read_size),
                         TransportTCP(self.readers[1], Writer(self, 1), read_buffer_size=read_size)]
        else:
            self.ends = [MsgEnd(self, 0), MsgEnd(self, 1)]

    def pending(self, side):
        return len(self.stream[side]) if self.tcp else len(self.wire[side])

    async def deliver_burst(self, side):
        """everything `side` has written so far reaches its peer before the peer's receiver runs once (one big read / a burst of messages)"""
        peer = 1 - side
        n = 0
        if self.tcp:
            if self.stream[side]:
                chunk = bytes(self.stream[side])
                del self.stream[side][:]
                self.readers[peer].feed_data(chunk)
                n = 1
        else:
            while self.wire[side]:
                await self.ends[peer].feed(self.wire[side].pop(0))
                n += 1
        return n

    async def deliver(self, side, rng):
        """move some of what `side` has written to its peer; returns False if nothing was pending"""
        peer = 1 - side
        if self.tcp:
            buf = self.stream[side]
            if not buf:
                return False
            n = rng.choice([1, 2, 3, rng.randint(1, 40), rng.randint(1, 400), len(buf)])
            n = min(n, len(buf))
            chunk = bytes(buf[:n])
            del buf[:n]
            self.readers[peer].feed_data(chunk)
        else:
            if not self.wire[side]:
                return False
            msg = self.wire[side].pop(0)
            await self.ends[peer].feed(msg)
        return True
