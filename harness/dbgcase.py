"""debug helper: python -m harness.dbgcase C12 '<case json>' [n] -> step-by-step implementation vs model outputs"""
import sys, json, logging
logging.disable(logging.CRITICAL)
import importlib
P = importlib.import_module('harness.props.' + sys.argv[1].lower()).PROP
case = json.loads(sys.argv[2])
obs = P.run_impl(case)
lines = P.model_lines(case, obs)
from harness import core
ans = core.run_driver(lines)
n = int(sys.argv[3]) if len(sys.argv) > 3 else 14
parts = ans[0].split(' || ')[0].split(' | ') if len(ans) == 1 else ans
for i, (st, a) in enumerate(zip(obs['steps'], parts)):
    if i > n: break
    print(i, st[0], '| impl', st[1], '| model', a)
print('final', obs['final']['table'], obs['final']['cache'], ans[0].split(' || ')[-1] if ans else None)
