"""Common machinery for the /verif checks: build tie (translator + lake), axiom audit, Lean driver,
case distribution over worker processes, verdict, evidence, replay."""
import fcntl
import hashlib
import json
import multiprocessing as mp
import os
import random
import re
import subprocess
import sys
import time
import traceback

VERIF = os.path.dirname(os.path.dirname(os.path.abspath(__file__)))
LEAN = os.path.join(VERIF, 'lean')
REPO = os.environ.get('VERIF_REPO', '/repo')
DRIVER = os.path.join(LEAN, '.lake', 'build', 'bin', 'driver')
ALLOWED_AXIOMS = {'propext', 'Classical.choice', 'Quot.sound'}
FORBIDDEN_RE = re.compile(r'\bsorry\b|\badmit\b|^axiom |native_decide|bv_decide|implemented_by|\bunsafe |maxHeartbeats 0')
NPROC = min(16, os.cpu_count() or 1)

TRUSTED_BASE = [
    'Lean 4.33.0 kernel (lake build of the property module; thorough tier also leanchecker)',
    'axioms allowed in any property theorem: propext, Classical.choice, Quot.sound (audited by #print axioms on every run)',
    'hand-written Lean model; tied to /repo by harness/translate.py (constants, tables) and by the correspondence run of this check',
    'Python harness (deterministic loop, simulated transports, recorders, canonicalisation, diff)',
    'CPython 3.12 / asyncio / struct / cbitstruct semantics are used, not verified',
]


def sh(cmd, cwd=None, timeout=1800):
    p = subprocess.run(cmd, cwd=cwd, stdout=subprocess.PIPE, stderr=subprocess.STDOUT, text=True, timeout=timeout)
    return p.returncode, p.stdout


class BuildResult:
    def __init__(self):
        self.driver_ok = False
        self.proofs_ok = False
        self.log = ''
        self.obligations = []      # theorem names
        self.discharged = []       # theorem names with clean axioms
        self.axioms = {}           # name -> list
        self.broken = []           # descriptions of what no longer checks
        self.forbidden = []        # forbidden tokens found in sources
        self.translate_notes = []


def _strip_comments(src):
    src = re.sub(r'/-.*?-/', '', src, flags=re.S)
    src = re.sub(r'--.*', '', src)
    return src


def theorem_names(prop_file):
    src = _strip_comments(open(prop_file).read())
    ns = ''
    names = []
    for line in src.splitlines():
        m = re.match(r'^namespace\s+(\S+)', line)
        if m:
            ns = m.group(1)
        m = re.match(r'^(?:protected\s+|private\s+)?theorem\s+(\S+)', line)
        if m:
            names.append((ns + '.' if ns else '') + m.group(1))
    return names


def build(prop_id, lean_modules, thorough=False):
    """Regenerate Gen/ from /repo, build the driver and the property's modules, audit axioms."""
    from harness import translate
    res = BuildResult()
    os.makedirs(os.path.join(LEAN, '.lake'), exist_ok=True)
    lock = open(os.path.join(LEAN, '.lake', 'verif.lock'), 'w')
    fcntl.flock(lock, fcntl.LOCK_EX)
    try:
        try:
            res.translate_notes = translate.regenerate(REPO, os.path.join(LEAN, 'RSocketModel', 'Gen'))
        except Exception as e:  # the translator could not read the source: obligations cannot be re-checked
            res.broken.append('translator failed: %r' % (e,))
            res.log += traceback.format_exc()
        rc, out = sh(['lake', 'build', 'driver'], cwd=LEAN)
        res.log += out
        res.driver_ok = rc == 0 and os.path.exists(DRIVER)
        if not res.driver_ok:
            res.broken.append('lean driver does not build (model no longer type-checks against regenerated Gen/)')
        rc, out = sh(['lake', 'build'] + lean_modules, cwd=LEAN)
        res.log += out
        res.proofs_ok = rc == 0
        # forbidden tokens
        for root, _, files in os.walk(LEAN):
            if '.lake' in root:
                continue
            for f in files:
                if f.endswith('.lean'):
                    src = _strip_comments(open(os.path.join(root, f)).read())
                    for ln in src.splitlines():
                        if FORBIDDEN_RE.search(ln):
                            res.forbidden.append('%s: %s' % (f, ln.strip()))
        names = []
        for m in lean_modules:
            path = os.path.join(LEAN, *m.split('.')) + '.lean'
            if '.Props.' in m:
                names += theorem_names(path)
        res.obligations = names
        if res.proofs_ok:
            os.makedirs(os.path.join(LEAN, '.lake', 'audit'), exist_ok=True)
            audit = os.path.join(LEAN, '.lake', 'audit', prop_id + '.lean')
            with open(audit, 'w') as f:
                for m in lean_modules:
                    f.write('import %s\n' % m)
                for n in names:
                    f.write('#print axioms %s\n' % n)
            rc, out = sh(['lake', 'env', 'lean', audit], cwd=LEAN)
            res.log += out
            cur = None
            for m in re.finditer(r"'([^']+)' (does not depend on any axioms|depends on axioms: \[([^\]]*)\])", out, flags=re.S):
                name = m.group(1)
                axs = [a.strip() for a in (m.group(3) or '').replace('\n', ' ').split(',') if a.strip()]
                res.axioms[name] = axs
            for n in names:
                if n in res.axioms and set(res.axioms[n]) <= ALLOWED_AXIOMS:
                    res.discharged.append(n)
                else:
                    res.broken.append('theorem %s: axioms %s' % (n, res.axioms.get(n, 'not found in audit output')))
            if thorough:
                rc, out = sh(['lake', 'env', 'leanchecker'] + lean_modules, cwd=LEAN, timeout=3600)
                res.log += out
                if rc != 0:
                    res.broken.append('leanchecker rejected %s' % lean_modules)
        else:
            failing = re.findall(r'^error: (\S+\.lean:\d+:\d+: .*)$', res.log, flags=re.M)
            mods = re.findall(r'^- (RSocketModel\.\S+)$', res.log, flags=re.M)
            res.broken.append('lake build failed for %s: modules %s; first errors: %s' % (
                lean_modules, mods, failing[:3]))
        if res.forbidden:
            res.broken.append('forbidden constructs in Lean sources: %s' % res.forbidden[:3])
    finally:
        fcntl.flock(lock, fcntl.LOCK_UN)
        lock.close()
    return res


def run_driver(lines):
    """Feed request lines to the compiled Lean driver, return answer lines (same length)."""
    if not lines:
        return []
    p = subprocess.run([DRIVER], input='\n'.join(lines) + '\n', stdout=subprocess.PIPE, stderr=subprocess.PIPE,
                       text=True, timeout=1800)
    out = p.stdout.split('\n')
    if out and out[-1] == '':
        out.pop()
    if len(out) != len(lines):
        raise RuntimeError('driver answered %d lines for %d requests (rc=%s, stderr=%s)' % (
            len(out), len(lines), p.returncode, p.stderr[:500]))
    return out


# ---------------------------------------------------------------------------------------------
class Prop:
    """Base class of a property check. Subclasses define generation, implementation run, model lines,
    comparison and the property oracle (a direct judgement of the implementation's observed behaviour)."""
    id = None
    lean_modules = []
    technique = ''
    rule = ''
    assumptions = []
    use_driver = True

    def cases(self, rng, tier):
        raise NotImplementedError

    def corpus_cases(self):
        d = os.path.join(VERIF, 'corpus', self.id)
        out = []
        if os.path.isdir(d):
            for f in sorted(os.listdir(d)):
                if f.endswith('.json'):
                    try:
                        out.append(json.load(open(os.path.join(d, f)))['case'])
                    except Exception:
                        pass
        return out

    def run_impl(self, case):
        """-> observation (json-able)"""
        raise NotImplementedError

    def model_lines(self, case, obs):
        """-> list of driver request lines for this case"""
        return []

    def compare(self, case, obs, answers):
        """-> None if the implementation's observation equals the model's prediction, else a description"""
        return None

    def oracle(self, case, obs):
        """-> list of dicts {signature, what} for every way `obs` violates the property (empty = holds)"""
        return []

    def nontrivial(self, case, obs):
        """-> hashable key if the case is non-trivial, else None"""
        return json.dumps(case, sort_keys=True)

    def stats(self, case, obs):
        """-> iterable of counter names hit by this case (input distribution / branches)"""
        return []

    def widen(self, rng, tier):
        """extra cases for the failing-input search when a tie is broken"""
        return self.cases(rng, 'thorough' if tier == 'quick' else tier)

    def shrink_candidates(self, case):
        return []


HANG_SIG = 'implementation-does-not-terminate'
CASE_TIMEOUT = int(os.environ.get('VERIF_CASE_TIMEOUT', '6'))      # wall-clock seconds for one case (cases take milliseconds)


class CaseTimeout(BaseException):
    pass


def _runqueue_wait():
    """seconds this thread has spent runnable but waiting for a core (second field of /proc/thread-self/schedstat); 0 where the
    kernel does not say"""
    try:
        with open('/proc/thread-self/schedstat') as f:
            return int(f.read().split()[1]) / 1e9
    except Exception:
        return 0.0


def guarded_run_impl(prop, case, timeout=None):
    """run one case against the implementation under a watchdog: code under test that spins (or eats memory) without returning
    must not wedge the check. -> (obs, err, hang)"""
    import signal

    fired = []
    limit = timeout or CASE_TIMEOUT
    t0, w0 = time.monotonic(), _runqueue_wait()

    def on_alarm(signum, frame):
        # the limit is on time this process could have used: wall-clock time minus the time it sat runnable on a run queue waiting
        # for a core (a machine busy with other work must not turn a case of a few milliseconds into a "hang"); a process that is
        # blocked or spinning accumulates none of that.  Hard cap: 20 x the limit of wall-clock time, whatever the scheduler says.
        wall = time.monotonic() - t0
        used = wall - max(0.0, _runqueue_wait() - w0)
        if used < limit and wall < 20 * limit and not fired:
            signal.setitimer(signal.ITIMER_REAL, max(0.25, limit - used))
            return
        # raised inside whatever is spinning; asyncio stores a BaseException raised inside a task instead of propagating it,
        # so the scenario may well go on and return: `fired` remembers that the watchdog had to break something up
        fired.append(1)
        signal.setitimer(signal.ITIMER_REAL, 2)      # and again, should the next thing spin as well
        raise CaseTimeout()
    old = signal.signal(signal.SIGALRM, on_alarm)
    signal.setitimer(signal.ITIMER_REAL, limit)
    try:
        obs = prop.run_impl(case)
        if fired:
            return None, None, True
        return obs, None, False
    except (CaseTimeout, MemoryError):
        return None, None, True
    except Exception as e:
        if fired:
            return None, None, True
        tb = traceback.extract_tb(e.__traceback__)
        if tb and os.path.abspath(tb[-1].filename).startswith(REPO + os.sep):
            # raised by the code under test (innermost frame in /repo) and not handled by the scenario: an outcome to report with
            # this input, not a failure of the machinery (on the unchanged tree no scenario ends this way)
            return {'__raised__': '%s: %s (%s:%d)' % (type(e).__name__, str(e)[:200], os.path.relpath(tb[-1].filename, REPO), tb[-1].lineno)}, None, False
        return None, 'harness error: %r\n%s' % (e, traceback.format_exc()), False     # infrastructure, not a verdict
    finally:
        signal.setitimer(signal.ITIMER_REAL, 0)
        signal.signal(signal.SIGALRM, old)


def _worker(args):
    prop, chunk, with_model = args
    results = []
    obs_list = []
    hung = set()
    skipped = set()
    for idx, case in enumerate(chunk):
        if len(hung) >= 2:
            # two inputs on which the implementation does not terminate are enough for a verdict: do not spend the run on more
            skipped.add(idx)
            obs_list.append((None, 'skipped'))
            continue
        obs, err, hang = guarded_run_impl(prop, case, timeout=3 if hung else None)
        if hang:
            hung.add(idx)
            err = 'hang'
        obs_list.append((obs, err))
    answers_all = None
    driver_err = None
    if with_model:
        lines, spans = [], []
        for case, (obs, err) in zip(chunk, obs_list):
            ls = prop.model_lines(case, obs) if err is None and not (isinstance(obs, dict) and '__raised__' in obs) else []
            spans.append((len(lines), len(lines) + len(ls)))
            lines += ls
        try:
            answers_all = run_driver(lines)
        except Exception as e:
            driver_err = repr(e)
    for i, (case, (obs, err)) in enumerate(zip(chunk, obs_list)):
        r = {'case': case, 'obs': obs, 'err': err, 'mismatch': None, 'oracle': [], 'key': None, 'stats': []}
        if i in skipped:
            r['err'] = None
            r['skipped'] = True
            results.append(r)
            continue
        if isinstance(obs, dict) and '__raised__' in obs:
            r['oracle'] = [{'signature': 'implementation-raised', 'what': 'the implementation raised out of the scenario on this input: ' + obs['__raised__']}]
            r['key'] = json.dumps(case, sort_keys=True, default=str)
            results.append(r)
            continue
        if i in hung:
            r['err'] = None
            r['oracle'] = [{'signature': HANG_SIG, 'what': 'the implementation did not return within %d s (or exhausted memory) on this input: processing does not terminate' % CASE_TIMEOUT}]
            r['key'] = json.dumps(case, sort_keys=True, default=str)
            results.append(r)
            continue
        if err is None:
            try:
                r['oracle'] = prop.oracle(case, obs)
                r['key'] = prop.nontrivial(case, obs)
                r['stats'] = list(prop.stats(case, obs))
                if with_model and answers_all is not None:
                    a, b = spans[i]
                    r['mismatch'] = prop.compare(case, obs, answers_all[a:b])
                    r['answers'] = answers_all[a:b]
            except Exception as e:
                r['err'] = 'harness error in judge: %r\n%s' % (e, traceback.format_exc())
        if driver_err:
            r['err'] = (r['err'] or '') + ' driver: ' + driver_err
        results.append(r)
    return results


def run_cases(prop, cases, with_model=True, nproc=NPROC):
    cases = list(cases)
    if not cases:
        return []
    n = max(1, min(nproc, len(cases) // 4 or 1))
    chunks = [cases[i::n] for i in range(n)]
    if n == 1:
        parts = [_worker((prop, chunks[0], with_model))]
    else:
        with mp.get_context('fork').Pool(n) as pool:
            parts = pool.map(_worker, [(prop, c, with_model) for c in chunks])
    return [r for part in parts for r in part]


def load_known():
    p = os.path.join(VERIF, 'known_findings.json')
    if os.path.exists(p):
        return json.load(open(p))
    return {'findings': [], 'fixed': []}


def shrink(prop, case, still_fails, budget=300):
    best = case
    improved = True
    while improved and budget > 0:
        improved = False
        for cand in prop.shrink_candidates(best):
            budget -= 1
            if budget <= 0:
                break
            try:
                if still_fails(cand):
                    best = cand
                    improved = True
                    break
            except Exception:
                pass
    return best


def write_replay(prop_id, payload):
    os.makedirs(os.path.join(VERIF, 'replays'), exist_ok=True)
    h = hashlib.sha1(json.dumps(payload, sort_keys=True, default=str).encode()).hexdigest()[:10]
    path = os.path.join(VERIF, 'replays', '%s-%s.json' % (prop_id, h))
    json.dump(payload, open(path, 'w'), indent=1, default=str)
    return path


def main(prop):
    import argparse
    ap = argparse.ArgumentParser()
    ap.add_argument('--tier', default=os.environ.get('VERIF_TIER', 'quick'))
    ap.add_argument('--replay')
    ap.add_argument('--no-build', action='store_true')
    a = ap.parse_args(sys.argv[2:])
    tier = a.tier if a.tier in ('quick', 'thorough') else 'quick'
    seed = int(os.environ.get('VERIF_SEED', '0') or 0)
    t0 = time.time()
    sys.path.insert(0, REPO)
    import logging
    logging.disable(logging.CRITICAL)

    if a.replay:
        payload = json.load(open(a.replay))
        case = payload.get('case')
        if case is None:
            print('replay names a broken obligation, not an input:', json.dumps(payload.get('broken'), indent=1))
            sys.exit(1)
        obs, err, hang = guarded_run_impl(prop, case)
        if err:
            print(err)
            sys.exit(2)
        fails = [{'signature': HANG_SIG, 'what': 'the implementation did not return within %d s on this input' % CASE_TIMEOUT}] if hang else prop.oracle(case, obs)
        print(json.dumps({'case': case, 'observation': obs, 'oracle': fails}, indent=1, default=str))
        sys.exit(1 if fails else 0)

    b = build(prop.id, prop.lean_modules, thorough=(tier == 'thorough'))
    if not b.driver_ok and prop.use_driver:
        print('NOTE: Lean driver unavailable; correspondence cannot run, going straight to failing-input search')
    rng = random.Random('%s/%s/%s' % (prop.id, seed, tier))
    gen_error = None
    try:
        cases = prop.corpus_cases() + list(prop.cases(rng, tier))
    except Exception:
        # the generators build their inputs with the repository's own classes (frames, payloads, builders); they complete on the unchanged
        # tree, so an exception here means the code under test changed under them: a broken tie, not an infrastructure error
        import traceback
        gen_error = traceback.format_exc()
        try:
            cases = prop.corpus_cases()
        except Exception:
            cases = []
    results = run_cases(prop, cases, with_model=b.driver_ok and prop.use_driver)

    infra = [r for r in results if r['err']]
    unevaluable = []
    if infra:
        # A scenario or its judge raised. On the unchanged tree every scenario runs to completion, so a *reproducible* exception means
        # the code under test no longer behaves the way the correspondence run relies on (an attribute it reads is gone, a call returns
        # None, ...): the tie is broken on these inputs. Anything else (driver failure, a one-off) is an infrastructure error.
        reproducible = True
        for r in infra[:3]:
            e = str(r['err'])
            if not e.startswith('harness error') or ' driver: ' in e:
                reproducible = False
                break
            obs2, err2, hang2 = guarded_run_impl(prop, r['case'])
            if e.startswith('harness error in judge'):
                if err2 is not None or hang2:
                    reproducible = False
                    break
            elif err2 is None:
                reproducible = False
                break
        if not reproducible:
            print('INFRASTRUCTURE ERROR in %d cases; first:\n%s' % (len(infra), infra[0]['err']))
            os.makedirs(os.path.join(VERIF, 'replays'), exist_ok=True)
            json.dump({'case': infra[0]['case'], 'err': infra[0]['err']}, open(os.path.join(VERIF, 'replays', prop.id + '-infra.json'), 'w'), indent=1, default=str)
            sys.exit(2)
        unevaluable = infra
        results = [r for r in results if not r['err']]

    known = load_known()
    known_sigs = {(k['property'], k['signature']): k for k in known.get('findings', [])}
    mismatches = [r for r in results if r['mismatch']]
    oracle_fail = [(r, o) for r in results for o in r['oracle']]
    broken = list(b.broken)
    if mismatches:
        broken.append('correspondence %s: implementation and Lean model differ on %d of %d cases' % (
            prop.id, len(mismatches), len(results)))
    if unevaluable:
        first_line = [x for x in str(unevaluable[0]['err']).splitlines() if x.strip()][0][:300]
        broken.append('correspondence %s: the scenario cannot be evaluated on %d of %d cases (it completes on the unchanged tree; now: %s)' % (
            prop.id, len(unevaluable), len(results) + len(unevaluable), first_line))

    if gen_error:
        broken.append('correspondence %s: the case generator, which builds its inputs with the repository\'s own classes, raised (it completes on the unchanged tree): %s' % (
            prop.id, ' | '.join([x.strip() for x in gen_error.splitlines() if x.strip()][-3:])[:500]))

    searched = 0
    if broken and not [1 for (r, o) in oracle_fail if (prop.id, o['signature']) not in known_sigs]:
        # a tie is broken but no failing input yet: widened search against the real code
        rng2 = random.Random('%s/%s/widen' % (prop.id, seed))
        try:
            extra = list(prop.widen(rng2, tier))
        except Exception:
            extra = []
        searched = len(extra)
        res2 = run_cases(prop, extra, with_model=False)
        oracle_fail += [(r, o) for r in res2 if not r['err'] for o in r['oracle']]

    known_hit = {}
    new_fail = []
    for r, o in oracle_fail:
        k = known_sigs.get((prop.id, o['signature']))
        if k:
            known_hit.setdefault(o['signature'], (k, r, o))
        else:
            new_fail.append((r, o))

    status = 0
    lines = []
    for sig, (k, r, o) in sorted(known_hit.items()):
        lines.append('KNOWN-FINDING: property=%s %s' % (prop.id, k['what']))
    if new_fail:
        r, o = new_fail[0]
        sig = o['signature']

        def still(c):
            obs_c, err_c, hang_c = guarded_run_impl(prop, c)
            if hang_c:
                return sig == HANG_SIG
            if err_c is not None:
                return False
            if isinstance(obs_c, dict) and '__raised__' in obs_c:
                return sig == 'implementation-raised'
            return any(x['signature'] == sig for x in prop.oracle(c, obs_c))
        start = r['case']
        if hasattr(prop, 'explicit') and sig not in (HANG_SIG, 'implementation-raised'):
            try:
                cand = prop.explicit(r['case'], r['obs'])
                if still(cand):
                    start = cand
            except Exception:
                pass
        small = shrink(prop, start, still, budget=300 if sig != HANG_SIG else 12)
        obs, _e, _h = guarded_run_impl(prop, small)
        path = write_replay(prop.id, {'property': prop.id, 'kind': 'failing-input', 'signature': sig,
                                      'what': o['what'], 'case': small, 'observation': obs,
                                      'oracle': prop.oracle(small, obs) if obs is not None and '__raised__' not in (obs if isinstance(obs, dict) else {}) else [o], 'broken': broken,
                                      'distinct_signatures': sorted({x['signature'] for _, x in new_fail})})
        cdir = os.path.join(VERIF, 'corpus', prop.id)
        lines.append('VIOLATION property=%s replay=%s' % (prop.id, os.path.relpath(path, VERIF)))
        status = 1
    elif broken:
        sample = None
        if mismatches:
            m = mismatches[0]
            sample = {'case': m['case'], 'implementation': m['obs'], 'model': m.get('answers'), 'difference': m['mismatch']}
        if sample is None and unevaluable:
            sample = {'case': unevaluable[0]['case'], 'scenario_raised': str(unevaluable[0]['err'])[-2500:]}
        path = write_replay(prop.id, {'property': prop.id, 'kind': 'no-failing-input-found', 'broken': broken,
                                      'sample_difference': sample, 'searched_cases': len(results) + searched,
                                      'build_log_tail': b.log[-3000:] if not b.proofs_ok or not b.driver_ok else ''})
        lines.append('VIOLATION property=%s replay=%s no-failing-input-found' % (prop.id, os.path.relpath(path, VERIF)))
        status = 1

    keys = {r['key'] for r in results if r['key'] is not None}
    dist = {}
    for r in results:
        for s in r['stats']:
            dist[s] = dist.get(s, 0) + 1
    samples = []
    for r in results[:: max(1, len(results) // 3)][:3]:
        samples.append({'case': r['case'], 'implementation': r['obs'], 'model': r.get('answers')})
    ev = {
        'property_id': prop.id, 'tier': tier, 'seed': seed, 'level': 'proof',
        'coverage': {
            'obligations': len(b.obligations), 'discharged': len(b.discharged),
            'theorems': b.obligations, 'axioms': b.axioms,
            'checker_cmd': 'cd lean && lake build %s && lake env lean .lake/audit/%s.lean  (#print axioms)%s' % (
                ' '.join(prop.lean_modules), prop.id, ' && lake env leanchecker ...' if tier == 'thorough' else ''),
            'trusted_base': TRUSTED_BASE,
            'evaluations': len(results) + searched,
            'distinct_nontrivial': len(keys),
            'rule': prop.rule,
            'traces_validated_against_impl': len([r for r in results if r['mismatch'] is None and not r['err']]) if b.driver_ok and prop.use_driver else 0,
            'correspondence_mismatches': len(mismatches),
            'input_distribution': dict(sorted(dist.items())),
            'samples': json.loads(json.dumps(samples, default=str)),
            'translator_notes': b.translate_notes,
            'known_findings_matched': sorted(known_hit.keys()),
            'broken_ties': broken,
        },
        'assumptions': list(prop.assumptions),
        'wall_s': round(time.time() - t0, 2),
        'violations': len({o['signature'] for _, o in new_fail}) + (1 if (broken and not new_fail) else 0),
    }
    os.makedirs(os.path.join(VERIF, 'evidence'), exist_ok=True)
    json.dump(ev, open(os.path.join(VERIF, 'evidence', prop.id + '.json'), 'w'), indent=1)
    for ln in lines:
        print(ln)
    print('%s %s tier=%s seed=%d: %d theorems (%d discharged), %d cases (%d distinct non-trivial), %d mismatches, %d oracle failures (%d known), %.1fs' % (
        prop.id, 'OK' if status == 0 else 'FAIL', tier, seed, len(b.obligations), len(b.discharged), len(results) + searched,
        len(keys), len(mismatches), len(oracle_fail), len(oracle_fail) - len(new_fail), time.time() - t0))
    sys.exit(status)
