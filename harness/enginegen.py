"""Adaptive script generation for the engine harness: chooses the next group of stimuli from what is enabled
for a protocol-legal peer and a reactive-streams-legal application (or, in the hostile profile, anything)."""


class Shadow:
    """What the peer and the application know; used only to *choose* stimuli."""

    def __init__(self, role):
        self.role = role
        self.peer_next_id = 2 if role == 'client' else 1
        self.info = {}          # oid -> dict
        self.tag = 0
        self.setup_done = role == 'client'
        self.chan_complete_sids = set()
        self.pending_frags = []      # remaining fragments (stimuli) of frames the peer has started to send
        self.big = False        # the endpoint fragments: some payloads handed to it span several fragments
        self.early_cancel = set()    # objects cancelled in the group that created them
        self.early_credit = {}

    def data(self, rng, n):
        """payload tags for a local send: occasionally larger than one fragment when the endpoint fragments"""
        if self.big and rng.random() < 0.35:
            return self.fresh(rng.choice([70, 150]))
        return self.fresh(n)

    def fresh(self, n=1):
        out = []
        for _ in range(n):
            self.tag = self.tag % 250 + 1
            out.append(self.tag)
        return out


def choose_group(rng, H, sh, profile, pos):
    """returns a list of stimuli (one group, applied without letting the loop run in between)"""
    group = []
    _sync(H, sh)
    begun = [id(p) for p in sh.pending_frags]      # frames the peer had begun before this group
    if rng.random() < 0.12 and not H.closed_seen:
        # race templates: two stimuli inside one loop iteration
        cands = []
        for oid, i in sh.info.items():
            if i['kind'] == 'rrReq' and not i['peer_term'] and not i['we_cancel']:
                resp = {'op': 'recv', 'frame': {'ty': 'PAYLOAD', 'sid': i['sid'], 'data': sh.fresh(1), 'complete': True}, 'beh': 'k'}
                err = {'op': 'recv', 'frame': {'ty': 'ERROR', 'sid': i['sid'], 'code': 513}, 'beh': 'k'}
                cands.append([rng.choice([resp, err]), {'op': 'FCN', 'oid': oid}])
                cands.append([{'op': 'FCN', 'oid': oid}, resp])
            if i['kind'] == 'rrResp' and not i['fut_done'] and not i['peer_cancel']:
                cands.append([{'op': 'recv', 'frame': {'ty': 'CANCEL', 'sid': i['sid']}, 'beh': 'k'}, {'op': 'HR', 'oid': oid, 'data': sh.fresh(1)}])
                cands.append([{'op': 'HR', 'oid': oid, 'data': sh.fresh(1)}, {'op': 'recv', 'frame': {'ty': 'CANCEL', 'sid': i['sid']}, 'beh': 'k'}])
            if i['kind'] in ('stReq', 'chReq') and i['subscribed'] and not i['peer_term'] and not i['we_cancel']:
                cands.append([{'op': 'recv', 'frame': {'ty': 'PAYLOAD', 'sid': i['sid'], 'data': [], 'complete': True}, 'beh': 'k'}, {'op': 'SCN', 'oid': oid}])
                cands.append([{'op': 'SCN', 'oid': oid}, {'op': 'recv', 'frame': {'ty': 'PAYLOAD', 'sid': i['sid'], 'data': sh.fresh(1), 'complete': False}, 'beh': 'k'}])
        if sh.setup_done:
            # a request and, inside the same loop iteration (its frame is still in the send queue), a cancellation / more credit for it
            nxt = len(H.objs)
            n0 = rng.choice([1, 2, 3])
            cands.append([{'op': 'RS', 'data': sh.data(rng, 1), 'n': n0, 'sub': True}, {'op': 'SCN', 'oid': nxt}])
            cands.append([{'op': 'RC', 'data': sh.data(rng, 1), 'n': n0, 'pub': rng.random() < 0.6, 'sub': True}, {'op': 'SCN', 'oid': nxt}])
            cands.append([{'op': 'RR', 'data': sh.data(rng, 1)}, {'op': 'FCN', 'oid': nxt}])
            cands.append([{'op': 'RS', 'data': sh.data(rng, 1), 'n': n0, 'sub': True}, {'op': 'SRQ', 'oid': nxt, 'n': rng.choice([1, 2])}])
        if cands:
            group = rng.choice(cands)
            for s in group:
                note(sh, H, s)
            abandon_after_cancel(rng, sh, group, begun)
            return group
    for _ in range(rng.choice([1, 1, 1, 2, 2, 3])):
        s = choose_one(rng, H, sh, profile)
        if s is not None:
            note(sh, H, s)
            group.extend(fragmented(rng, sh, s))
    abandon_after_cancel(rng, sh, group, begun)
    return group


def abandon_after_cancel(rng, sh, group, begun):
    """a peer that is told CANCEL in the middle of a fragmented frame it had begun may stop there: the rest of the frame never
    arrives (the partial frame must not stay in the reassembly cache of the cancelled stream). A frame the peer begins after the
    cancel (crossing it in flight) is always finished: the library's own sender never abandons a frame."""
    for s in group:
        if s['op'] in ('SCN', 'FCN'):
            i = sh.info.get(s.get('oid'))
            # only the first cancellation of a stream: a frame begun after the stream was already cancelled is always finished
            if i is not None and i.get('cancels', 0) == 1 and any(p['frame']['sid'] == i['sid'] and id(p) in begun for p in sh.pending_frags) and rng.random() < 0.6:
                sh.pending_frags = [p for p in sh.pending_frags if not (p['frame']['sid'] == i['sid'] and id(p) in begun)]


FRAGMENTABLE = ('REQUEST_RESPONSE', 'REQUEST_FNF', 'REQUEST_STREAM', 'REQUEST_CHANNEL', 'PAYLOAD')


def fragmented(rng, sh, s):
    """a peer with fragmentation enabled: a payload-carrying frame arrives as 2..3 legal fragments (first keeps the type and the request-n,
    FOLLOWS on all but the last, COMPLETE only on the last, continuation fragments are PAYLOAD frames), delivered back to back"""
    if s['op'] != 'recv' or s.get('continuation') or rng.random() >= 0.3:
        return [s]
    f = s['frame']
    if f['ty'] not in FRAGMENTABLE or f.get('follows') or f['sid'] == 0:
        return [s]
    data = list(f.get('data') or [])
    while len(data) < 2:
        data = data + sh.fresh(1)
    k = 3 if len(data) >= 3 and rng.random() < 0.5 else 2
    cuts = [data[:1], data[1:]] if k == 2 else [data[:1], data[1:2], data[2:]]
    out = []
    for j, part in enumerate(cuts):
        last = j == len(cuts) - 1
        if j == 0:
            g = dict(f, data=part, follows=True, complete=False)
            if f['ty'] == 'PAYLOAD':
                g['next'] = True
        else:
            g = {'ty': 'PAYLOAD', 'sid': f['sid'], 'data': part, 'follows': not last, 'complete': bool(f.get('complete')) and last, 'next': True}
        out.append({'op': 'recv', 'frame': g, 'beh': s.get('beh', 'k')})
    if f['ty'] == 'REQUEST_CHANNEL' and f.get('complete'):
        sh.chan_complete_sids.add(f['sid'])
    if rng.random() < 0.5 and not any(p['frame']['sid'] == f['sid'] for p in sh.pending_frags):
        # the rest arrives later: other streams' frames, local activity or the end of the connection may come in between
        sh.pending_frags.extend(out[1:])
        return out[:1]
    return out


def _sync(H, sh):
    for oid, o in enumerate(H.objs):
        if oid not in sh.info:
            sh.info[oid] = dict(kind=o['kind'], sid=o['sid'], sent=o['kind'] == 'rrReq', subscribed=False, peer_term=False, we_cancel=False,
                                credit_out=0, pub_term=False, peer_cancel=False, fut_done=False, credit_in=0,
                                has_pub=bool(o.get('pub')), has_sub=bool(o.get('sub')), peer_opened=o['kind'] in ('rrResp', 'stResp', 'chResp'))
            i = sh.info[oid]
            did = getattr(o.get('sub'), 'did_in_subscribe', None)
            if did:
                if did[0] == 'SCN':
                    i['we_cancel'] = True
                    i['cancels'] = i.get('cancels', 0) + 1
                else:
                    i['credit_out'] += did[1]
            if oid in sh.early_cancel:
                i['we_cancel'] = True
            i['credit_out'] += sh.early_credit.pop(oid, 0)
            if o['kind'] == 'rrResp':
                i['fut_done'] = o['fut'].done()
            if o['kind'] in ('stResp', 'chResp'):
                i['subscribed'] = True
            if o['kind'] == 'chResp':
                for spec in H.recv_specs.values():
                    if spec.get('ty') == 'REQUEST_CHANNEL' and spec['sid'] == o['sid'] and spec.get('complete'):
                        i['peer_term'] = True
                if o['sid'] in sh.chan_complete_sids:
                    i['peer_term'] = True
    for oid, i in sh.info.items():
        o = H.objs[oid]
        if o['kind'] in ('stReq', 'chReq'):
            i['sid'] = o['req'].stream_id
            if o['sub'].subscription is not None and not i['subscribed']:
                i['subscribed'] = True
                i['sent'] = True


def choose_one(rng, H, sh, profile):
    _sync(H, sh)
    if H.closed_seen and rng.random() < 0.7:
        return None
    if sh.pending_frags and not H.closed_seen and rng.random() < 0.55:
        return dict(sh.pending_frags.pop(0), continuation=True)
    opts = []
    w = opts.append
    hostile = profile == 'hostile'
    # ---- local API -------------------------------------------------------------------------
    w((3, lambda: {'op': 'RR', 'data': sh.data(rng, rng.choice([0, 1, 2]))}))
    w((1, lambda: {'op': 'FNF', 'data': sh.data(rng, 1)}))
    w((0.4, lambda: {'op': 'OWC'}))
    w((1, lambda: {'op': 'MP', 'data': sh.fresh(1)}))
    def insub(s):
        # the application's subscriber asks for more, or cancels, inside on_subscribe
        if s.get('sub', True) and s.get('n', 1) > 0 and rng.random() < 0.15:
            s['insub'] = rng.choice([['SRQ', rng.choice([1, 2, 5])], ['SRQ', 1], ['SCN']])
        return s
    def topup(s):
        # the subscriber of a request-stream tops its credit up in batches from inside on_next (never on an element flagged complete)
        if rng.random() < 0.2:
            s['topup'] = rng.choice([1, 1, 2, 3])
        return s
    w((3, lambda: topup(insub({'op': 'RS', 'data': sh.data(rng, rng.choice([0, 1])), 'n': rng.choice([1, 1, 2, 3, 2 ** 31 - 1] + ([0] if rng.random() < 0.1 else []) + ([2 ** 31] if rng.random() < 0.15 else [])), 'sub': rng.random() < 0.85}))))
    w((3, lambda: insub({'op': 'RC', 'data': sh.data(rng, 1), 'n': rng.choice([1, 2, 3, 2 ** 31 - 1] + ([2 ** 31] if rng.random() < 0.15 else [])), 'pub': rng.random() < 0.7, 'sub': rng.random() < 0.85})))
    for oid, i in sh.info.items():
        k = i['kind']
        if k in ('stReq', 'chReq'):
            if not i['subscribed']:
                w((3, lambda oid=oid: insub({'op': 'SUB', 'oid': oid})))
            else:
                if not i['we_cancel'] and not i['peer_term']:
                    # (now and then a computed top-up comes out as 0: a local action like any other)
                    w((2, lambda oid=oid: {'op': 'SRQ', 'oid': oid, 'n': rng.choice([1, 2, 5] * 8 + [0])}))
                    w((1, lambda oid=oid: {'op': 'SCN', 'oid': oid}))
                elif hostile:
                    w((1, lambda oid=oid: {'op': 'SCN', 'oid': oid}))
        if k == 'chResp' and i['has_sub'] and not i['we_cancel'] and not i['peer_term']:
            w((2, lambda oid=oid: {'op': 'SRQ', 'oid': oid, 'n': rng.choice([1, 2, 5] * 8 + [0])}))
            w((1, lambda oid=oid: {'op': 'SCN', 'oid': oid}))
        if k == 'rrReq':
            w((2 if not i['peer_term'] and not i['we_cancel'] else 0.3, lambda oid=oid: {'op': 'FCN', 'oid': oid}))
        if any(p['frame']['sid'] == i['sid'] for p in sh.pending_frags) and not i['we_cancel']:
            # the peer is in the middle of a fragmented frame for this stream: cancelling now leaves a partial frame behind
            if k == 'rrReq':
                w((8, lambda oid=oid: {'op': 'FCN', 'oid': oid}))
            elif k in ('stReq', 'chReq') and i['subscribed'] or (k == 'chResp' and i['has_sub']):
                w((8, lambda oid=oid: {'op': 'SCN', 'oid': oid}))
        # application producing
        if k in ('stResp', 'chResp', 'chReq') and i['has_pub'] and i['subscribed'] and (not i['pub_term'] or hostile) and not (i['peer_cancel'] and not hostile):
            w((4, lambda oid=oid: {'op': 'PN', 'oid': oid, 'data': sh.data(rng, rng.choice([0, 1, 1, 2])), 'complete': rng.random() < 0.2}))
            w((1, lambda oid=oid: {'op': 'PC', 'oid': oid}))
            w((0.7, lambda oid=oid: {'op': 'PE', 'oid': oid}))
        if k == 'rrResp' and (not i['fut_done'] or hostile):
            w((4, lambda oid=oid: {'op': 'HR', 'oid': oid, 'data': sh.data(rng, rng.choice([0, 1, 2]))}))
            w((1, lambda oid=oid: {'op': 'HF', 'oid': oid}))
    # ---- peer ------------------------------------------------------------------------------
    if not H.closed_seen:
        def peer(frame, beh='k'):
            return {'op': 'recv', 'frame': frame, 'beh': beh}
        rb = lambda ok: ok if rng.random() < 0.85 else 'x'
        if not sh.setup_done:
            w((30, lambda: peer({'ty': 'SETUP', 'sid': 0, 'data': sh.fresh(1), 'complete': rng.random() < 0.2, 'respond': rng.random() < 0.1}, rb('k'))))
        else:
            nid = lambda: sh.peer_next_id
            w((3, lambda: peer({'ty': 'REQUEST_RESPONSE', 'sid': nid(), 'data': sh.fresh(rng.choice([0, 1, 2]))},
                               rb(rng.choice(['fp', 'fp', 'fr.%s' % ','.join(map(str, sh.fresh(1))), 'fr.-', 'ff'])))))
            w((3, lambda: peer({'ty': 'REQUEST_STREAM', 'sid': nid(), 'data': sh.fresh(1), 'n': rng.choice([1, 2, 5, 2 ** 31 - 1])}, rb('pb'))))
            w((3, lambda: peer({'ty': 'REQUEST_CHANNEL', 'sid': nid(), 'data': sh.fresh(1), 'n': rng.choice([1, 2, 5]), 'complete': rng.random() < 0.3},
                               rb(rng.choice(['ch11', 'ch11', 'ch11', 'ch01', 'ch10', 'ch00'])))))
            w((1, lambda: peer({'ty': 'REQUEST_FNF', 'sid': nid(), 'data': sh.fresh(1)}, rb('k'))))
            w((1, lambda: peer({'ty': 'METADATA_PUSH', 'sid': 0, 'data': sh.fresh(1)}, rb('k'))))
            w((0.7, lambda: peer({'ty': 'KEEPALIVE', 'sid': 0, 'data': sh.fresh(rng.choice([0, 1])), 'respond': rng.random() < 0.6})))
            w((0.3, lambda: peer({'ty': 'ERROR', 'sid': 0, 'code': 257})))
            w((0.2, lambda: peer({'ty': 'LEASE', 'sid': 0, 'n': 3, 'code': 1000})))
            for oid, i in sh.info.items():
                k, sid = i['kind'], i['sid']
                if any(p['frame']['sid'] == sid for p in sh.pending_frags):
                    continue        # a legal peer does not interleave other frames of a stream with the fragments of one of its frames
                inflight = i['we_cancel'] and rng.random() < 0.3      # frames the peer sent before it saw our cancel
                if k == 'rrReq' and i['sent'] and not i['peer_term'] and (not i['we_cancel'] or inflight):
                    w((4, lambda sid=sid: peer({'ty': 'PAYLOAD', 'sid': sid, 'data': sh.fresh(rng.choice([0, 1, 1, 2])), 'complete': True})))
                    w((1, lambda sid=sid: peer({'ty': 'ERROR', 'sid': sid, 'code': rng.choice([513, 514, 515, 516])})))
                if k in ('stReq', 'chReq', 'chResp') and i['sent' if k != 'chResp' else 'subscribed'] and not i['peer_term'] and (not i['we_cancel'] or inflight):
                    if k == 'chResp' and not i['has_sub']:
                        pass
                    else:
                        if i['credit_out'] > 0:
                            w((5, lambda sid=sid: peer({'ty': 'PAYLOAD', 'sid': sid, 'data': sh.fresh(rng.choice([1, 1, 2])), 'complete': rng.random() < 0.15})))
                        w((1.2, lambda sid=sid: peer({'ty': 'PAYLOAD', 'sid': sid, 'data': [], 'complete': True})))
                        w((0.8, lambda sid=sid: peer({'ty': 'ERROR', 'sid': sid, 'code': rng.choice([513, 514])})))
                if k in ('chReq', 'chResp', 'stResp') and (i['sent'] or i['peer_opened']) and not i['peer_cancel']:
                    if k != 'chReq' or i['sent']:
                        w((2, lambda sid=sid: peer({'ty': 'REQUEST_N', 'sid': sid, 'n': rng.choice([1, 2, 7, 2 ** 31 - 1])})))
                        if not (k in ('chReq', 'chResp') and not i['has_pub']) or hostile:
                            w((0.8, lambda sid=sid: peer({'ty': 'CANCEL', 'sid': sid})))
                if k == 'rrResp' and not i['peer_cancel']:
                    w((1, lambda sid=sid: peer({'ty': 'CANCEL', 'sid': sid})))
        if hostile:
            sids = [i['sid'] for i in sh.info.values()] + [0, 1, 2, 3, 4, 99, 100]
            tys = ['SETUP', 'LEASE', 'KEEPALIVE', 'REQUEST_RESPONSE', 'REQUEST_FNF', 'REQUEST_STREAM', 'REQUEST_CHANNEL', 'REQUEST_N', 'CANCEL', 'PAYLOAD',
                   'ERROR', 'METADATA_PUSH', 'RESUME', 'RESUME_OK']
            w((14, lambda: peer({'ty': rng.choice(tys), 'sid': rng.choice(sids), 'data': sh.fresh(rng.choice([0, 1])), 'n': rng.choice([0, 1, 3]),
                                 'code': rng.choice([1, 2, 257, 513, 514, 515]), 'complete': rng.random() < 0.3, 'follows': rng.random() < 0.15,
                                 'respond': rng.random() < 0.3},
                                rng.choice(['x', 'k', 'fp', 'ff', 'pb', 'ch11', 'ch00', 'ch10', 'ch01', 'fr.-']))))
            w((7, lambda: raw_item(rng, sh, sids, tys)))
        lost_w = {'loss': 0.6, 'legal': 0.12, 'hostile': 0.1, 'cancel': 0.05, 'quiesce': 0.0}.get(profile, 0.1)
        w((lost_w, lambda: rng.choice([{'op': 'lost', 'mode': 'eof'}, {'op': 'lost', 'mode': 'error'}, {'op': 'close'}])))
    total = sum(x[0] for x in opts)
    r = rng.random() * total
    for wt, fn in opts:
        r -= wt
        if r <= 0:
            return fn()
    return None


def raw_item(rng, sh, sids, tys):
    """one raw message for the receiver: a serialised frame, as is or damaged (truncated, IGNORE flag set and truncated, a flipped bit,
    unknown frame type, random bytes, empty, reserved bits set)"""
    from harness.engine import build_frame
    spec = {'ty': rng.choice(tys), 'sid': rng.choice(sids + [sh.peer_next_id]), 'data': sh.fresh(rng.choice([0, 1, 2])), 'n': rng.choice([0, 1, 3]),
            'code': rng.choice([1, 2, 257, 513, 514, 515]), 'complete': rng.random() < 0.3, 'follows': rng.random() < 0.1, 'respond': rng.random() < 0.3}
    try:
        b = bytearray(build_frame(spec).serialize())
    except Exception:
        b = bytearray(b'\x00\x00\x00\x01\x28\x20x')
    mode = rng.choice(['asis', 'asis', 'trunc', 'trunc', 'ign-trunc', 'ign-trunc', 'ign', 'flip', 'flip', 'random', 'unknown', 'type0', 'empty', 'reserved', 'reserved'])
    if mode == 'reserved':
        # the reserved top bit of a 31- / 63-bit field set: the first field behind the header (KEEPALIVE position, request-n, LEASE ttl,
        # ERROR code, SETUP version) or the stream id; a KEEPALIVE asks to be echoed
        if rng.random() < 0.5:
            spec = dict(spec, ty='KEEPALIVE', sid=0, respond=True)
            b = bytearray(build_frame(spec).serialize())
        if len(b) > 6 and rng.random() < 0.8:
            b[6] |= 0x80
        elif b:
            b[0] |= 0x80
    if mode in ('trunc', 'ign-trunc') and len(b) > 1:
        if mode == 'ign-trunc' and len(b) > 4:
            b[4] |= 0x02
        b = b[:rng.randint(0, len(b) - 1)]
    elif mode == 'ign' and len(b) > 4:
        b[4] |= 0x02
    elif mode == 'flip' and b:
        i = rng.randrange(len(b))
        b[i] ^= 1 << rng.randrange(8)
    elif mode == 'random':
        b = bytearray(rng.getrandbits(8) for _ in range(rng.choice([1, 5, 6, 7, 12, 30])))
    elif mode == 'unknown' and len(b) > 4:
        b[4] = (rng.choice([15, 16, 31, 62, 63]) << 2) | (b[4] & 3)
    elif mode == 'type0' and len(b) > 4:
        b[4] &= 3
    elif mode == 'empty':
        b = bytearray()
    return {'op': 'raw', 'hex': bytes(b).hex(), 'beh': rng.choice(['x', 'k', 'fp', 'ff', 'pb', 'ch11', 'ch00', 'ch10', 'ch01', 'fr.-'])}


def note(sh, H, s):
    """update what peer/app have done after choosing a stimulus"""
    op = s['op']
    if op == 'raw' or s.get('continuation'):
        return
    if op == 'recv':
        f = s['frame']
        ty, sid = f['ty'], f['sid']
        if ty == 'SETUP':
            sh.setup_done = True
        if ty in ('REQUEST_RESPONSE', 'REQUEST_STREAM', 'REQUEST_CHANNEL', 'REQUEST_FNF') and sid == sh.peer_next_id:
            sh.peer_next_id += 2
            sh.pending_chan = f if ty == 'REQUEST_CHANNEL' else None
        for i in sh.info.values():
            if i['sid'] == sid:
                if ty == 'PAYLOAD':
                    if f.get('data'):
                        i['credit_out'] -= 1
                    if f.get('complete'):
                        i['peer_term'] = True
                elif ty == 'ERROR':
                    i['peer_term'] = True
                elif ty == 'CANCEL':
                    i['peer_cancel'] = True
        return
    if op in ('lost', 'close'):
        return
    oid = s.get('oid')
    i = sh.info.get(oid)
    if op in ('RS', 'RC'):
        sh.last_new = s
        # (what the subscriber did inside on_subscribe is read off the object when the shadow meets it: _sync)
    if i is None:
        # an object created earlier in the same group: remembered until the shadow meets it
        if op in ('SCN', 'FCN'):
            sh.early_cancel.add(oid)
        elif op == 'SRQ':
            sh.early_credit[oid] = sh.early_credit.get(oid, 0) + s['n']
        return
    if op == 'SUB' and s.get('insub'):
        if s['insub'][0] == 'SCN':
            i['we_cancel'] = True
            i['cancels'] = i.get('cancels', 0) + 1
        else:
            i['credit_out'] += s['insub'][1]
    if op == 'SRQ':
        i['credit_out'] += s['n']
    elif op == 'SCN':
        i['we_cancel'] = True
        i['cancels'] = i.get('cancels', 0) + 1
    elif op == 'FCN':
        i['we_cancel'] = True
        i['cancels'] = i.get('cancels', 0) + 1
    elif op == 'PN' and s.get('complete'):
        i['pub_term'] = True
    elif op in ('PC', 'PE'):
        i['pub_term'] = True
    elif op in ('HR', 'HF'):
        i['fut_done'] = True


def after_apply(sh, H):
    """credit granted by newly created requesters / responders is only known once the object exists"""
    _sync(H, sh)
    for oid, i in sh.info.items():
        o = H.objs[oid]
        if not i.get('credit_init'):
            if o['kind'] in ('stReq', 'chReq') and i['subscribed']:
                i['credit_out'] += o['req']._initial_request_n
                i['credit_init'] = True
            if o['kind'] == 'chResp':
                i['credit_init'] = True
                # a channel responder grants credit only through Subscription.request
