"""debug helper: python -m harness.debug C02 [n] -> prints distinct mismatches / oracle failures"""
import sys, random, logging
from harness import core
import importlib
logging.disable(logging.CRITICAL)
pid = sys.argv[1]
mod = importlib.import_module('harness.props.' + pid.lower())
P = mod.PROP
import os
rng = random.Random('%s/%s/%s' % (P.id, os.environ.get('VERIF_SEED', '0'), 'quick'))
cases = list(P.cases(rng, 'quick'))
res = core.run_cases(P, cases)
seen = set()
lim = int(sys.argv[2]) if len(sys.argv) > 2 else 10
for r in res:
    if r['err']:
        print('ERR', r['err'][:1500]); break
for r in res:
    if r['mismatch']:
        key = r['mismatch'][:60]
        if key in seen: continue
        seen.add(key)
        print('MISMATCH', r['mismatch'][:700]); print('   case', str(r['case'])[:500])
        if len(seen) >= lim: break
seen = set()
for r in res:
    for o in r['oracle']:
        if o['signature'] in seen: continue
        seen.add(o['signature'])
        print('ORACLE', o['signature'], o['what'][:500]); print('   case', str(r['case'])[:500])
