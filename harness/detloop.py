"""Deterministic asyncio event loop with a virtual clock (integer microseconds), driven by the harness
coroutine through `settle()` and `advance(dt)`; `datetime.now()` of rsocket modules reads the same clock."""
import asyncio
import datetime as _dt
import heapq

BASE = _dt.datetime(2020, 1, 1, 0, 0, 0)


class DetLoop(asyncio.SelectorEventLoop):
    def __init__(self):
        super().__init__()
        self.vt_us = 0

    def time(self):
        return self.vt_us / 1e6

    # -- driving primitives (to be awaited from the harness coroutine) -------------------------
    def _due(self):
        while self._scheduled and self._scheduled[0]._cancelled:
            h = heapq.heappop(self._scheduled)
            h._scheduled = False
            self._timer_cancelled_count = max(0, self._timer_cancelled_count - 1)
        return bool(self._scheduled) and round(self._scheduled[0]._when * 1e6) <= self.vt_us

    async def settle(self, limit=200000):
        """yield until nothing but the harness is runnable at the current virtual time"""
        n = 0
        while True:
            await asyncio.sleep(0)
            n += 1
            if not self._ready and not self._due():
                return n
            if n > limit:
                raise RuntimeError('settle: loop did not become idle (busy loop in the code under test?)')

    def next_timer_us(self):
        self._due()
        if self._scheduled:
            return round(self._scheduled[0]._when * 1e6)
        return None

    async def advance(self, dt_ms, on_tick=None):
        """advance the virtual clock by dt_ms, firing every timer at its own instant"""
        target = self.vt_us + round(dt_ms * 1000)
        await self.settle()
        while True:
            nxt = self.next_timer_us()
            if nxt is None or nxt > target:
                break
            self.vt_us = max(self.vt_us, nxt)
            await self.settle()
            if on_tick:
                on_tick(self.vt_us)
        self.vt_us = target
        await self.settle()

    def now_ms(self):
        return self.vt_us / 1000.0


class _VirtualDatetime(_dt.datetime):
    @classmethod
    def now(cls, tz=None):
        loop = asyncio.get_event_loop()
        us = loop.vt_us if isinstance(loop, DetLoop) else 0
        return BASE + _dt.timedelta(microseconds=us)


def patch_clock():
    """Make the library read the virtual clock: rsocket.rsocket_client.datetime and rsocket.lease.datetime are
    module attributes; replaced from outside (no change to /repo)."""
    import rsocket.rsocket_client as rc
    import rsocket.lease as ls
    rc.datetime = _VirtualDatetime
    ls.datetime = _VirtualDatetime


def run(coro_fn, *args, **kw):
    """Run an async scenario function under a fresh deterministic loop; returns its result."""
    loop = DetLoop()
    asyncio.set_event_loop(loop)
    patch_clock()
    try:
        return loop.run_until_complete(coro_fn(loop, *args, **kw))
    finally:
        try:
            pending = [t for t in asyncio.all_tasks(loop) if not t.done()]
            for t in pending:
                t.cancel()
            if pending:
                loop.run_until_complete(asyncio.gather(*pending, return_exceptions=True))
        except Exception:
            pass
        loop.close()
        asyncio.set_event_loop(None)
