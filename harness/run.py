import importlib
import sys


def main():
    if len(sys.argv) < 2:
        print('usage: ./check <property-id> [--tier quick|thorough] [--replay path]')
        sys.exit(2)
    pid = sys.argv[1].upper()
    mod = importlib.import_module('harness.props.' + pid.lower())
    from harness import core
    core.main(mod.PROP)


if __name__ == '__main__':
    main()
