"""Seeded-change tooling (not part of any registered check).

  python -m harness.seedtool confirm <name> <src_dir> [--suite]
      copy <src_dir>/{patch.diff,demo.py,meta.json} to /verif/seeded/<name>/, then in a scratch worktree of /repo
      (outside /repo and /verif, removed afterwards): the demo must PASS on the unchanged tree and FAIL with the patch;
      with --suite the repository's test suite is run with the patch applied and compared with the stable set of
      /root/.vp/BASELINE.json (non-passes are re-run in isolation).  Results go to meta.json["confirmed"].

  python -m harness.seedtool run <name> <ID> [<ID> ...]
      apply seeded/<name>/patch.diff to /repo, run ./check <ID> for each id, undo with `git checkout -- .`;
      results go to meta.json["checks"].
"""
import json
import os
import shutil
import subprocess
import sys
import time
import xml.etree.ElementTree as ET

VERIF = os.path.dirname(os.path.dirname(os.path.abspath(__file__)))
REPO = '/repo'
PY = '/venv/bin/python'


def sh(cmd, cwd=None, timeout=3000, env=None):
    e = dict(os.environ)
    if env:
        e.update(env)
    try:
        p = subprocess.run(cmd, shell=True, cwd=cwd, capture_output=True, text=True, timeout=timeout, env=e)
        return p.returncode, p.stdout + p.stderr
    except subprocess.TimeoutExpired as ex:
        return 124, 'TIMEOUT ' + str(ex)


def load_meta(d):
    p = os.path.join(d, 'meta.json')
    try:
        return json.load(open(p))
    except Exception:
        return {}


def save_meta(d, m):
    json.dump(m, open(os.path.join(d, 'meta.json'), 'w'), indent=1, sort_keys=True)


def junit_results(path):
    res = {}
    for tc in ET.parse(path).getroot().iter('testcase'):
        cn = tc.get('classname') or ''
        name = cn + '::' + tc.get('name')
        bad = [c.tag for c in tc if c.tag in ('failure', 'error', 'skipped')]
        st = 'pass' if not bad else bad[0]
        # a test can appear twice (call + teardown error)
        if res.get(name) in (None, 'pass'):
            res[name] = st
    return res


def confirm(name, src, suite):
    dst = os.path.join(VERIF, 'seeded', name)
    os.makedirs(dst, exist_ok=True)
    for f in ('patch.diff', 'demo.py', 'meta.json'):
        if os.path.abspath(src) != dst:
            shutil.copy(os.path.join(src, f), os.path.join(dst, f))
    meta = load_meta(dst)
    wt = '/tmp/sv_' + name
    sh('git -C %s worktree remove --force %s' % (REPO, wt))
    shutil.rmtree(wt, ignore_errors=True)
    rc, out = sh('git -C %s worktree add --detach %s HEAD' % (REPO, wt))
    assert rc == 0, out
    conf = {'repo_commit': sh('git -C %s rev-parse --short HEAD' % REPO)[1].strip(), 'when': time.strftime('%Y-%m-%d %H:%M')}
    try:
        os.makedirs(os.path.join(wt, '_seeded'), exist_ok=True)
        shutil.copy(os.path.join(dst, 'demo.py'), os.path.join(wt, '_seeded', 'demo.py'))
        env = {'PYTHONPATH': wt}
        rc0, out0 = sh('timeout 300 %s _seeded/demo.py' % PY, cwd=wt, env=env)
        conf['demo_unchanged'] = {'exit': rc0, 'tail': out0.strip().splitlines()[-3:]}
        rc, out = sh('git apply %s' % os.path.join(dst, 'patch.diff'), cwd=wt)
        conf['patch_applies'] = rc == 0
        if rc != 0:
            conf['patch_error'] = out[-500:]
        rc1, out1 = sh('timeout 300 %s _seeded/demo.py' % PY, cwd=wt, env=env)
        conf['demo_patched'] = {'exit': rc1, 'tail': out1.strip().splitlines()[-3:]}
        rcc, outc = sh('%s -m compileall -q rsocket reactivestreams' % PY, cwd=wt)
        conf['compiles'] = rcc == 0
        if suite:
            base = json.load(open('/root/.vp/BASELINE.json'))
            stable = set(base['stable_pass'])
            jx = '/tmp/sv_%s.junit.xml' % name
            t0 = time.time()
            sh('%s -m pytest -q -p no:cacheprovider --timeout=120 --continue-on-collection-errors --junitxml=%s' % (PY, jx), cwd=wt, env=env, timeout=2400)
            res = junit_results(jx)
            missing = sorted(t for t in stable if res.get(t) != 'pass')
            still = []
            for t in missing:
                mod, fn = t.split('::', 1)
                path = mod.replace('.', '/') + '.py'
                ok = False
                for _ in range(3):
                    rc, out = sh('%s -m pytest -q -p no:cacheprovider --timeout=120 "%s::%s"' % (PY, path, fn), cwd=wt, env=env, timeout=600)
                    if rc == 0:
                        ok = True
                        break
                if not ok:
                    still.append(t)
            conf['suite'] = {'stable_total': len(stable), 'passed_in_full_run': len(stable) - len(missing), 'rerun_in_isolation': len(missing),
                             'still_failing': still, 'seconds': round(time.time() - t0)}
            os.remove(jx)
        conf['ok'] = (rc0 == 0 and rc1 != 0 and conf['patch_applies'] and conf['compiles'] and (not suite or not conf['suite']['still_failing']))
    finally:
        sh('git -C %s worktree remove --force %s' % (REPO, wt))
        shutil.rmtree(wt, ignore_errors=True)
    if not suite and 'suite' in meta.get('confirmed', {}):
        conf['suite'] = meta['confirmed']['suite']
    meta['confirmed'] = conf
    save_meta(dst, meta)
    print(json.dumps(conf, indent=1))
    return 0 if conf['ok'] else 1


def run(name, ids, tier='quick'):
    dst = os.path.join(VERIF, 'seeded', name)
    meta = load_meta(dst)
    rc, out = sh('git -C %s status --porcelain --untracked-files=no' % REPO)
    assert out.strip() == '', '/repo not clean: ' + out
    rc, out = sh('git -C %s apply %s' % (REPO, os.path.join(dst, 'patch.diff')))
    assert rc == 0, out
    results = meta.setdefault('checks', {})
    try:
        for i in ids:
            t0 = time.time()
            evp = os.path.join(VERIF, 'evidence', '%s.json' % i)
            saved = open(evp).read() if os.path.exists(evp) else None
            rc, out = sh('./check %s --tier %s' % (i, tier), cwd=VERIF, timeout=900)
            if saved is not None:
                open(evp, 'w').write(saved)     # evidence files describe runs against the unchanged tree only
            lines = [l for l in out.splitlines() if l.startswith('VIOLATION') or l.startswith('KNOWN-FINDING')]
            replay = None
            what = None
            for l in lines:
                if l.startswith('VIOLATION') and 'replay=' in l:
                    replay = l.split('replay=')[1].split()[0]
            if replay and os.path.exists(os.path.join(VERIF, replay)) or (replay and os.path.exists(replay)):
                rp = replay if os.path.isabs(replay) else os.path.join(VERIF, replay)
                try:
                    r = json.load(open(rp))
                    what = r.get('what') or r.get('summary') or (r.get('failures') or [{}])[0].get('what')
                except Exception:
                    pass
            results[i + ':' + tier] = {'exit': rc, 'detected': rc == 1 and any(l.startswith('VIOLATION') for l in lines),
                                       'lines': ([l for l in lines if l.startswith('VIOLATION')] + [l[:160] for l in lines if not l.startswith('VIOLATION')])[:4], 'what': what, 'seconds': round(time.time() - t0, 1),
                                       'tail': out.strip().splitlines()[-1:] if rc not in (0, 1) else []}
            print(i, tier, 'exit', rc, lines[:2], what)
    finally:
        sh('git -C %s checkout -- .' % REPO)
        rc, out = sh('git -C %s status --porcelain --untracked-files=no' % REPO)
        assert out.strip() == '', out
        # the checks regenerated lean/RSocketModel/Gen from the patched tree: regenerate it from the unchanged one
        sh('%s harness/translate.py' % PY, cwd=VERIF, env={'VERIF_REPO': REPO})
    save_meta(dst, meta)
    return 0


def suite(wt):
    """run the repository's suite in `wt` and compare with the stable set"""
    base = json.load(open('/root/.vp/BASELINE.json'))
    stable = set(base['stable_pass'])
    jx = '/tmp/suite_%d.junit.xml' % os.getpid()
    env = {'PYTHONPATH': wt}
    t0 = time.time()
    sh('%s -m pytest -q -p no:cacheprovider --timeout=120 --continue-on-collection-errors --junitxml=%s' % (PY, jx), cwd=wt, env=env, timeout=2400)
    res = junit_results(jx)
    os.remove(jx)
    missing = sorted(t for t in stable if res.get(t) != 'pass')
    still = []
    for t in missing:
        mod, fn = t.split('::', 1)
        path = mod.replace('.', '/') + '.py'
        ok = False
        for _ in range(3):
            rc, out = sh('%s -m pytest -q -p no:cacheprovider --timeout=120 "%s::%s"' % (PY, path, fn), cwd=wt, env=env, timeout=600)
            if rc == 0:
                ok = True
                break
        if not ok:
            still.append(t)
    r = {'stable_total': len(stable), 'passed_in_full_run': len(stable) - len(missing), 'rerun_in_isolation': len(missing),
         'still_failing': still, 'seconds': round(time.time() - t0)}
    print(json.dumps(r, indent=1))
    return 0 if not still else 1


def retest(name):
    """re-run, in a scratch worktree with the patch, only the tests recorded as still failing (fixture flakes under load)"""
    dst = os.path.join(VERIF, 'seeded', name)
    meta = load_meta(dst)
    still = meta.get('confirmed', {}).get('suite', {}).get('still_failing', [])
    if not still:
        print('nothing to retest')
        return 0
    wt = '/tmp/rt_' + name
    sh('git -C %s worktree remove --force %s' % (REPO, wt))
    shutil.rmtree(wt, ignore_errors=True)
    rc, out = sh('git -C %s worktree add --detach %s HEAD' % (REPO, wt))
    assert rc == 0, out
    left = []
    try:
        rc, out = sh('git apply %s' % os.path.join(dst, 'patch.diff'), cwd=wt)
        assert rc == 0, out
        for t in still:
            mod, fn = t.split('::', 1)
            path = mod.replace('.', '/') + '.py'
            ok = False
            for _ in range(4):
                rc, out = sh('%s -m pytest -q -p no:cacheprovider --timeout=120 "%s::%s"' % (PY, path, fn), cwd=wt, env={'PYTHONPATH': wt}, timeout=600)
                if rc == 0:
                    ok = True
                    break
            if not ok:
                left.append(t)
    finally:
        sh('git -C %s worktree remove --force %s' % (REPO, wt))
        shutil.rmtree(wt, ignore_errors=True)
    meta['confirmed']['suite']['still_failing'] = left
    meta['confirmed']['suite']['retested_later'] = still
    meta['confirmed']['ok'] = bool(meta['confirmed'].get('patch_applies') and meta['confirmed'].get('compiles') and meta['confirmed']['demo_unchanged']['exit'] == 0
                                   and meta['confirmed']['demo_patched']['exit'] != 0 and not left)
    save_meta(dst, meta)
    print(name, 'still failing after retest:', left)
    return 0 if not left else 1


if __name__ == '__main__':
    cmd = sys.argv[1]
    if cmd == 'retest':
        sys.exit(retest(sys.argv[2]))
    if cmd == 'suite':
        sys.exit(suite(sys.argv[2]))
    if cmd == 'confirm':
        sys.exit(confirm(sys.argv[2], sys.argv[3], '--suite' in sys.argv))
    if cmd == 'matrix':
        # re-run, for every seeded change, the checks recorded for it (at least its target property's) with the current harness
        import glob
        only = None
        if '--only' in sys.argv:
            only = set(sys.argv[sys.argv.index('--only') + 1].split(','))
        for d in sorted(glob.glob(os.path.join(VERIF, 'seeded', '*'))):
            name = os.path.basename(d)
            if only is not None and name not in only:
                continue
            m = load_meta(d)
            ids = sorted({k.split(':')[0] for k in m.get('checks', {})} | {m.get('property', name[:3])})
            m['checks'] = {}
            save_meta(d, m)
            print('==', name, ids)
            run(name, ids)
        sys.exit(0)
    if cmd == 'run':
        tier = 'quick'
        args = sys.argv[3:]
        if '--thorough' in args:
            tier = 'thorough'
            args.remove('--thorough')
        sys.exit(run(sys.argv[2], args, tier))
