"""python -m harness.seedreport -> markdown table of the seeded changes and which checks caught them (from seeded/*/meta.json)"""
import glob
import json
import os

VERIF = os.path.dirname(os.path.dirname(os.path.abspath(__file__)))
rows = []
for d in sorted(glob.glob(os.path.join(VERIF, 'seeded', '*'))):
    try:
        m = json.load(open(os.path.join(d, 'meta.json')))
    except Exception:
        continue
    name = os.path.basename(d)
    files = sorted({l[6:].strip() for l in open(os.path.join(d, 'patch.diff')) if l.startswith('+++ b/')})
    conf = m.get('confirmed', {})
    suite = conf.get('suite')
    st = 'demo PASS→FAIL' if conf.get('demo_unchanged', {}).get('exit') == 0 and conf.get('demo_patched', {}).get('exit') not in (0, None) else 'demo ?'
    if conf.get('note'):
        st += ' (recorded against %s; neutralised by a later fix: see meta.json)' % conf.get('repo_commit')
    if suite:
        st += '; suite %d/%d stable (+%d in isolation)' % (suite['passed_in_full_run'], suite['stable_total'], suite['rerun_in_isolation'] - len(suite['still_failing']))
        if suite['still_failing']:
            st += ' STILL FAILING: %s' % suite['still_failing']
    caught, conc, missed = [], [], []
    for k, c in sorted(m.get('checks', {}).items()):
        pid = k.split(':')[0]
        if c.get('detected'):
            v = [l for l in c.get('lines', []) if l.startswith('VIOLATION')]
            if any('no-failing-input-found' in l for l in v):
                caught.append(pid + ' (tie only)')
            else:
                conc.append(pid)
        else:
            missed.append(pid)
    summ = (m.get('summary') or '').replace('\n', ' ').replace('|', '/')
    rows.append('| %s | %s | %s | %s | %s | %s |' % (name, m.get('property', name), ', '.join(files), summ[:230] + ('…' if len(summ) > 230 else ''), st,
                                                   '**' + ', '.join(conc) + '**' + ((' ; ' + ', '.join(caught)) if caught else '') + ((' ; not by ' + ', '.join(missed)) if missed else '')))
print('| seeded change | targets | file(s) | what it does | confirmed | caught by (bold: with a concrete failing input) |')
print('|---|---|---|---|---|---|')
print('\n'.join(rows))

if __name__ == '__main__':
    import sys
    if '--update' in sys.argv:
        # replace the table between the markers in DESIGN.md
        p = os.path.join(VERIF, 'DESIGN.md')
        t = open(p).read()
        a, b = '<!-- seedreport:begin -->\n', '<!-- seedreport:end -->'
        i, j = t.index(a) + len(a), t.index(b)
        table = '| seeded change | targets | file(s) | what it does | confirmed | caught by (bold: with a concrete failing input) |\n|---|---|---|---|---|---|\n' + '\n'.join(rows) + '\n'
        open(p, 'w').write(t[:i] + table + t[j:])
