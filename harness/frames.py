"""Frame generation and canonical dumps shared by the codec / parser / pipeline checks."""
from rsocket import frame as F
from rsocket.error_codes import ErrorCode

TYPE_NAMES = {
    F.SetupFrame: 'SETUP', F.LeaseFrame: 'LEASE', F.KeepAliveFrame: 'KEEPALIVE', F.RequestResponseFrame: 'REQUEST_RESPONSE',
    F.RequestFireAndForgetFrame: 'REQUEST_FNF', F.RequestStreamFrame: 'REQUEST_STREAM', F.RequestChannelFrame: 'REQUEST_CHANNEL',
    F.RequestNFrame: 'REQUEST_N', F.CancelFrame: 'CANCEL', F.PayloadFrame: 'PAYLOAD', F.ErrorFrame: 'ERROR',
    F.MetadataPushFrame: 'METADATA_PUSH', F.ResumeFrame: 'RESUME', F.ResumeOKFrame: 'RESUME_OK',
}


def hx(b):
    if b is None:
        return '-'
    b = bytes(b)
    return b.hex() if b else '-'


def b01(x):
    return '1' if x else '0'


def dump(fr):
    """Canonical one-line dump of a decoded frame: the wire-carried fields only (a frame object whose fields were never
    filled in — a half-parsed frame — dumps as HALF-PARSED <type>)."""
    try:
        return _dump(fr)
    except (AttributeError, TypeError, ValueError):
        return 'HALF-PARSED %s' % type(fr).__name__


def _dump(fr):
    if fr is None:
        return 'IGNORED'
    if isinstance(fr, F.InvalidFrame):
        return 'INVALID'
    t = TYPE_NAMES[type(fr)]
    parts = [t, 'sid=%d' % fr.stream_id, 'I=%s' % b01(fr.flags_ignore)]
    if t == 'SETUP':
        parts += ['L=%s' % b01(fr.flags_lease), 'R=%s' % b01(fr.flags_resume), 'ver=%d.%d' % (fr.major_version, fr.minor_version),
                  'ka=%d' % fr.keep_alive_milliseconds, 'life=%d' % fr.max_lifetime_milliseconds]
        if fr.flags_resume:
            parts += ['tok=%s' % hx(fr.resume_identification_token)]
        parts += ['mdenc=%s' % hx(fr.metadata_encoding), 'denc=%s' % hx(fr.data_encoding), 'md=%s' % hx(fr.metadata), 'd=%s' % hx(fr.data)]
    elif t == 'LEASE':
        parts += ['ttl=%d' % fr.time_to_live, 'n=%d' % fr.number_of_requests, 'md=%s' % hx(fr.metadata)]
    elif t == 'KEEPALIVE':
        parts += ['R=%s' % b01(fr.flags_respond), 'pos=%d' % fr.last_received_position, 'd=%s' % hx(fr.data)]
    elif t in ('REQUEST_RESPONSE', 'REQUEST_FNF'):
        parts += ['F=%s' % b01(fr.flags_follows), 'md=%s' % hx(fr.metadata), 'd=%s' % hx(fr.data)]
    elif t == 'REQUEST_STREAM':
        parts += ['F=%s' % b01(fr.flags_follows), 'n=%d' % fr.initial_request_n, 'md=%s' % hx(fr.metadata), 'd=%s' % hx(fr.data)]
    elif t == 'REQUEST_CHANNEL':
        parts += ['F=%s' % b01(fr.flags_follows), 'C=%s' % b01(fr.flags_complete), 'n=%d' % fr.initial_request_n,
                  'md=%s' % hx(fr.metadata), 'd=%s' % hx(fr.data)]
    elif t == 'REQUEST_N':
        parts += ['n=%d' % fr.request_n]
    elif t == 'CANCEL':
        pass
    elif t == 'PAYLOAD':
        parts += ['F=%s' % b01(fr.flags_follows), 'C=%s' % b01(fr.flags_complete), 'N=%s' % b01(fr.flags_next),
                  'md=%s' % hx(fr.metadata), 'd=%s' % hx(fr.data)]
    elif t == 'ERROR':
        parts += ['code=%d' % int(fr.error_code), 'd=%s' % hx(fr.data)]
    elif t == 'METADATA_PUSH':
        parts += ['md=%s' % hx(fr.metadata)]
    elif t == 'RESUME':
        parts += ['ver=%d.%d' % (fr.major_version, fr.minor_version), 'tok=%s' % hx(fr.resume_identification_token),
                  'spos=%d' % fr.last_server_position, 'cpos=%d' % fr.first_client_position]
    elif t == 'RESUME_OK':
        parts += ['pos=%d' % fr.last_received_client_position]
    return ' '.join(parts)


def rbytes(rng, lo=0, hi=40):
    n = rng.choice([0, 0, 1, 2, 3, 7, rng.randint(lo, hi)])
    n = max(lo, min(hi, n))
    return bytes(rng.getrandbits(8) for _ in range(n))


def rint(rng, bits):
    top = (1 << bits) - 1
    return rng.choice([0, 1, 2, top, top - 1, 1 << (bits - 1), rng.randint(0, top), rng.randint(0, 300)])


def gen_spec(rng, kinds=None, big=False):
    """A frame *specification* (json-able dict); `build(spec)` makes the repo's Frame object from it.
    Field ranges are the wire format's; flags over all combinations."""
    t = rng.choice(kinds or list(TYPE_NAMES.values()))
    hi = 400 if big else 40
    s = {'t': t, 'sid': rint(rng, 31), 'I': rng.random() < 0.15}
    if t in ('SETUP', 'LEASE', 'KEEPALIVE', 'METADATA_PUSH', 'RESUME', 'RESUME_OK') and rng.random() < 0.8:
        s['sid'] = 0
    if t == 'SETUP':
        s.update(L=rng.random() < 0.5, R=rng.random() < 0.3, major=rint(rng, 16), minor=rint(rng, 16), ka=rint(rng, 32), life=rint(rng, 32),
                 tok=rbytes(rng, 0, 60).hex(), mdenc=rbytes(rng, 0, 127).hex(), denc=rbytes(rng, 0, 127).hex(),
                 md=rbytes(rng, 0, hi).hex(), d=rbytes(rng, 0, hi).hex())
        if rng.random() < 0.5:
            s['major'], s['minor'] = 1, 0
    elif t == 'LEASE':
        s.update(ttl=rint(rng, 31), n=rint(rng, 31), md=rbytes(rng, 0, hi).hex())
    elif t == 'KEEPALIVE':
        s.update(R=rng.random() < 0.5, pos=rint(rng, 63), d=rbytes(rng, 0, hi).hex())
    elif t in ('REQUEST_RESPONSE', 'REQUEST_FNF'):
        s.update(F=rng.random() < 0.3, md=rbytes(rng, 0, hi).hex(), d=rbytes(rng, 0, hi).hex())
    elif t == 'REQUEST_STREAM':
        s.update(F=rng.random() < 0.3, n=rint(rng, 32), md=rbytes(rng, 0, hi).hex(), d=rbytes(rng, 0, hi).hex())
    elif t == 'REQUEST_CHANNEL':
        s.update(F=rng.random() < 0.3, C=rng.random() < 0.5, n=rint(rng, 32), md=rbytes(rng, 0, hi).hex(), d=rbytes(rng, 0, hi).hex())
    elif t == 'REQUEST_N':
        s.update(n=rint(rng, 32))
    elif t == 'PAYLOAD':
        s.update(F=rng.random() < 0.3, C=rng.random() < 0.5, N=rng.random() < 0.5, md=rbytes(rng, 0, hi).hex(), d=rbytes(rng, 0, hi).hex())
    elif t == 'ERROR':
        s.update(code=int(rng.choice(list(ErrorCode))), d=rbytes(rng, 0, hi).hex())
    elif t == 'METADATA_PUSH':
        s.update(md=rbytes(rng, 0, hi).hex())
    elif t == 'RESUME':
        s.update(major=rint(rng, 16), minor=rint(rng, 16), tok=rbytes(rng, 0, 60).hex(), spos=rint(rng, 63), cpos=rint(rng, 63))
    elif t == 'RESUME_OK':
        s.update(pos=rint(rng, 63))
    return s


def build(s):
    t = s['t']
    cls = {v: k for k, v in TYPE_NAMES.items()}[t]
    fr = cls()
    fr.stream_id = s['sid']
    fr.flags_ignore = s.get('I', False)
    g = lambda k: bytes.fromhex(s.get(k, ''))
    if t == 'SETUP':
        fr.flags_lease, fr.flags_resume = s['L'], s['R']
        fr.major_version, fr.minor_version = s['major'], s['minor']
        fr.keep_alive_milliseconds, fr.max_lifetime_milliseconds = s['ka'], s['life']
        if s['R']:
            fr.resume_identification_token = g('tok')
            fr.token_length = len(g('tok'))
        fr.metadata_encoding, fr.data_encoding = g('mdenc'), g('denc')
        fr.metadata, fr.data = g('md'), g('d')
    elif t == 'LEASE':
        fr.time_to_live, fr.number_of_requests, fr.metadata = s['ttl'], s['n'], g('md')
    elif t == 'KEEPALIVE':
        fr.flags_respond, fr.last_received_position, fr.data = s['R'], s['pos'], g('d')
    elif t in ('REQUEST_RESPONSE', 'REQUEST_FNF'):
        fr.flags_follows, fr.metadata, fr.data = s['F'], g('md'), g('d')
    elif t == 'REQUEST_STREAM':
        fr.flags_follows, fr.initial_request_n, fr.metadata, fr.data = s['F'], s['n'], g('md'), g('d')
    elif t == 'REQUEST_CHANNEL':
        fr.flags_follows, fr.flags_complete, fr.initial_request_n, fr.metadata, fr.data = s['F'], s['C'], s['n'], g('md'), g('d')
    elif t == 'REQUEST_N':
        fr.request_n = s['n']
    elif t == 'PAYLOAD':
        fr.flags_follows, fr.flags_complete, fr.flags_next, fr.metadata, fr.data = s['F'], s['C'], s['N'], g('md'), g('d')
    elif t == 'ERROR':
        fr.error_code, fr.data = ErrorCode(s['code']), g('d')
    elif t == 'METADATA_PUSH':
        fr.metadata = g('md')
    elif t == 'RESUME':
        fr.major_version, fr.minor_version = s['major'], s['minor']
        fr.resume_identification_token = g('tok')
        fr.token_length = len(g('tok'))
        fr.last_server_position, fr.first_client_position = s['spos'], s['cpos']
    elif t == 'RESUME_OK':
        fr.last_received_client_position = s['pos']
    return fr


def spec_line(s):
    """The spec in the same textual form as `dump`, for the Lean driver's `enc` command (pre-canonical fields)."""
    t = s['t']
    h = lambda k: s.get(k) or '-'
    parts = [t, 'sid=%d' % s['sid'], 'I=%s' % b01(s.get('I'))]
    if t == 'SETUP':
        parts += ['L=%s' % b01(s['L']), 'R=%s' % b01(s['R']), 'ver=%d.%d' % (s['major'], s['minor']), 'ka=%d' % s['ka'], 'life=%d' % s['life'],
                  'tok=%s' % h('tok'), 'mdenc=%s' % h('mdenc'), 'denc=%s' % h('denc'), 'md=%s' % h('md'), 'd=%s' % h('d')]
    elif t == 'LEASE':
        parts += ['ttl=%d' % s['ttl'], 'n=%d' % s['n'], 'md=%s' % h('md')]
    elif t == 'KEEPALIVE':
        parts += ['R=%s' % b01(s['R']), 'pos=%d' % s['pos'], 'd=%s' % h('d')]
    elif t in ('REQUEST_RESPONSE', 'REQUEST_FNF'):
        parts += ['F=%s' % b01(s['F']), 'md=%s' % h('md'), 'd=%s' % h('d')]
    elif t == 'REQUEST_STREAM':
        parts += ['F=%s' % b01(s['F']), 'n=%d' % s['n'], 'md=%s' % h('md'), 'd=%s' % h('d')]
    elif t == 'REQUEST_CHANNEL':
        parts += ['F=%s' % b01(s['F']), 'C=%s' % b01(s['C']), 'n=%d' % s['n'], 'md=%s' % h('md'), 'd=%s' % h('d')]
    elif t == 'REQUEST_N':
        parts += ['n=%d' % s['n']]
    elif t == 'PAYLOAD':
        parts += ['F=%s' % b01(s['F']), 'C=%s' % b01(s['C']), 'N=%s' % b01(s['N']), 'md=%s' % h('md'), 'd=%s' % h('d')]
    elif t == 'ERROR':
        parts += ['code=%d' % s['code'], 'd=%s' % h('d')]
    elif t == 'METADATA_PUSH':
        parts += ['md=%s' % h('md')]
    elif t == 'RESUME':
        parts += ['ver=%d.%d' % (s['major'], s['minor']), 'tok=%s' % h('tok'), 'spos=%d' % s['spos'], 'cpos=%d' % s['cpos']]
    elif t == 'RESUME_OK':
        parts += ['pos=%d' % s['pos']]
    return ' '.join(parts)
