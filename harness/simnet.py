"""Simulated transports: the harness plays the network (and, for single-endpoint scenarios, the peer)."""
import asyncio

from rsocket.exceptions import RSocketTransportError
from rsocket.transports.abstract_messaging import AbstractMessagingTransport

from harness import frames as FR

EOF_MARK = object()


class ScriptedTransport(AbstractMessagingTransport):
    """Message transport whose incoming side is fed by the harness and whose outgoing side records every
    frame handed to send_frame (with the virtual time) and can be gated: each send then blocks until released.

    Incoming items: a Frame object (delivered as is), bytes (passed through the real FrameParser in message
    mode, as every message transport of the library does), an Exception (raised to the receiver), EOF_MARK
    (receiver sees an orderly end of stream).
    """

    def __init__(self, loop, gated=False, length_header=False, connect_ticks=0, name='t'):
        super().__init__()
        self.loop = loop
        self.sent = []            # (time_ms, dump, frame)
        self.gated = gated
        self._gates = []          # futures of sends in flight (at most one: the sender is sequential)
        self.length_header = length_header
        self.connect_ticks = connect_ticks
        self.connected = False
        self.closed = 0
        self.fail_sends = False
        self.failed_attempts = 0   # send_frame calls made while the write side is broken
        self._raw = asyncio.Queue()      # harness items not yet turned into frames
        self._parsed = []
        self.name = name
        self.on_sent = None
        self.on_pull = None
        self.log = None

    # -- outgoing ------------------------------------------------------------------------------
    async def send_frame(self, frame):
        if self.fail_sends:
            self.failed_attempts += 1
            raise RSocketTransportError()
        # serialise exactly like the real message transports do; a frame that cannot be serialised is a library bug
        wire = frame.serialize()
        entry = (self.loop.now_ms(), FR.dump(frame), frame, wire)
        self.sent.append(entry)
        if self.log is not None:
            self.log.append(('send', self.name, entry[1]))
        if self.on_sent:
            self.on_sent(entry)
        if self.gated:
            fut = self.loop.create_future()
            self._gates.append(fut)
            try:
                await fut
            finally:
                if fut in self._gates:
                    self._gates.remove(fut)

    def blocked(self):
        return bool(self._gates)

    def release(self):
        if self._gates:
            g = self._gates.pop(0)
            if not g.done():
                g.set_result(None)
            return True
        return False

    def requires_length_header(self):
        return self.length_header

    # -- incoming ------------------------------------------------------------------------------
    def deliver(self, item):
        self._raw.put_nowait(item)

    async def next_frame_generator(self):
        """Harness items are taken from `_raw`; every frame (or invalid-frame marker, or transport exception) they stand for is then handed
        to the receiver the way every message transport of the library does it: put on `_incoming_frame_queue` and fetched through the
        *inherited* `AbstractMessagingTransport.next_frame_generator`."""
        if not self._parsed:
            item = await self._raw.get()
            if item is EOF_MARK:
                if self.on_pull:
                    self.on_pull('LOST', None)
                return None
            if isinstance(item, Exception):
                if self.on_pull:
                    self.on_pull('LOST', None)
                self._incoming_frame_queue.put_nowait(item)
                return await super().next_frame_generator()
            tag = None
            if isinstance(item, tuple):
                tag, item = item
            if isinstance(item, (bytes, bytearray)):
                frames = [fr async for fr in self._frame_parser.receive_data(bytes(item), 0)]
                if not frames:
                    if self.on_pull:
                        self.on_pull(tag, None)      # the message produced no frame at all (ignored)

                    async def nothing():
                        return
                        yield
                    return nothing()
                self._parsed.extend((tag, fr) for fr in frames)
            else:
                self._parsed.append((tag, item))
        tag, fr = self._parsed.pop(0)
        if self.on_pull:
            self.on_pull(tag, fr)
        self._incoming_frame_queue.put_nowait(fr)
        return await super().next_frame_generator()

    async def connect(self):
        for _ in range(self.connect_ticks):
            await asyncio.sleep(0)
        self.connected = True

    async def close(self):
        self.closed += 1
        if getattr(self, 'close_error', None) is not None:
            raise self.close_error        # e.g. TransportTCP.close(): writer.wait_closed() re-raises the error the connection was lost with


def dumps(transport, since=0):
    return [e[1] for e in transport.sent[since:]]
