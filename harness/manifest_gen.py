"""Writes MANIFEST.json from the registry below (kept in one place so it is always valid)."""
import json
import os

VERIF = os.path.dirname(os.path.dirname(os.path.abspath(__file__)))

ALL = ['C%02d' % i for i in range(1, 21)]

CLAIMED = {}


def discover():
    import importlib
    import sys
    sys.path.insert(0, VERIF)
    for pid in ALL:
        path = os.path.join(VERIF, 'harness', 'props', pid.lower() + '.py')
        if os.path.exists(path):
            mod = importlib.import_module('harness.props.' + pid.lower())
            P = mod.PROP
            if not getattr(P, 'claimed', True):
                continue
            CLAIMED[pid] = (P.technique, P.level_text, P.level_note, P.design_ref)


NOT_YET = {}


def main():
    discover()
    checks = []
    for pid in ALL:
        if pid in CLAIMED:
            tech, text, note, ref = CLAIMED[pid]
            checks.append({
                'property_id': pid,
                'quick_cmd': './check %s --tier quick' % pid,
                'thorough_cmd': './check %s --tier thorough' % pid,
                'evidence_file': 'evidence/%s.json' % pid,
                'replay_cmd_template': './check %s --replay {path}' % pid,
                'engine': 'lean4-model+correspondence',
                'level_claimed': {'category': 'proof', 'text': text, 'design_ref': ref},
                'level_note': note,
                'technique': tech,
            })
    na = [{'property_id': pid, 'reason': NOT_YET.get(pid, 'not claimed yet: its Lean model/theorems and correspondence harness are planned in DESIGN.md §5 but not built at this commit (the technique applies; this entry disappears when the check lands)')}
          for pid in ALL if pid not in CLAIMED]
    m = {
        'version': 1,
        'setup_cmd': 'cd lean && lake build',
        'hooks': {
            'guard': 'RSOCKET_PY_VERIF',
            'enable': 'no hooks are needed: the checks observe the library through public classes, the transport boundary and module attributes patched from the harness',
            'baseline_off_cmd': 'cd /repo && /venv/bin/python -m pytest -ra -q -p no:cacheprovider --timeout=900 --continue-on-collection-errors',
            'source_commits': [],
            'add_only': True,
        },
        'engines': [{
            'name': 'lean4-model+correspondence', 'path': 'lean/ + harness/',
            'serves_properties': sorted(CLAIMED),
            'kind_free_text': 'hand-written executable Lean 4 model with kernel-checked property theorems; tables/constants regenerated from /repo on every run; '
                              'differential correspondence between the compiled model driver and the real Python implementation; direct property oracle on the implementation for the failing-input search',
        }],
        'checks': checks,
        'not_applicable': na,
        'notes': 'See DESIGN.md. Exit codes: 0 held, 1 violation (VIOLATION line), 2 infrastructure failure.',
    }
    json.dump(m, open(os.path.join(VERIF, 'MANIFEST.json'), 'w'), indent=1)


if __name__ == '__main__':
    main()
