"""Writes MANIFEST.json from the registry below (kept in one place so it is always valid)."""
import json
import os

VERIF = os.path.dirname(os.path.dirname(os.path.abspath(__file__)))

ALL = ['C%02d' % i for i in range(1, 21)]

# id -> (technique, level text, level note, design ref)
CLAIMED = {}


def claim(pid, technique, text, note, ref):
    CLAIMED[pid] = (technique, text, note, ref)


claim('C13',
      'Lean 4 proof (induction over histories, parametric id width) + differential correspondence',
      'Theorems c13_alloc_sound, c13_fails_iff_full, c13_history (all id widths k>=1, all active sets, all histories) are kernel-checked on a model '
      'of StreamControl; the model is tied to the code by the regenerated constant (2^31-1) and by running the real StreamControl and the compiled '
      'Lean model on the same histories (exhaustive short histories on a 3-bit space, random on 3/4/7 bits, full width near the wrap).',
      'Trusted: Lean kernel, axioms propext/Classical.choice/Quot.sound, the hand-written model as far as the correspondence reaches, harness; '
      'dict semantics of CPython.', '§5 C13')

NOT_YET = {}


def main():
    checks = []
    for pid in ALL:
        if pid in CLAIMED:
            tech, text, note, ref = CLAIMED[pid]
            checks.append({
                'property_id': pid,
                'quick_cmd': './check %s --tier quick' % pid,
                'thorough_cmd': './check %s --tier thorough' % pid,
                'evidence_file': 'evidence/%s.json' % pid,
                'replay_cmd_template': './check %s --replay {path}' % pid,
                'engine': 'lean4-model+correspondence',
                'level_claimed': {'category': 'proof', 'text': text, 'design_ref': ref},
                'level_note': note,
                'technique': tech,
            })
    na = [{'property_id': pid, 'reason': NOT_YET.get(pid, 'not claimed yet: its Lean model/theorems and correspondence harness are planned in DESIGN.md §5 but not built at this commit (the technique applies; this entry disappears when the check lands)')}
          for pid in ALL if pid not in CLAIMED]
    m = {
        'version': 1,
        'setup_cmd': 'cd lean && lake build',
        'hooks': {
            'guard': 'RSOCKET_PY_VERIF',
            'enable': 'no hooks are needed: the checks observe the library through public classes, the transport boundary and module attributes patched from the harness',
            'baseline_off_cmd': 'cd /repo && /venv/bin/python -m pytest -ra -q -p no:cacheprovider --timeout=900 --continue-on-collection-errors',
            'source_commits': [],
            'add_only': True,
        },
        'engines': [{
            'name': 'lean4-model+correspondence', 'path': 'lean/ + harness/',
            'serves_properties': sorted(CLAIMED),
            'kind_free_text': 'hand-written executable Lean 4 model with kernel-checked property theorems; tables/constants regenerated from /repo on every run; '
                              'differential correspondence between the compiled model driver and the real Python implementation; direct property oracle on the implementation for the failing-input search',
        }],
        'checks': checks,
        'not_applicable': na,
        'notes': 'See DESIGN.md. Exit codes: 0 held, 1 violation (VIOLATION line), 2 infrastructure failure.',
    }
    json.dump(m, open(os.path.join(VERIF, 'MANIFEST.json'), 'w'), indent=1)


if __name__ == '__main__':
    main()
