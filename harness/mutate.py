"""Mutation campaign (development tool, not a registered check).

  python -m harness.mutate gen  <out.jsonl> [file ...]     enumerate first-order mutants of the anchored source files
  python -m harness.mutate run  <mutants.jsonl> <results.jsonl> [--jobs 12] [--limit N] [--survivors-of <results1.jsonl>]
  python -m harness.mutate one  '<mutant json>'             run one mutant in this process (used by `run`)
  python -m harness.mutate report <results.jsonl>

Every mutant is applied to a scratch copy of /repo's packages under /tmp/mut (never to /repo), the checks of the
properties anchored in the mutated file are run in-process against that copy (VERIF_REPO), single-threaded, quick
tier, stopping at the first check that reports something not listed in known_findings.json.  A mutant nothing
reports is a *survivor*: either equivalent / outside every property, or a gap to close.
"""
import ast
import json
import os
import random
import re
import shutil
import subprocess
import sys
import time

VERIF = os.path.dirname(os.path.dirname(os.path.abspath(__file__)))
SRC_REPO = '/tmp/mut/pristine'      # snapshot of /repo's HEAD (git archive), so that work going on in /repo's tree cannot leak into a mutant
SCRATCH = '/tmp/mut'

CMP = {ast.Eq: ('==', '!='), ast.NotEq: ('!=', '=='), ast.Lt: ('<', '<='), ast.LtE: ('<=', '<'), ast.Gt: ('>', '>='), ast.GtE: ('>=', '>'),
       ast.Is: ('is', 'is not'), ast.IsNot: ('is not', 'is'), ast.In: ('in', 'not in'), ast.NotIn: ('not in', 'in')}


def anchors():
    files = {}
    for l in open(os.path.join(VERIF, 'properties.jsonl')):
        p = json.loads(l)
        for f in p['anchors']['files']:
            files.setdefault(f, []).append(p['id'])
    return files


def offsets(src):
    out = [0]
    for line in src.splitlines(keepends=True):
        out.append(out[-1] + len(line.encode('utf-8')))
    return out


def gen_file(rel):
    path = os.path.join(SRC_REPO, rel)
    src = open(path, encoding='utf-8').read()
    raw = src.encode('utf-8')
    offs = offsets(src)
    tree = ast.parse(src)
    muts = []

    def pos(line, col):
        return offs[line - 1] + col

    def seg(node):
        return pos(node.lineno, node.col_offset), pos(node.end_lineno, node.end_col_offset)

    def add(a, b, new, kind, line):
        old = raw[a:b].decode('utf-8')
        if old == new:
            return
        muts.append({'file': rel, 'start': a, 'end': b, 'old': old, 'new': new, 'kind': kind, 'line': line})

    skip_stmt = re.compile(r'logger\(\)|log_frame|warnings\.|__slots__')
    parents = {}
    for n in ast.walk(tree):
        for c in ast.iter_child_nodes(n):
            parents[c] = n

    def in_function(n):
        while n in parents:
            n = parents[n]
            if isinstance(n, (ast.FunctionDef, ast.AsyncFunctionDef)):
                return True
        return False

    for n in ast.walk(tree):
        if isinstance(n, ast.Compare):
            left = n.left
            for op, comp in zip(n.ops, n.comparators):
                a = pos(left.end_lineno, left.end_col_offset)
                b = pos(comp.lineno, comp.col_offset)
                between = raw[a:b].decode('utf-8')
                tok, rep = CMP[type(op)]
                m = re.search(r'(?<![=!<>])' + re.escape(tok) + r'(?![=])', between)
                if m and '\n' not in between:
                    new = between[:m.start()] + rep + between[m.end():]
                    add(a, b, new, 'cmp', n.lineno)
                left = comp
        elif isinstance(n, ast.BoolOp):
            for v1, v2 in zip(n.values, n.values[1:]):
                a = pos(v1.end_lineno, v1.end_col_offset)
                b = pos(v2.lineno, v2.col_offset)
                between = raw[a:b].decode('utf-8')
                tok, rep = ('and', 'or') if isinstance(n.op, ast.And) else ('or', 'and')
                m = re.search(r'\b%s\b' % tok, between)
                if m:
                    add(a, b, between[:m.start()] + rep + between[m.end():], 'bool', n.lineno)
        elif isinstance(n, (ast.If, ast.While, ast.IfExp)):
            a, b = seg(n.test)
            add(a, b, 'not (' + raw[a:b].decode('utf-8') + ')', 'neg', n.lineno)
        elif isinstance(n, ast.Constant) and in_function(n) or (isinstance(n, ast.Constant) and isinstance(parents.get(n), ast.Assign) and isinstance(n.value, int)):
            par = parents.get(n)
            if isinstance(par, ast.Expr):
                continue      # docstring
            a, b = seg(n)
            if isinstance(n.value, bool):
                add(a, b, 'False' if n.value else 'True', 'const', n.lineno)
            elif isinstance(n.value, int):
                add(a, b, '(%s + 1)' % raw[a:b].decode(), 'const', n.lineno)
                if n.value > 0:
                    add(a, b, '(%s - 1)' % raw[a:b].decode(), 'const', n.lineno)
        elif isinstance(n, ast.BinOp) and isinstance(n.op, (ast.Add, ast.Sub)) and in_function(n):
            a = pos(n.left.end_lineno, n.left.end_col_offset)
            b = pos(n.right.lineno, n.right.col_offset)
            between = raw[a:b].decode('utf-8')
            tok, rep = ('+', '-') if isinstance(n.op, ast.Add) else ('-', '+')
            if between.count(tok) == 1:
                add(a, b, between.replace(tok, rep), 'arith', n.lineno)
        elif isinstance(n, (ast.Expr, ast.Assign, ast.AugAssign)) and in_function(n):
            if isinstance(n, ast.Expr) and isinstance(n.value, ast.Constant):
                continue
            a, b = seg(n)
            text = raw[a:b].decode('utf-8')
            if skip_stmt.search(text):
                continue
            if isinstance(n, ast.Expr) and isinstance(n.value, (ast.Await,)):
                add(a, b, 'await __import__("asyncio").sleep(0)', 'del', n.lineno)
            elif isinstance(n, ast.Expr) and isinstance(n.value, (ast.Yield, ast.YieldFrom)):
                continue
            else:
                add(a, b, 'pass', 'del', n.lineno)
        elif isinstance(n, ast.Return) and n.value is not None and in_function(n) and not isinstance(n.value, ast.Constant):
            a, b = seg(n.value)
            add(a, b, 'None', 'ret', n.lineno)
    # keep only mutants that compile
    good = []
    for m in muts:
        new_raw = raw[:m['start']] + m['new'].encode('utf-8') + raw[m['end']:]
        try:
            compile(new_raw, rel, 'exec')
        except SyntaxError:
            continue
        good.append(m)
    return good


def gen_ref():
    """the tables regenerated from the pristine snapshot (not the ones lying in /verif/lean, which the last check run rewrote from whatever
    tree /repo held at that moment)"""
    d = os.path.join(SCRATCH, 'gen_ref')
    if not os.path.exists(d):
        os.makedirs(d)
        sys.path.insert(0, VERIF)
        from harness import translate
        translate.regenerate(SRC_REPO, d)
    return d


def snapshot():
    if not os.path.exists(SRC_REPO):
        os.makedirs(SRC_REPO)
        subprocess.run('git -C /repo archive HEAD rsocket reactivestreams | tar -x -C %s' % SRC_REPO, shell=True, check=True)


def cmd_gen(out, files):
    snapshot()
    anc = anchors()
    files = files or sorted(anc)
    n = 0
    with open(out, 'w') as f:
        for rel in files:
            if not os.path.exists(os.path.join(SRC_REPO, rel)):
                continue
            for m in gen_file(rel):
                m['props'] = anc.get(rel, [])
                m['id'] = n
                n += 1
                f.write(json.dumps(m) + '\n')
    print(n, 'mutants')


# fast and discriminating checks first
ORDER = ['C13', 'C18', 'C14', 'C16', 'C17', 'C15', 'C06', 'C20', 'C04', 'C05', 'C02', 'C12', 'C11', 'C10', 'C09', 'C07', 'C08', 'C01', 'C19', 'C03']


def cmd_one(m):
    """runs in a process whose VERIF_REPO points at the worker's scratch copy, with the mutant applied"""
    import importlib
    import logging
    logging.disable(logging.CRITICAL)
    sys.path.insert(0, VERIF)
    from harness import core, translate
    repo = os.environ['VERIF_REPO']
    # the translator: a change of a regenerated table is a broken tie by itself
    gen_tmp = os.path.join(repo, '_gen')
    os.makedirs(gen_tmp, exist_ok=True)
    try:
        translate.regenerate(repo, gen_tmp)
        for fn in os.listdir(gen_tmp):
            a = open(os.path.join(gen_tmp, fn)).read()
            b = open(os.path.join(os.environ.get('MUT_GEN_REF') or os.path.join(VERIF, 'lean', 'RSocketModel', 'Gen'), fn)).read()
            if a != b:
                return {'detected': 'translator', 'by': fn}
    except Exception as e:
        return {'detected': 'translator-failed', 'by': repr(e)[:200]}
    known = core.load_known()
    known_sigs = {(k['property'], k['signature']) for k in known.get('findings', [])}
    props = sorted(m['props'], key=lambda p: ORDER.index(p))
    t0 = time.time()
    for pid in props:
        mod = importlib.import_module('harness.props.' + pid.lower())
        P = mod.PROP
        rng = random.Random('%s/%s/%s' % (P.id, os.environ.get('VERIF_SEED', '0'), 'quick'))
        cases = list(P.cases(rng, 'quick'))
        if hasattr(P, 'corpus_cases'):
            pass
        res = core.run_cases(P, cases, nproc=1)
        for r in res:
            if r.get('err'):
                return {'detected': 'harness-error', 'by': pid, 'what': str(r['err'])[:300]}
            if r.get('mismatch'):
                return {'detected': 'mismatch', 'by': pid, 'what': str(r['mismatch'])[:300]}
            for o in r.get('oracle') or []:
                if (pid, o['signature']) not in known_sigs:
                    return {'detected': 'oracle', 'by': pid, 'what': (o['signature'] + ': ' + o['what'])[:300]}
    return {'detected': None, 'seconds': round(time.time() - t0, 1)}


def worker_dir(k):
    d = os.path.join(SCRATCH, 'w%d' % k)
    if not os.path.exists(d):
        os.makedirs(d)
        for pkg in ('rsocket', 'reactivestreams'):
            shutil.copytree(os.path.join(SRC_REPO, pkg), os.path.join(d, pkg), ignore=shutil.ignore_patterns('__pycache__'))
    return d


def run_mutant(k, m, timeout=420):
    d = worker_dir(k)
    path = os.path.join(d, m['file'])
    orig = open(os.path.join(SRC_REPO, m['file']), 'rb').read()
    open(path, 'wb').write(orig[:m['start']] + m['new'].encode('utf-8') + orig[m['end']:])
    env = dict(os.environ, VERIF_REPO=d, PYTHONPATH=VERIF, PYTHONHASHSEED='0', PYTHONDONTWRITEBYTECODE='1', VERIF_CASE_TIMEOUT='4', MUT_GEN_REF=gen_ref())
    t0 = time.time()
    try:
        p = subprocess.run(['/venv/bin/python', '-m', 'harness.mutate', 'one', json.dumps(m)], cwd=VERIF, env=env, capture_output=True, text=True, timeout=timeout)
        try:
            res = json.loads(p.stdout.strip().splitlines()[-1])
        except Exception:
            res = {'detected': 'crash', 'what': (p.stderr or p.stdout)[-300:]}
    except subprocess.TimeoutExpired:
        res = {'detected': 'timeout'}
    finally:
        open(path, 'wb').write(orig)
    res['seconds'] = round(time.time() - t0, 1)
    return res


def cmd_run(mfile, rfile, jobs, limit, shuffle_seed=1, survivors_of=None):
    from concurrent.futures import ThreadPoolExecutor
    import threading
    snapshot()
    muts = [json.loads(l) for l in open(mfile)]
    if survivors_of:
        # second pass: the mutants nothing reported in the first pass, against the checks of all twenty properties
        keep = {json.loads(l)['id'] for l in open(survivors_of) if not json.loads(l)['detected']}
        muts = [dict(m, props=list(ORDER)) for m in muts if m['id'] in keep]
    done = set()
    if os.path.exists(rfile):
        for l in open(rfile):
            done.add(json.loads(l)['id'])
    muts = [m for m in muts if m['id'] not in done]
    random.Random(shuffle_seed).shuffle(muts)
    if limit:
        muts = muts[:limit]
    lock = threading.Lock()
    free = list(range(jobs))
    out = open(rfile, 'a')

    def job(m):
        with lock:
            k = free.pop()
        try:
            res = run_mutant(k, m)
        finally:
            with lock:
                free.append(k)
        rec = dict(id=m['id'], file=m['file'], line=m['line'], kind=m['kind'], old=m['old'][:80], new=m['new'][:80], **res)
        with lock:
            out.write(json.dumps(rec) + '\n')
            out.flush()
    with ThreadPoolExecutor(jobs) as ex:
        list(ex.map(job, muts))


def cmd_report(rfile):
    rs = [json.loads(l) for l in open(rfile)]
    by = {}
    for r in rs:
        by.setdefault(r['file'], []).append(r)
    tot = len(rs)
    surv = [r for r in rs if not r['detected']]
    print('mutants %d, detected %d, survivors %d' % (tot, tot - len(surv), len(surv)))
    for f in sorted(by):
        s = [r for r in by[f] if not r['detected']]
        print('%-55s %4d mutants %4d survive' % (f, len(by[f]), len(s)))
    print()
    for r in sorted(surv, key=lambda r: (r['file'], r['line'])):
        print('%s:%d [%s] %r -> %r' % (r['file'], r['line'], r['kind'], r['old'][:60], r['new'][:60]))


if __name__ == '__main__':
    c = sys.argv[1]
    if c == 'gen':
        cmd_gen(sys.argv[2], sys.argv[3:])
    elif c == 'one':
        print(json.dumps(cmd_one(json.loads(sys.argv[2]))))
    elif c == 'run':
        jobs, limit = 12, None
        if '--jobs' in sys.argv:
            jobs = int(sys.argv[sys.argv.index('--jobs') + 1])
        if '--limit' in sys.argv:
            limit = int(sys.argv[sys.argv.index('--limit') + 1])
        surv = sys.argv[sys.argv.index('--survivors-of') + 1] if '--survivors-of' in sys.argv else None
        cmd_run(sys.argv[2], sys.argv[3], jobs, limit, survivors_of=surv)
    elif c == 'report':
        cmd_report(sys.argv[2])
