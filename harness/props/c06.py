"""C06 — request-n flow control with the library's own stream sources (generator, async generator, Rx 3 and
ReactiveX 4 back-pressure publishers): credits, loop iterations and quiescence points chosen by the harness; and the
same sources behind a real responder on the wire."""
import json

from harness.core import Prop
from harness import detloop, sources, simnet, engine, clientrun


class C06(Prop):
    id = 'C06'
    lean_modules = ['RSocketModel.Props.C06']
    technique = 'Lean 4 proof (credit-accounting invariant over all interleavings of credit arrival, production and delivery; measure-based delivery) + differential correspondence per source'
    level_text = ('c06_never_exceeds, c06_order, c06_stalls_without_credit (every interleaving of request/produce/feed events), c06_delivers_all / c06_single_credit_delivers and '
                  'c06_credit_forwarded_exact, c06_channel_credit_forwarded and c06_credit_after_peer_completed (engine: a REQUEST_N for a channel reaches the local publisher with its exact value in every state of the channel, also after the peer completed its own direction) are kernel-checked on a model of the credit queue + producer/feeder tasks shared by the four library sources; the model is compared with '
                  'each real source at quiescence points, and every delivery is judged against the credit received at that instant; the sources are also run behind a real responder. '
                  'c06_collector_requests_exactly_limit, c06_collector_credit_window (1 <= outstanding credit <= limit rate while elements arrive) and c06_collector_cancels_at_count are kernel-checked on a model of CollectorSubscriber '
                  '(the requester behind AwaitableRSocket), compared with the real class directly and through AwaitableRSocket.request_stream / request_channel on a real client (REQUEST_N / CANCEL frames on the wire).')
    level_note = ('Trusted: Lean kernel + standard axioms; the tick-level interleaving of the feeder tasks inside asyncio is abstracted to arbitrary produce/feed order (the theorems cover '
                  'all orders); Rx / ReactiveX operator internals.')
    design_ref = '§5 C06'
    rule = ('source kind x element count 0..8 x last-element-flagged x failing source x schedules of request(n) (n in 1,2,3,7,2^31-1), partial runs of 1..3 loop iterations, quiescence points '
            'and cancel; plus each source behind a RequestStreamResponder / channel with REQUEST_N frames arriving between iterations; non-trivial = credit arrives in at least two '
            'instalments or is exhausted before the end; distinct = distinct case; grants issued inside on_subscribe; bursts of 17..100 small grants that are all there before the producer runs once (direct calls and REQUEST_N frames in one read); collector: limit rate 1..5 / 2^31-1 x limit count none/1..12 x 0..9 elements x end (flagged element, COMPLETE, ERROR, none) x '
            'bursts of 1..4 frames per loop iteration, stream and channel; requester-side grants: Subscription.request(n) issued before / between / after the writes of a request frame of 1..8 fragments on a link that blocks in every write')
    assumptions = []

    def cases(self, rng, tier):
        out = []
        n = 600 if tier == 'quick' else 20000
        for _ in range(n):
            kind = rng.choice(sources.KINDS)
            count = rng.choice([0, 1, 2, 3, 5, 8])
            steps = []
            for _ in range(rng.randint(1, 7)):
                steps.append(['r', rng.choice([1, 1, 2, 3, 7, 2 ** 31 - 1])])
                x = rng.random()
                if x < 0.5:
                    steps.append(['q'])
                elif x < 0.8:
                    steps.append(['t', rng.randint(1, 3)])
            steps.append(['q'])
            out.append({'mode': 'direct', 'kind': kind, 'count': count, 'flagged': rng.random() < 0.5 and kind in ('gen', 'agen') and count > 0,
                        'failing': rng.random() < 0.15, 'steps': steps})
        # bursts: many small grants that are all there before the producer runs once (one read carrying dozens of REQUEST_N frames)
        for i in range(24 if tier == 'quick' else 400):
            kind = sources.KINDS[i % len(sources.KINDS)]
            k = rng.choice([17, 24, 40, 100])
            out.append({'mode': 'direct', 'kind': kind, 'count': rng.choice([30, 60, 120]), 'flagged': False, 'failing': False,
                        'steps': [['r', rng.choice([1, 1, 2])] for _ in range(k)] + [['q']] + [['r', 1], ['q']]})
        for i in range(12 if tier == 'quick' else 200):
            out.append({'mode': 'wire', 'kind': sources.KINDS[i % len(sources.KINDS)], 'count': rng.choice([30, 60]), 'flagged': False, 'failing': False,
                        'channel': rng.random() < 0.4, 'n0': 1, 'more': [1] * rng.choice([17, 24, 40]), 'together': True})
        for _ in range(n // 3):
            out.append({'mode': 'wire', 'kind': rng.choice(sources.KINDS), 'count': rng.choice([0, 1, 3, 6]), 'flagged': False, 'failing': False,
                        'channel': rng.random() < 0.4, 'n0': rng.choice([1, 2, 3, 2 ** 31 - 1]), 'more': [rng.choice([1, 2, 5, 2 ** 31 - 1, 2 ** 31 - 2]) for _ in range(rng.randint(0, 3))]})
        for _ in range(n // 4):
            more = [rng.choice([1, 2, 5]) for _ in range(rng.randint(1, 4))]
            out.append({'mode': 'wire', 'tcp': True, 'kind': rng.choice(sources.KINDS), 'count': rng.choice([3, 6, 10, 20]), 'flagged': False, 'failing': False, 'channel': False,
                        'n0': rng.choice([1, 2, 3]), 'more': more, 'over': [rng.choice([0, 1, 2, 3, 5]) for _ in range(len(more) + 1)]})
        # channels whose requester direction is alive too: its elements and its end (bare COMPLETE, last element carrying COMPLETE, ERROR) arrive
        # between the grants; the credit of the responder's direction is not affected by any of it
        for _ in range(n // 3):
            more = [rng.choice([1, 2, 5]) for _ in range(rng.randint(1, 4))]
            up = [rng.choice(['', '', 'n', 'nn']) for _ in range(len(more) + 1)]
            up[rng.randrange(len(up))] += rng.choice(['N', 'N', 'c', 'e', ''])      # N = NEXT+COMPLETE in one frame, c = bare COMPLETE, e = ERROR
            out.append({'mode': 'wire', 'kind': rng.choice(sources.KINDS), 'count': rng.choice([3, 6, 10]), 'flagged': False, 'failing': False,
                        'channel': True, 'n0': rng.choice([1, 2, 3]), 'more': more, 'up': up})
        # the library's own awaitable requester (CollectorSubscriber behind AwaitableRSocket): the credit it grants
        for _ in range(n // 3):
            k = rng.choice([0, 1, 2, 3, 4, 6, 9])
            end = rng.choice(['flag', 'complete', 'error', 'none'] if k else ['complete', 'error', 'none'])
            if rng.random() < 0.5:
                out.append({'mode': 'collector', 'kind': 'awaitable', 'via': 'wire', 'L': rng.choice([1, 2, 3, 5, 2 ** 31 - 1]), 'C': None, 'k': k, 'end': end,
                            'channel': rng.random() < 0.4, 'burst': rng.choice([1, 1, 2, 4])})
            else:
                out.append({'mode': 'collector', 'kind': 'awaitable', 'via': 'direct', 'L': rng.choice([1, 2, 3, 5, 2 ** 31 - 1]), 'C': rng.choice([None, None, 1, 2, 3, 5, 12]),
                            'k': k, 'end': end, 'extra': rng.choice([0, 0, 1, 3])})
        # credit granted by the application on the requester side: Subscription.request(n) at any moment relative to the (possibly
        # fragmented) request frame leaving the endpoint
        for _ in range(n // 3):
            grants = [[rng.choice(['now', 'now', 'after1', 'after2', 'drained', 'insub']), rng.choice([1, 2, 5, 2 ** 31 - 1])] for _ in range(rng.randint(1, 3))]
            grants.sort(key=lambda g: g[0] != 'insub')
            out.append({'mode': 'grant', 'kind': 'requester', 'channel': rng.random() < 0.4, 'F': rng.choice([None, 64, 64, 80]), 'size': rng.choice([0, 20, 150, 400]),
                        'n0': rng.choice([1, 2, 7]), 'grants': grants, 'lp': rng.random() < 0.5})
        return out

    def run_impl(self, case):
        if case['mode'] == 'grant':
            return detloop.run(self._grant, case)
        if case['mode'] == 'direct':
            return detloop.run(sources.drive, case)
        if case['mode'] == 'collector':
            return detloop.run(self._collector_wire if case['via'] == 'wire' else self._collector_direct, case)
        return detloop.run(self._wire, case)

    async def _grant(self, loop, case):
        from rsocket.payload import Payload
        from rsocket import frame as F
        R = clientrun.ClientRun(loop, n_transports=1, ka_ms=10_000_000, life_ms=100_000_000, fragment_size_bytes=case['F'])
        R.transports[0].length_header = case['lp']
        c = R.build()
        await c.connect()
        await loop.settle()
        t = R.transports[0]
        base = len(t.sent)
        t.gated = True               # from now on every write blocks until the harness releases it

        done = []

        class Sub:
            subscription = None
            def on_subscribe(self, s):
                self.subscription = s
                for when, n in case['grants']:
                    if when == 'insub':
                        s.request(n)          # the usual reactive-streams place to ask for (more) credit
                        done.append(n)
            def on_next(self, v, is_complete=False): pass
            def on_complete(self): pass
            def on_error(self, e): pass
        sub = Sub()
        payload = Payload(bytes([7]) * case['size'])
        if case['channel']:
            c.request_channel(payload).initial_request_n(case['n0']).subscribe(sub)
        else:
            c.request_stream(payload).initial_request_n(case['n0']).subscribe(sub)
        writes = 0
        for when, n in case['grants']:
            if when == 'insub':
                continue
            target = {'now': 0, 'after1': 1, 'after2': 2, 'drained': 10 ** 6}[when]
            while writes < target:
                await loop.settle()
                if not t.release():
                    break
                writes += 1
            if when == 'drained':
                await loop.settle()
            sub.subscription.request(n)
            done.append(n)
        for _ in range(2000):
            await loop.settle()
            if not t.release():
                break
        await loop.settle()
        wire = []
        for e in t.sent[base:]:
            fr = e[2]
            if isinstance(fr, (F.RequestStreamFrame, F.RequestChannelFrame)):
                wire.append(['REQ', fr.stream_id, fr.initial_request_n, bool(fr.flags_follows)])
            elif isinstance(fr, F.PayloadFrame):
                wire.append(['PAY', fr.stream_id, 0, bool(fr.flags_follows)])
            elif isinstance(fr, F.RequestNFrame):
                wire.append(['RN', fr.stream_id, fr.request_n, False])
        await c.close()
        return {'wire': wire, 'granted': done}

    @staticmethod
    def _collector_events(case):
        ev = []
        for i in range(case['k']):
            ev.append('n1' if case['end'] == 'flag' and i == case['k'] - 1 else 'n0')
        if case['end'] == 'complete':
            ev.append('c')
        elif case['end'] == 'error':
            ev.append('e')
        # a source that keeps emitting after the terminal event (direct mode only: the requester drops such frames on the wire)
        ev += ['n0'] * case.get('extra', 0) if case['end'] in ('complete', 'error', 'flag') else []
        return ev

    async def _collector_direct(self, loop, case):
        import asyncio
        from rsocket.awaitable.collector_subscriber import CollectorSubscriber
        from rsocket.payload import Payload
        calls = []

        class Sub:
            def request(self, n): calls.append('r%d' % n)
            def cancel(self): calls.append('x')
        kw = {} if case['C'] is None else {'limit_count': case['C']}
        col = CollectorSubscriber(limit_rate=case['L'], **kw)
        col.on_subscribe(Sub())
        task = asyncio.ensure_future(col.run())
        after = []
        for i, e in enumerate(self._collector_events(case)):
            if e[0] == 'n':
                col.on_next(Payload(b'%d' % i), e == 'n1')
            elif e == 'c':
                col.on_complete()
            else:
                col.on_error(RuntimeError('source failed'))
            await loop.settle()
            after.append(len(calls))
        res = None
        if task.done():
            res = 'raised' if task.exception() is not None else len(task.result())
        else:
            task.cancel()
        return {'calls': calls, 'after': after, 'done': col.is_done.is_set(), 'failed': col.error is not None, 'total': len(col.values), 'result': res, 'initial': None}

    async def _collector_wire(self, loop, case):
        import asyncio
        from rsocket.awaitable.awaitable_rsocket import AwaitableRSocket
        from rsocket.payload import Payload
        from rsocket import frame as F
        R = clientrun.ClientRun(loop, n_transports=1, ka_ms=10_000_000, life_ms=100_000_000)
        c = R.build()
        await c.connect()
        await loop.settle()
        t = R.transports[0]
        ars = AwaitableRSocket(c)
        if case['channel']:
            task = asyncio.ensure_future(ars.request_channel(Payload(b'q'), limit_rate=case['L']))
        else:
            task = asyncio.ensure_future(ars.request_stream(Payload(b'q'), limit_rate=case['L']))
        await loop.settle()
        req = [e[2] for e in t.sent if isinstance(e[2], (F.RequestStreamFrame, F.RequestChannelFrame))]
        if not req:
            return {'calls': [], 'after': [], 'done': False, 'failed': False, 'total': 0, 'result': 'no-request-frame', 'initial': None}
        sid, initial = req[0].stream_id, req[0].initial_request_n
        base = len(t.sent)
        after = []

        def calls():
            out = []
            for e in t.sent[base:]:
                if isinstance(e[2], F.RequestNFrame) and e[2].stream_id == sid:
                    out.append('r%d' % e[2].request_n)
                elif isinstance(e[2], F.CancelFrame) and e[2].stream_id == sid:
                    out.append('x')
            return out
        evs = self._collector_events(case)
        pending = 0
        for i, e in enumerate(evs):
            if e[0] == 'n':
                f = F.PayloadFrame()
                f.stream_id, f.data, f.flags_next, f.flags_complete = sid, b'%d' % i, True, e == 'n1'
            elif e == 'c':
                f = F.PayloadFrame()
                f.stream_id, f.flags_complete = sid, True
            else:
                f = F.ErrorFrame()
                f.stream_id, f.error_code, f.data = sid, 0x201, b'source failed'
            t.deliver(f.serialize())
            pending += 1
            if pending >= case['burst'] or i == len(evs) - 1:
                await loop.settle()
                after += [len(calls())] * pending
                pending = 0
        res = None
        if task.done():
            res = 'raised' if task.exception() is not None else len(task.result())
        else:
            task.cancel()
        out = {'calls': calls(), 'after': after, 'done': task.done(), 'failed': res == 'raised', 'total': case['k'] if res in (None, 'raised') else res, 'result': res,
               'initial': initial}
        await c.close()
        return out

    async def _wire_tcp(self, loop, case):
        # the same through the byte-stream transport: the grants arrive in reads that end anywhere, also inside the next frame's length prefix
        import asyncio
        from rsocket.rsocket_server import RSocketServer
        from rsocket.request_handler import BaseRequestHandler
        from rsocket.transports.tcp import TransportTCP
        from rsocket.frame_parser import FrameParser
        from rsocket import frame as F
        from harness.link import Writer
        src = sources.make_source(case['kind'], case['count'], False, False)

        class H(BaseRequestHandler):
            async def request_stream(self, payload):
                return src

        class L:
            stream = [bytearray(), bytearray()]
        reader = asyncio.StreamReader()
        server = RSocketServer(TransportTCP(reader, Writer(L, 0)), handler_factory=H)
        await loop.settle()
        frames = [engine.build_frame({'ty': 'REQUEST_STREAM', 'sid': 1, 'n': case['n0'], 'data': [9]}).serialize()]
        frames += [engine.build_frame({'ty': 'REQUEST_N', 'sid': 1, 'n': n}).serialize() for n in case['more']]
        blobs = [len(b).to_bytes(3, 'big') + b for b in frames]
        parser, seen = FrameParser(), [0]

        async def payloads():
            out = bytes(L.stream[0])
            del L.stream[0][:]
            async for fr in parser.receive_data(out, 3):
                if isinstance(fr, F.PayloadFrame) and (fr.data or fr.metadata):
                    seen[0] += 1
            return seen[0]
        trace, credit = [], 0
        for i, b in enumerate(blobs):
            over = case['over'][i] if i + 1 < len(blobs) else 0       # bytes of the next frame that arrive with this one
            nxt = blobs[i + 1] if i + 1 < len(blobs) else b''
            reader.feed_data(b + nxt[:over])
            if i + 1 < len(blobs):
                blobs[i + 1] = nxt[over:]
            await loop.settle()
            credit += case['n0'] if i == 0 else case['more'][i - 1]
            trace.append([credit, await payloads()])
        errors = []
        await server.close()
        return {'trace': trace, 'completes': 0, 'errors': errors}

    async def _wire(self, loop, case):
        if case.get('tcp'):
            return await self._wire_tcp(loop, case)
        from rsocket.rsocket_server import RSocketServer
        from rsocket.request_handler import BaseRequestHandler
        from rsocket import frame as F
        src = sources.make_source(case['kind'], case['count'], False, False)

        class H(BaseRequestHandler):
            async def request_stream(self, payload):
                return src

            async def request_channel(self, payload):
                if case.get('up'):
                    from reactivestreams.subscriber import DefaultSubscriber

                    class Up(DefaultSubscriber):
                        def on_subscribe(self, subscription):
                            subscription.request(100)
                    return src, Up()
                return src, None
        t = simnet.ScriptedTransport(loop)
        server = RSocketServer(t, handler_factory=H)
        await loop.settle()
        t.deliver(engine.build_frame({'ty': 'REQUEST_CHANNEL' if case['channel'] else 'REQUEST_STREAM', 'sid': 1, 'n': case['n0'], 'data': [9], 'complete': not case.get('up')}).serialize())
        credit = case['n0']
        trace = []

        def upstream(codes):
            for ch in codes:
                if ch == 'n':
                    t.deliver(engine.build_frame({'ty': 'PAYLOAD', 'sid': 1, 'data': [7], 'next': True}).serialize())
                elif ch == 'N':
                    t.deliver(engine.build_frame({'ty': 'PAYLOAD', 'sid': 1, 'data': [8], 'next': True, 'complete': True}).serialize())
                elif ch == 'c':
                    t.deliver(engine.build_frame({'ty': 'PAYLOAD', 'sid': 1, 'complete': True}).serialize())
                elif ch == 'e':
                    t.deliver(engine.build_frame({'ty': 'ERROR', 'sid': 1, 'code': 0x201, 'data': [1]}).serialize())
        if case.get('up'):
            await loop.settle()
            upstream(case['up'][0])

        def payloads():
            return len([e for e in t.sent if isinstance(e[2], F.PayloadFrame) and (e[2].data or e[2].metadata)])
        await loop.settle()
        trace.append([credit, payloads()])
        for i, n in enumerate(case['more']):
            t.deliver(engine.build_frame({'ty': 'REQUEST_N', 'sid': 1, 'n': n}).serialize())
            credit += n
            if not case.get('together'):
                await loop.settle()
                trace.append([credit, payloads()])
            if case.get('up'):
                upstream(case['up'][i + 1])
                await loop.settle()
        if case.get('together'):
            await loop.settle()
            trace.append([credit, payloads()])
        errors = [engine.simnet_tok(e) for e in t.sent if isinstance(e[2], F.ErrorFrame)]
        completes = len([e for e in t.sent if isinstance(e[2], F.PayloadFrame) and e[2].flags_complete])
        await server.close()
        return {'trace': trace, 'completes': completes, 'errors': errors}

    def model_lines(self, case, obs):
        if case['mode'] == 'grant':
            return []
        if case['mode'] == 'collector':
            return ['collect %d %s %s' % (case['L'], '-' if case['C'] is None else case['C'], ' '.join(self._collector_events(case)))]
        if case['mode'] != 'direct' and case.get('together'):
            ev = ['r%d' % case['n0'], 'q'] + ['r%d' % n for n in case['more']] + ['q']
            return ['credit flagged=0 failing=0 count=%d %s' % (case['count'], ' '.join(ev))]
        if case['mode'] != 'direct':
            ev = ['r%d' % case['n0'], 'q'] + [x for n in case['more'] for x in ('r%d' % n, 'q')]
            return ['credit flagged=0 failing=0 count=%d %s' % (case['count'], ' '.join(ev))]
        ev = []
        for st in case['steps']:
            if st[0] == 'r':
                ev.append('r%d' % st[1])
            elif st[0] == 'q':
                ev.append('q')
        return ['credit flagged=%d failing=%d count=%d %s' % (case['flagged'], case['failing'], case['count'], ' '.join(ev))]

    def compare(self, case, obs, answers):
        if case['mode'] == 'grant':
            return None
        if case['mode'] == 'collector':
            outs, _, fin = answers[0].partition('|')
            model_calls = outs.split()
            fields = dict(p.split('=') for p in fin.split())
            if obs['calls'] != model_calls:
                return 'collector requests / cancel: impl %s / model %s' % (obs['calls'], model_calls)
            impl_fin = {'done': '1' if obs['done'] else '0', 'failed': '1' if obs['failed'] else '0'}
            if case['via'] == 'direct':
                impl_fin['total'] = str(obs['total'])
            for k2, v in impl_fin.items():
                if fields.get(k2) != v:
                    return 'collector final state: impl %s / model %s' % (impl_fin, fields)
            return None
        model = answers[0].split(' ')
        if case['mode'] == 'direct':
            impl = ['%d%s' % (n, t) for (n, t) in obs['points']]
        else:
            impl = ['%d' % p for _, p in obs['trace']]
            model = [m[:-1] for m in model]
        if impl != model:
            return 'at the quiescence points: impl %s / model %s' % (impl, model)

    def oracle(self, case, obs):
        fails = []
        if case['mode'] == 'grant':
            wire = obs['wire']
            reqs = [i for i, w in enumerate(wire) if w[0] == 'REQ']
            if not reqs:
                return [{'signature': 'grant:no-request-frame', 'what': 'no request frame on the wire: %s' % wire[:6]}]
            sid = wire[reqs[0]][1]
            if wire[reqs[0]][2] != case['n0']:
                fails.append({'signature': 'grant:initial-request-n-altered', 'what': 'initial_request_n(%d) was sent as %d' % (case['n0'], wire[reqs[0]][2])})
            # the request frame is complete at its last fragment (the first frame of the stream without FOLLOWS)
            last = next((i for i, w in enumerate(wire) if w[1] == sid and w[0] in ('REQ', 'PAY') and not w[3]), None)
            rn = [(i, w[2]) for i, w in enumerate(wire) if w[0] == 'RN' and w[1] == sid]
            if [v for _, v in rn] != obs['granted']:
                fails.append({'signature': 'grant:credit-not-transmitted-exactly', 'what': 'Subscription.request%s reached the wire as REQUEST_N %s' % (obs['granted'], [v for _, v in rn])})
            if last is None or any(i < last for i, _ in rn):
                fails.append({'signature': 'grant:credit-overtakes-request', 'what': 'REQUEST_N reached the wire before the last fragment of the request frame of its stream (the responder does not know the stream yet and drops the credit): %s' % [w[0] + (':F' if w[3] else '') for w in wire][:12]})
            return fails
        if case['mode'] == 'collector':
            L, C, k = case['L'], case['C'], case['k']
            if obs['result'] == 'no-request-frame':
                return [{'signature': 'collector:no-request-frame', 'what': 'AwaitableRSocket sent no request frame'}]
            if obs['initial'] is not None and obs['initial'] != L:
                fails.append({'signature': 'collector:initial-request-n', 'what': 'limit_rate %d, request frame carries initial request-n %d' % (L, obs['initial'])})
            bad = [c for c in obs['calls'] if c != 'x' and c != 'r%d' % L]
            if bad:
                fails.append({'signature': 'collector:request-n-not-limit-rate', 'what': 'limit_rate %d, REQUEST_N %s' % (L, bad)})
            # the credit window while unflagged elements arrive and the count limit is not reached: 1 <= L + granted - received <= L
            upto = k - 1 if case['end'] == 'flag' else k
            if C is not None:
                upto = min(upto, C - 1)
            burst = case.get('burst', 1)
            nev = len(self._collector_events(case))
            for i in range(min(upto, len(obs['after']))):
                if (i + 1) % burst != 0 and i != nev - 1:
                    continue          # inside a burst delivered in one loop iteration: the wire was not observed at this point
                granted = L * len([c for c in obs['calls'][:obs['after'][i]] if c != 'x'])
                out = L + granted - (i + 1)
                if out > L or out < 1:
                    fails.append({'signature': 'collector:credit-window', 'what': 'after element %d: initial %d + granted %d - received %d = %d outstanding (limit rate %d)' % (i + 1, L, granted, i + 1, out, L)})
                    break
            if C is not None and k >= C and not (case['end'] == 'flag' and k == C):
                if obs['calls'].count('x') != 1:
                    fails.append({'signature': 'collector:limit-count-cancel', 'what': 'limit_count %d, %d elements, %d cancels' % (C, k, obs['calls'].count('x'))})
            if C is None and 'x' in obs['calls']:
                fails.append({'signature': 'collector:unexpected-cancel', 'what': str(obs['calls'])})
            terminal = case['end'] in ('flag', 'complete', 'error') or (C is not None and k >= C)
            if terminal and not obs['done']:
                fails.append({'signature': 'collector:awaitable-left-pending', 'what': 'the stream ended (%s) and the awaitable is still pending' % case['end']})
            if not terminal and obs['done']:
                fails.append({'signature': 'collector:awaitable-resolved-early', 'what': 'the stream has not ended and the awaitable is resolved'})
            if obs['done'] and case['end'] == 'error' and not (C is not None and k >= C) and obs['result'] != 'raised':
                fails.append({'signature': 'collector:error-not-raised', 'what': 'the stream failed and the awaitable returned %s' % obs['result']})
            if obs['done'] and case['end'] in ('flag', 'complete') and C is None and not case.get('extra') and obs['result'] != k:
                fails.append({'signature': 'collector:elements-lost', 'what': '%d elements received, awaitable returned %s' % (k, obs['result'])})
            return fails
        if case['mode'] == 'direct':
            k = 0
            for e in obs['events']:
                if e[0] == 'next' and e[1] is not None:
                    k += 1
                    if k > e[3]:
                        fails.append({'signature': 'emission-exceeds-credit:' + case['kind'], 'what': 'element %d delivered with only %d credit received' % (k, e[3])})
                        break
            vals = [e[1] for e in obs['events'] if e[0] == 'next' and e[1] is not None]
            if vals != list(range(1, len(vals) + 1)):
                fails.append({'signature': 'elements-out-of-order:' + case['kind'], 'what': 'delivered %s' % vals})
            total = sum(st[1] for st in case['steps'] if st[0] == 'r')
            need = case['count']
            if obs['points'] and not case['failing']:
                n, term = obs['points'][-1]
                if total >= need and n != need:
                    fails.append({'signature': 'elements-withheld-despite-credit:' + case['kind'], 'what': '%d of %d elements delivered with %d credit' % (n, need, total)})
                if n > need:
                    fails.append({'signature': 'more-elements-than-source', 'what': '%d delivered of %d' % (n, need)})
            if obs['errors']:
                fails.append({'signature': 'source-call-raised:' + case['kind'], 'what': str(obs['errors'])})
        else:
            for credit, sent in obs['trace']:
                if sent > credit:
                    fails.append({'signature': 'wire-emission-exceeds-credit:' + case['kind'], 'what': '%d PAYLOAD elements on the wire with %d credit received' % (sent, credit)})
                if sent != min(credit, case['count']):
                    fails.append({'signature': 'wire-elements-withheld:' + case['kind'], 'what': '%d elements on the wire, credit %d, source has %d' % (sent, credit, case['count'])})
                    break
        return fails

    def nontrivial(self, case, obs):
        if case['mode'] == 'grant':
            return json.dumps(case, sort_keys=True) if len(obs['wire']) >= 3 else None
        if case['mode'] == 'collector':
            return json.dumps(case, sort_keys=True) if obs['calls'] else None
        if case['mode'] == 'direct':
            if len([s for s in case['steps'] if s[0] == 'r']) >= 2:
                return json.dumps(case, sort_keys=True)
            return None
        return json.dumps(case, sort_keys=True) if case['more'] else None

    def stats(self, case, obs):
        yield 'mode=' + case['mode']
        yield 'kind=' + case['kind']
        if case['mode'] == 'direct' and obs['points']:
            yield 'terminal=' + str(obs['points'][-1][1])

    def shrink_candidates(self, case):
        if case['mode'] == 'grant':
            g = case['grants']
            for i in range(len(g)):
                if len(g) > 1:
                    yield dict(case, grants=g[:i] + g[i + 1:])
            return
        if case['mode'] == 'collector':
            if case['k'] > 1:
                yield dict(case, k=case['k'] - 1)
            if case.get('extra'):
                yield dict(case, extra=0)
            return
        if case['mode'] == 'direct':
            st = case['steps']
            for i in range(len(st) - 1):
                yield dict(case, steps=st[:i] + st[i + 1:])
            if case['count'] > 0:
                yield dict(case, count=case['count'] - 1, flagged=case['flagged'] and case['count'] > 1)
        else:
            for i in range(len(case['more'])):
                yield dict(case, more=case['more'][:i] + case['more'][i + 1:])


PROP = C06()
