"""C06 — request-n flow control with the library's own stream sources (generator, async generator, Rx 3 and
ReactiveX 4 back-pressure publishers): credits, loop iterations and quiescence points chosen by the harness; and the
same sources behind a real responder on the wire."""
import json

from harness.core import Prop
from harness import detloop, sources, simnet, engine


class C06(Prop):
    id = 'C06'
    lean_modules = ['RSocketModel.Props.C06']
    technique = 'Lean 4 proof (credit-accounting invariant over all interleavings of credit arrival, production and delivery; measure-based delivery) + differential correspondence per source'
    level_text = ('c06_never_exceeds, c06_order, c06_stalls_without_credit (every interleaving of request/produce/feed events), c06_delivers_all / c06_single_credit_delivers and '
                  'c06_credit_forwarded_exact (engine) are kernel-checked on a model of the credit queue + producer/feeder tasks shared by the four library sources; the model is compared with '
                  'each real source at quiescence points, and every delivery is judged against the credit received at that instant; the sources are also run behind a real responder.')
    level_note = ('Trusted: Lean kernel + standard axioms; the tick-level interleaving of the feeder tasks inside asyncio is abstracted to arbitrary produce/feed order (the theorems cover '
                  'all orders); Rx / ReactiveX operator internals.')
    design_ref = '§5 C06'
    rule = ('source kind x element count 0..8 x last-element-flagged x failing source x schedules of request(n) (n in 1,2,3,7,2^31-1), partial runs of 1..3 loop iterations, quiescence points '
            'and cancel; plus each source behind a RequestStreamResponder / channel with REQUEST_N frames arriving between iterations; non-trivial = credit arrives in at least two '
            'instalments or is exhausted before the end; distinct = distinct case')
    assumptions = []

    def cases(self, rng, tier):
        out = []
        n = 600 if tier == 'quick' else 20000
        for _ in range(n):
            kind = rng.choice(sources.KINDS)
            count = rng.choice([0, 1, 2, 3, 5, 8])
            steps = []
            for _ in range(rng.randint(1, 7)):
                steps.append(['r', rng.choice([1, 1, 2, 3, 7, 2 ** 31 - 1])])
                x = rng.random()
                if x < 0.5:
                    steps.append(['q'])
                elif x < 0.8:
                    steps.append(['t', rng.randint(1, 3)])
            steps.append(['q'])
            out.append({'mode': 'direct', 'kind': kind, 'count': count, 'flagged': rng.random() < 0.5 and kind in ('gen', 'agen') and count > 0,
                        'failing': rng.random() < 0.15, 'steps': steps})
        for _ in range(n // 3):
            out.append({'mode': 'wire', 'kind': rng.choice(sources.KINDS), 'count': rng.choice([0, 1, 3, 6]), 'flagged': False, 'failing': False,
                        'channel': rng.random() < 0.4, 'n0': rng.choice([1, 2, 3, 2 ** 31 - 1]), 'more': [rng.choice([1, 2, 5]) for _ in range(rng.randint(0, 3))]})
        return out

    def run_impl(self, case):
        if case['mode'] == 'direct':
            return detloop.run(sources.drive, case)
        return detloop.run(self._wire, case)

    async def _wire(self, loop, case):
        from rsocket.rsocket_server import RSocketServer
        from rsocket.request_handler import BaseRequestHandler
        from rsocket import frame as F
        src = sources.make_source(case['kind'], case['count'], False, False)

        class H(BaseRequestHandler):
            async def request_stream(self, payload):
                return src

            async def request_channel(self, payload):
                return src, None
        t = simnet.ScriptedTransport(loop)
        server = RSocketServer(t, handler_factory=H)
        await loop.settle()
        t.deliver(engine.build_frame({'ty': 'REQUEST_CHANNEL' if case['channel'] else 'REQUEST_STREAM', 'sid': 1, 'n': case['n0'], 'data': [9], 'complete': True}).serialize())
        credit = case['n0']
        trace = []

        def payloads():
            return len([e for e in t.sent if isinstance(e[2], F.PayloadFrame) and (e[2].data or e[2].metadata)])
        await loop.settle()
        trace.append([credit, payloads()])
        for n in case['more']:
            t.deliver(engine.build_frame({'ty': 'REQUEST_N', 'sid': 1, 'n': n}).serialize())
            credit += n
            await loop.settle()
            trace.append([credit, payloads()])
        completes = len([e for e in t.sent if isinstance(e[2], F.PayloadFrame) and e[2].flags_complete])
        await server.close()
        return {'trace': trace, 'completes': completes}

    def model_lines(self, case, obs):
        if case['mode'] != 'direct':
            ev = ['r%d' % case['n0'], 'q'] + [x for n in case['more'] for x in ('r%d' % n, 'q')]
            return ['credit flagged=0 failing=0 count=%d %s' % (case['count'], ' '.join(ev))]
        ev = []
        for st in case['steps']:
            if st[0] == 'r':
                ev.append('r%d' % st[1])
            elif st[0] == 'q':
                ev.append('q')
        return ['credit flagged=%d failing=%d count=%d %s' % (case['flagged'], case['failing'], case['count'], ' '.join(ev))]

    def compare(self, case, obs, answers):
        model = answers[0].split(' ')
        if case['mode'] == 'direct':
            impl = ['%d%s' % (n, t) for (n, t) in obs['points']]
        else:
            impl = ['%d' % p for _, p in obs['trace']]
            model = [m[:-1] for m in model]
        if impl != model:
            return 'at the quiescence points: impl %s / model %s' % (impl, model)

    def oracle(self, case, obs):
        fails = []
        if case['mode'] == 'direct':
            k = 0
            for e in obs['events']:
                if e[0] == 'next' and e[1] is not None:
                    k += 1
                    if k > e[3]:
                        fails.append({'signature': 'emission-exceeds-credit:' + case['kind'], 'what': 'element %d delivered with only %d credit received' % (k, e[3])})
                        break
            vals = [e[1] for e in obs['events'] if e[0] == 'next' and e[1] is not None]
            if vals != list(range(1, len(vals) + 1)):
                fails.append({'signature': 'elements-out-of-order:' + case['kind'], 'what': 'delivered %s' % vals})
            total = sum(st[1] for st in case['steps'] if st[0] == 'r')
            need = case['count']
            if obs['points'] and not case['failing']:
                n, term = obs['points'][-1]
                if total >= need and n != need:
                    fails.append({'signature': 'elements-withheld-despite-credit:' + case['kind'], 'what': '%d of %d elements delivered with %d credit' % (n, need, total)})
                if n > need:
                    fails.append({'signature': 'more-elements-than-source', 'what': '%d delivered of %d' % (n, need)})
            if obs['errors']:
                fails.append({'signature': 'source-call-raised:' + case['kind'], 'what': str(obs['errors'])})
        else:
            for credit, sent in obs['trace']:
                if sent > credit:
                    fails.append({'signature': 'wire-emission-exceeds-credit:' + case['kind'], 'what': '%d PAYLOAD elements on the wire with %d credit received' % (sent, credit)})
                if sent != min(credit, case['count']):
                    fails.append({'signature': 'wire-elements-withheld:' + case['kind'], 'what': '%d elements on the wire, credit %d, source has %d' % (sent, credit, case['count'])})
                    break
        return fails

    def nontrivial(self, case, obs):
        if case['mode'] == 'direct':
            if len([s for s in case['steps'] if s[0] == 'r']) >= 2:
                return json.dumps(case, sort_keys=True)
            return None
        return json.dumps(case, sort_keys=True) if case['more'] else None

    def stats(self, case, obs):
        yield 'mode=' + case['mode']
        yield 'kind=' + case['kind']
        if case['mode'] == 'direct' and obs['points']:
            yield 'terminal=' + str(obs['points'][-1][1])

    def shrink_candidates(self, case):
        if case['mode'] == 'direct':
            st = case['steps']
            for i in range(len(st) - 1):
                yield dict(case, steps=st[:i] + st[i + 1:])
            if case['count'] > 0:
                yield dict(case, count=case['count'] - 1, flagged=case['flagged'] and case['count'] > 1)
        else:
            for i in range(len(case['more'])):
                yield dict(case, more=case['more'][:i] + case['more'][i + 1:])


PROP = C06()
