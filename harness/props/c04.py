"""C04 — chunking independence of FrameParser. Correspondence of the real `FrameParser.receive_data`
(and `TransportTCP.next_frame_generator`) with `RSocketModel.Parser` under a stub per-frame decoder
installed on both sides, plus chunked-vs-whole runs with the real decoder."""
import asyncio
import json

from harness.core import Prop
from harness import frames as FR

LIMIT = 5000
_loop = None


def loop():
    global _loop
    if _loop is None or _loop.is_closed():
        _loop = asyncio.new_event_loop()
        asyncio.set_event_loop(_loop)
    return _loop


def stub(body):
    body = bytes(body)
    if len(body) == 0 or body[0] == 0xEE:
        raise ValueError('stub: undecodable')
    if body[0] == 0xDD:
        return None
    return 'F' + body.hex()


def stub_expected(body):
    if len(body) == 0 or body[0] == 0xEE:
        return ['X']
    if body[0] == 0xDD:
        return []
    return ['F' + body.hex()]


async def _consume(parser, data, header_length, items, real):
    n = 0
    try:
        async for fr in parser.receive_data(data, header_length):
            n += 1
            if n > LIMIT:
                return False
            if real:
                items.append(FR.dump(fr))
            else:
                items.append('X' if not isinstance(fr, str) else fr)
    except Exception as e:
        # the parser itself raised on this read: an outcome of the code under test, not a harness failure
        items.append('RAISED:' + type(e).__name__)
    return True


def cut(data, points):
    out, prev = [], 0
    for p in sorted(set(points)):
        if 0 < p < len(data):
            out.append(data[prev:p])
            prev = p
    out.append(data[prev:])
    return out


def rand_chunking(rng, n):
    style = rng.choice(['single', 'whole', 'random', 'prefix', 'two'])
    if style == 'single':
        return list(range(1, n)), style
    if style == 'whole':
        return [], style
    if style == 'two':
        return [rng.randint(0, n)], style
    if style == 'prefix':
        return sorted({rng.randint(0, n) for _ in range(max(1, n // 3))} | {1, 2}), style
    return sorted({rng.randint(0, n) for _ in range(rng.randint(1, max(1, n // 4)))}), style


# bytes a frame of each type needs for its header and fixed fields: anything shorter cannot be decoded
FIXED = {2: 14, 3: 14, 4: 6, 5: 6, 6: 10, 7: 10, 8: 10, 9: 6, 10: 6, 11: 10, 14: 14}


M0_OFFSET = {'PAYLOAD': 6, 'REQUEST_RESPONSE': 6, 'REQUEST_FNF': 6, 'REQUEST_STREAM': 10, 'REQUEST_CHANNEL': 10}


class C04(Prop):
    id = 'C04'
    lean_modules = ['RSocketModel.Props.C04', 'RSocketModel.Props.C04Transport', 'RSocketModel.Props.C04Link']
    technique = 'Lean 4 proof (well-founded induction on the buffer, decoder-parametric) + differential correspondence with FrameParser / TransportTCP'
    level_text = ('c04_chunking_independent, c04_any_two_chunkings, c04_frames_exact(_chunked), c04_truncated_tail, c04_message_mode are kernel-checked for every '
                  'per-frame decoder, every frame sequence and every partition into reads; the model is a transcription of FrameParser.receive_data and is run '
                  'against the real parser (stub decoder on both sides) and against TransportTCP, TransportAioHttpWebsocket and the QUIC transport with the real decoder. '
                  'Transport.lean models the receiver loop over TransportTCP.next_frame_generator read by read (data / end of stream / failing read) and over the queue of a message transport: '
                  'c04_tcp_reads_then_eof (whatever arrived complete before the end of the stream is dispatched, also from the last read, however read() cut it), c04_tcp_any_two_read_sequences, c04_tcp_frames_exact, '
                  'c04_tcp_error_after_reads, c04_tcp_open_is_parser, c04_tcp_empty_read_is_eof, c04_msg_queue_exact; c04_ws_messages_exact / c04_ws_failure_after_messages (the message pump of the websocket transports: every non-empty binary message contributes its own decoding, other kinds of message and empty ones nothing, a failing websocket loses nothing received before it) compared with the aiohttp client and server transports on scripted websockets; c04_tcp_step_matches_source / c04_msg_step_matches_source: the per-read and per-entry decisions of the two loops are those of TransportTCP.next_frame_generator / AbstractMessagingTransport.next_frame_generator as compiled from their source on every run; c04_tcp_link_exact (Props/C04Link.lean) composes codec, partial writes, parser and transport loop: the writes of TransportTCP.send_frame for any list of legal frames, read back in any non-empty pieces and followed by the end of the stream, are dispatched as exactly those frames; compared with a real TransportTCP over a real StreamReader on scripted reads.')
    level_note = ('Trusted: Lean kernel + standard axioms; model fidelity as far as the correspondence reaches; asyncio.StreamReader.read semantics; '
                  'bytearray slicing = List.take/drop.')
    design_ref = '§5 C04'
    rule = ('sequences of correctly delimited frames (valid, undecodable, ignored, zero-length) plus optional truncated/garbage tail, cut into reads by '
            'five chunking styles (single bytes, whole, one cut, cuts inside every prefix, random); byte-stream mode through FrameParser and through '
            'TransportTCP.next_frame_generator with varying read sizes; message mode incl. the empty message, and whole messages through each of the library\'s message transports that can be fed by a fake websocket (aiohttp server and client, asyncwebsockets client, websockets, HTTP/3), frames pulled through AbstractMessagingTransport.next_frame_generator; the QUIC transport (RSocketQuicProtocol + RSocketQuicTransport driven with StreamDataReceived events for the chunks and a final ConnectionTerminated, the listener task scheduled between all / none / all but the last two / random events); bursts of 257..1100 small frames that are all there before the consumer runs once (TCP read, websocket message batch, QUIC events); non-trivial = at least two frames and at least '
            'one cut strictly inside a frame or its prefix (stream mode), or a message-mode case; distinct = distinct (bytes, chunking); plus the receiver loop over a real TransportTCP and StreamReader scripted read by read (pieces that are there alone or together before the next read, the end of the stream or a failing read arriving alone or together with the last bytes, read sizes 1..65536), the observed read() results replayed on Transport.tcpLoop')
    assumptions = ['the per-frame decoder is a parameter of the theorem; with the stub decoder the harness replaces rsocket.frame_parser.parse_or_ignore']

    def cases(self, rng, tier):
        out = []
        n = 2500 if tier == 'quick' else 80000
        for i in range(n):
            kind = rng.choice(['stub', 'stub', 'stub', 'real', 'tcp', 'msg', 'wsmsg', 'quic'])
            if kind == 'stub':
                bodies = []
                for _ in range(rng.randint(0, 7)):
                    first = rng.choice([b'', b'\xee', b'\xdd', bytes([rng.randint(0, 255)])])
                    bodies.append(first + (FR.rbytes(rng, 0, 300 if rng.random() < 0.1 else 12) if first else b''))
                tail = rng.choice([b'', b'', b'\x00', b'\x00\x00', b'\x00\x00\x05ab', bytes(rng.getrandbits(8) for _ in range(rng.randint(0, 2)))])
                data = b''.join(len(b).to_bytes(3, 'big') + b for b in bodies) + tail
                pts, style = rand_chunking(rng, len(data))
                out.append({'kind': 'stub', 'bodies': [b.hex() for b in bodies], 'tail': tail.hex(), 'cuts': pts, 'style': style})
            elif kind in ('real', 'tcp', 'wsmsg', 'quic'):
                specs = [FR.gen_spec(rng) for _ in range(rng.randint(1, 6))]
                for sp in specs:
                    if sp['t'] in M0_OFFSET and rng.random() < 0.25:
                        sp['md'], sp['M0'] = '', True
                # undecodable but delimited bodies; the last four: ERROR frames whose 32-bit code is none the protocol defines (reserved 0, a gap,
                # the application range, the reserved top value) - no frame may come out of them
                BAD_ERR = ['000000012c00' + c + '6869' for c in ('00000000', '00000105', '00000301', 'fffffffe')]
                junk = rng.choice(['', '', 'ee', '0000000000ff', '00000001' + 'ff' * 4] + BAD_ERR)
                c_undec = junk in ('ee', '0000000000ff') or junk in BAD_ERR      # shorter than a header / unknown frame type / undefined error code
                if rng.random() < 0.3:
                    # a known frame type cut short, with or without the IGNORE flag: dropped silently / an invalid-frame marker, never a frame
                    b = bytearray(FR.build(FR.gen_spec(rng)).serialize())
                    if rng.random() < 0.6:
                        b[4] |= 0x02
                    junk = bytes(b[:rng.randint(6, max(6, len(b) - 1))]).hex()
                    c_undec = len(junk) // 2 < FIXED.get(b[4] >> 2, 0)
                pos = rng.randint(0, len(specs))
                c = {'kind': kind, 'specs': specs, 'junk': junk, 'junk_pos': pos, 'junk_undecodable': c_undec}
                if kind == 'real':
                    c['cuts'], c['style'] = None, None
                    c['seed'] = rng.getrandbits(32)
                elif kind == 'wsmsg':
                    # which of the library's message transports receives the messages (each has its own pump around the shared parser)
                    c['which'] = rng.choice(['aiohttp-server', 'aiohttp-client', 'asyncwebsockets', 'websockets', 'http3'])
                elif kind == 'quic':
                    # the QUIC transport: stream chunks arrive as events; the listener task may or may not get to run between two of them, and
                    # the termination event may arrive in the same loop iteration as the last chunks (one datagram carrying both)
                    c['seed'] = rng.getrandbits(32)
                    c['schedule'] = rng.choice(['spaced', 'batched', 'tail-batched', 'random'])
                    c['fin'] = rng.choice([None, None, 'last-data', 'own-event'])
                else:
                    c['read'] = rng.choice([1, 2, 3, 4, 7, 64, 1024])
                out.append(c)
            else:
                m = rng.choice([b'', b'', b'\xee', b'\xdd\x01', FR.rbytes(rng, 1, 30)])
                out.append({'kind': 'msg', 'msg': m.hex(), 'real': rng.random() < 0.3})
        # the receiver loop over a real TransportTCP and a real StreamReader, scripted read by read: data that arrives alone, together
        # with more data, together with the end of the stream, or followed by a failing read; model: Transport.tcpLoop
        for i in range(600 if tier == 'quick' else 20000):
            bodies = []
            for _ in range(rng.randint(0, 6)):
                first = rng.choice([b'', b'\xee', b'\xdd', bytes([rng.randint(0, 255)])])
                bodies.append(first + (FR.rbytes(rng, 0, 200 if rng.random() < 0.1 else 10) if first else b''))
            tail = rng.choice([b'', b'', b'', b'\x00', b'\x00\x00', b'\x00\x00\x05ab'])
            data = b''.join(len(b).to_bytes(3, 'big') + b for b in bodies) + tail
            pts, style = rand_chunking(rng, len(data))
            pieces = [c for c in cut(data, pts) if c]
            ending = rng.choice(['eof', 'eof', 'eof-with-last', 'err', 'err-with-last', 'open'])
            # script: groups of things that are there before the receiver gets to read again
            groups, cur = [], []
            for pc in pieces:
                cur.append(['d', pc.hex()])
                if rng.random() < 0.7:
                    groups.append(cur)
                    cur = []
            if ending in ('eof-with-last', 'err-with-last'):
                cur.append([ending[:3]])
                groups.append(cur)
            else:
                if cur:
                    groups.append(cur)
                if ending != 'open':
                    groups.append([[ending]])
            out.append({'kind': 'tcploop', 'bodies': [b.hex() for b in bodies], 'tail': tail.hex(), 'groups': groups, 'ending': ending,
                        'read': rng.choice([1, 2, 3, 5, 64, 1024, 1 << 16]), 'style': style,
                        'exc': rng.choice(['ConnectionResetError', 'TimeoutError', 'OSError', 'BrokenPipeError'])})
        # the message pump + receiver loop of the aiohttp websocket transports (client and server side) on scripted websockets: binary
        # messages (valid, undecodable, ignored, empty), messages of other kinds in between, an iteration that fails; model: Transport.pump
        for i in range(400 if tier == 'quick' else 12000):
            msgs = []
            for _ in range(rng.randint(0, 7)):
                x = rng.random()
                if x < 0.7:
                    first = rng.choice([b'', b'\xee', b'\xdd', bytes([rng.randint(0, 255)])])
                    msgs.append(['b', (first + (FR.rbytes(rng, 0, 12) if first else b'')).hex()])
                else:
                    msgs.append(['t'])
            if rng.random() < 0.4:
                msgs.insert(rng.randint(0, len(msgs)), ['x'])
            out.append({'kind': 'wsloop', 'side': rng.choice(['client', 'server']), 'msgs': msgs,
                        'exc': rng.choice(['ConnectionResetError', 'RuntimeError', 'OSError'])})
        # bursts: hundreds of small frames that are all there before the consumer runs once (one big read / one batch of messages)
        for i in range(15 if tier == 'quick' else 60):
            kind = ['wsmsg', 'tcp', 'quic'][i % 3]
            base = [FR.gen_spec(rng, kinds=['REQUEST_FNF', 'PAYLOAD', 'REQUEST_N', 'CANCEL', 'KEEPALIVE']) for _ in range(7)]
            for b in base:
                for k in ('md', 'd'):
                    if b.get(k):
                        b[k] = b[k][:16]
            c = {'kind': kind, 'specs': [base[j % 7] for j in range(rng.choice([257, 300, 700, 1100]))], 'junk': '', 'junk_pos': 0, 'junk_undecodable': False, 'burst': True}
            if kind == 'wsmsg':
                c['which'] = ['aiohttp-server', 'aiohttp-client', 'asyncwebsockets', 'websockets', 'http3'][(i // 3) % 5]
            if kind == 'tcp':
                c['read'] = 1 << 16
            elif kind == 'quic':
                c['seed'], c['schedule'] = rng.getrandbits(32), rng.choice(['batched', 'tail-batched'])
            out.append(c)
        return out

    # -- implementation ------------------------------------------------------------------
    def _wire(self, case):
        bodies = []
        for s in case['specs']:
            b = FR.build(s).serialize()
            if s.get('M0') and s['t'] in M0_OFFSET and not s.get('md'):
                # the METADATA flag with a zero-length metadata block in front of the data: what other implementations put on the wire for
                # an empty-but-present metadata; it carries the same frame as the unflagged form
                off = M0_OFFSET[s['t']]
                b = b[:4] + bytes([b[4] | 0x01]) + b[5:off] + b'\x00\x00\x00' + b[off:]
            bodies.append(b)
        if case['junk']:
            bodies.insert(case['junk_pos'], bytes.fromhex(case['junk']))
        return bodies, b''.join(len(b).to_bytes(3, 'big') + b for b in bodies)

    def run_impl(self, case):
        import rsocket.frame_parser as fp
        from rsocket.frame_parser import FrameParser
        from rsocket import frame as F
        lp = loop()
        kind = case['kind']
        if kind == 'tcploop':
            return self._tcploop(case, lp)
        if kind == 'wsloop':
            return self._wsloop(case, lp)
        if kind == 'stub':
            data = b''.join(len(bytes.fromhex(b)).to_bytes(3, 'big') + bytes.fromhex(b) for b in case['bodies']) + bytes.fromhex(case['tail'])
            chunks = cut(data, case['cuts'])
            orig = fp.parse_or_ignore
            fp.parse_or_ignore = stub
            try:
                p = FrameParser()
                items, ok = [], True
                for c in chunks:
                    ok = lp.run_until_complete(_consume(p, c, 3, items, False))
                    if not ok:
                        break
            finally:
                fp.parse_or_ignore = orig
            return {'chunks': [c.hex() for c in chunks], 'items': items, 'residual': bytes(p._buffer).hex(), 'terminated': ok}
        if kind == 'msg':
            msg = bytes.fromhex(case['msg'])
            orig = fp.parse_or_ignore
            if not case['real']:
                fp.parse_or_ignore = stub
            try:
                p = FrameParser()
                items = []
                ok = lp.run_until_complete(_consume(p, msg, 0, items, case['real']))
                # a second message on the same parser: state must not leak
                items2 = []
                ok2 = ok and lp.run_until_complete(_consume(p, b'\x01\x02', 0, items2, False)) if not case['real'] else True
            finally:
                fp.parse_or_ignore = orig
            return {'items': items[:8], 'residual': bytes(p._buffer).hex(), 'terminated': ok, 'second': items2}
        bodies, data = self._wire(case)
        valid_only = []
        for s in case['specs']:
            try:
                fr = F.parse_or_ignore(FR.build(s).serialize())
                valid_only += [FR.dump(fr)] if fr is not None else []
            except Exception:
                valid_only.append('INVALID')
        expected = []
        plain = [FR.build(s).serialize() for s in case['specs']]
        if case['junk']:
            plain.insert(case['junk_pos'], bytes.fromhex(case['junk']))
        for b in plain:      # (a frame sent with the METADATA flag and zero-length metadata is the frame its unflagged form decodes to)
            try:
                fr = F.parse_or_ignore(b)
                expected += [FR.dump(fr)] if fr is not None else []
            except Exception:
                expected.append('INVALID')
        if kind == 'real':
            import random
            r = random.Random(case['seed'])
            runs = {}
            for _ in range(3):
                pts, style = rand_chunking(r, len(data))
                p = FrameParser()
                items, ok = [], True
                for c in cut(data, pts):
                    ok = lp.run_until_complete(_consume(p, c, 3, items, True))
                    if not ok:
                        break
                runs[style + ':' + ','.join(map(str, pts[:40]))] = {'items': items, 'residual': bytes(p._buffer).hex(), 'terminated': ok}
            return {'expected': expected, 'valid_only': valid_only, 'runs': runs, 'nbytes': len(data)}
        if kind == 'wsmsg':
            # a real message transport of the library (aiohttp websocket server side) fed by a fake websocket: one message per frame,
            # frames pulled through the inherited AbstractMessagingTransport.next_frame_generator
            import aiohttp
            from rsocket.transports.aiohttp_websocket import TransportAioHttpWebsocket

            class Msg:
                def __init__(self, data):
                    self.type, self.data = aiohttp.WSMsgType.BINARY, data

            class WS:
                def __aiter__(self):
                    async def it():
                        for b in bodies:
                            yield Msg(b)
                    return it()

            which = case.get('which', 'aiohttp-server')

            def make():
                """-> (transport, coroutine that pumps all messages into it)"""
                if which == 'aiohttp-server':
                    t = TransportAioHttpWebsocket(WS())
                    return t, t.handle_incoming_ws_messages()
                if which == 'aiohttp-client':
                    from rsocket.transports.aiohttp_websocket import TransportAioHttpClient
                    t = TransportAioHttpClient(websocket=WS())
                    t._connection_ready.set()
                    return t, t.handle_incoming_ws_messages()
                if which == 'asyncwebsockets':
                    from rsocket.transports.asyncwebsockets_transport import TransportAsyncWebsocketsClient
                    from wsproto.events import BytesMessage

                    class WSB:
                        def __aiter__(self):
                            async def it():
                                for b in bodies:
                                    yield BytesMessage(data=b)
                            return it()
                    t = TransportAsyncWebsocketsClient(WSB())
                    return t, t.handle_incoming_ws_messages()
                if which == 'websockets':
                    from rsocket.transports.websockets_transport import WebsocketsTransport

                    class WSR:
                        def __aiter__(self):
                            async def it():
                                for b in bodies:
                                    yield b
                            return it()
                    t = WebsocketsTransport()
                    return t, t.consumer_handler(WSR())
                from rsocket.transports.http3_transport import Http3TransportWebsocket
                from starlette.websockets import WebSocketDisconnect
                left = list(bodies)

                class WS3:
                    async def receive_bytes(self):
                        if not left:
                            raise WebSocketDisconnect()
                        return left.pop(0)
                t = Http3TransportWebsocket(WS3())
                return t, asyncio.wait_for(asyncio.shield(t._listener), 10)

            async def go_ws():
                t, pump = make()
                items = []
                try:
                    await pump
                except Exception as e:
                    pump_error = 'RAISED:' + type(e).__name__      # the pump gave up: what it had queued is still read out below
                else:
                    pump_error = None
                for _ in range(len(bodies) + 2):
                    if t._incoming_frame_queue.empty():
                        if pump_error:
                            items.append(pump_error)
                        return items, True
                    try:
                        g = await t.next_frame_generator()
                        async for fr in g:
                            items.append(FR.dump(fr))
                    except Exception as e:
                        items.append('RAISED:' + type(e).__name__)
                        return items, True
                if pump_error:
                    items.append(pump_error)
                return items, t._incoming_frame_queue.empty()
            items, ok = lp.run_until_complete(asyncio.wait_for(go_ws(), 20))
            return {'expected': expected, 'valid_only': valid_only, 'runs': {'messages through the %s transport' % which: {'items': items, 'residual': '', 'terminated': ok}}, 'nbytes': len(data)}
        if kind == 'quic':
            import random
            from aioquic.quic.configuration import QuicConfiguration
            from aioquic.quic.connection import QuicConnection
            from aioquic.quic.events import StreamDataReceived, ConnectionTerminated
            from rsocket.transports.aioquic_transport import RSocketQuicProtocol, RSocketQuicTransport
            r = random.Random(case['seed'])
            pts, style = rand_chunking(r, len(data))
            chunks = [c for c in cut(data, pts) if c]

            async def go_quic():
                protocol = RSocketQuicProtocol(QuicConnection(configuration=QuicConfiguration(is_client=True)))
                protocol._connected = True               # as after the handshake
                protocol._transmit_soon = lambda: None   # no UDP socket behind this connection
                t = RSocketQuicTransport(protocol)

                async def breathe():
                    for _ in range(5):
                        await asyncio.sleep(0)
                await breathe()
                events = [StreamDataReceived(data=c, end_stream=False, stream_id=0) for c in chunks]
                # where the peer's FIN falls: on the event that carries the last bytes, on an empty event of its own, or nowhere
                fin = case.get('fin')
                if fin == 'last-data' and events:
                    events[-1] = StreamDataReceived(data=chunks[-1], end_stream=True, stream_id=0)
                elif fin == 'own-event':
                    events.append(StreamDataReceived(data=b'', end_stream=True, stream_id=0))
                events.append(ConnectionTerminated(error_code=0, frame_type=None, reason_phrase='bye'))
                sched = case['schedule']
                for i, ev in enumerate(events):
                    protocol.quic_event_received(ev)
                    if sched == 'spaced' or (sched == 'tail-batched' and i < len(events) - 2) or (sched == 'random' and r.random() < 0.5):
                        await breathe()
                items = []
                try:
                    for _ in range(len(data) + 3):
                        g = await asyncio.wait_for(t.next_frame_generator(), 2)
                        if g is None:
                            return items, True
                        async for fr in g:
                            items.append(FR.dump(fr))
                    return items, False
                except asyncio.TimeoutError:
                    return items, False
                except Exception as e:
                    # the termination is reported after every frame the bytes contained
                    return items, True
                finally:
                    t._listener.cancel()
            items, ok = lp.run_until_complete(go_quic())
            return {'expected': expected, 'valid_only': valid_only, 'runs': {'quic %s fin=%s %s:%s' % (case['schedule'], case.get('fin'), style, ','.join(map(str, pts[:40]))): {'items': items, 'residual': '', 'terminated': ok}},
                    'nbytes': len(data)}
        # tcp
        from rsocket.transports.tcp import TransportTCP

        class W:
            def close(self):
                pass

        async def go():
            reader = asyncio.StreamReader()
            reader.feed_data(data)
            reader.feed_eof()
            t = TransportTCP(reader, W(), read_buffer_size=case['read'])
            items = []
            for _ in range(len(data) + 2):
                try:
                    g = await t.next_frame_generator()
                    if g is None:
                        return items, True
                    n = 0
                    async for fr in g:
                        n += 1
                        if n > LIMIT:
                            return items, False
                        items.append(FR.dump(fr))
                except Exception as e:
                    items.append('RAISED:' + type(e).__name__)
                    return items, True
            return items, False
        items, ok = lp.run_until_complete(go())
        return {'expected': expected, 'valid_only': valid_only, 'runs': {'read=%d' % case['read']: {'items': items, 'residual': '', 'terminated': ok}}, 'nbytes': len(data)}

    def _wsloop(self, case, lp):
        import builtins
        import aiohttp
        import rsocket.frame_parser as fp
        from rsocket.exceptions import RSocketTransportError
        from rsocket.transports.aiohttp_websocket import TransportAioHttpWebsocket, TransportAioHttpClient

        class Msg:
            def __init__(self, kind, data=None):
                self.type = aiohttp.WSMsgType.BINARY if kind == 'b' else aiohttp.WSMsgType.TEXT
                self.data = data if kind == 'b' else 'hello'

        class WS:
            def __aiter__(self):
                async def it():
                    for m in case['msgs']:
                        if m[0] == 'x':
                            raise getattr(builtins, case['exc'])('scripted')
                        yield Msg(m[0], bytes.fromhex(m[1]) if m[0] == 'b' else None)
                return it()

        async def go():
            if case['side'] == 'server':
                t = TransportAioHttpWebsocket(WS())
            else:
                t = TransportAioHttpClient(websocket=WS())
                t._connection_ready.set()
            pump_raised = None
            try:
                await asyncio.wait_for(t.handle_incoming_ws_messages(), 5)
            except Exception as e:
                pump_raised = type(e).__name__
            items, end = [], 'open'
            for _ in range(20 * len(case['msgs']) + 5):
                if t._incoming_frame_queue.empty():
                    break
                try:
                    g = await t.next_frame_generator()
                    async for fr in g:
                        items.append('X' if not isinstance(fr, str) else fr)
                except RSocketTransportError:
                    end = 'failed'
                    break
                except Exception as e:
                    items.append('RAISED:' + type(e).__name__)
                    end = 'failed'
                    break
            return {'items': items, 'end': end, 'pump_raised': pump_raised}
        orig = fp.parse_or_ignore
        fp.parse_or_ignore = stub
        try:
            return lp.run_until_complete(go())
        finally:
            fp.parse_or_ignore = orig

    def _tcploop(self, case, lp):
        import builtins
        import rsocket.frame_parser as fp
        from rsocket.transports.tcp import TransportTCP
        from rsocket.exceptions import RSocketTransportError

        class W:
            closed = 0

            def close(self):
                self.closed += 1

        async def go():
            reader = asyncio.StreamReader()
            reads = []
            real_read = reader.read

            async def logged_read(n=-1):
                try:
                    b = await real_read(n)
                except BaseException as e:
                    reads.append('err')
                    raise
                reads.append('d' + (bytes(b).hex() or '-'))
                return b
            reader.read = logged_read
            w = W()
            t = TransportTCP(reader, w, read_buffer_size=case['read'])
            items, end, wrapped = [], 'reading', None
            groups = [list(g) for g in case['groups']]
            for _ in range(sum(len(bytes.fromhex(x[1])) if x[0] == 'd' else 1 for g in groups for x in g) + len(groups) + 3):
                if not reader._buffer and not reader._eof and reader._exception is None:
                    if not groups:
                        break
                    for step in groups.pop(0):
                        if step[0] == 'd':
                            reader.feed_data(bytes.fromhex(step[1]))
                        elif step[0] == 'eof':
                            reader.feed_eof()
                        else:
                            reader.set_exception(getattr(builtins, case['exc'])('scripted'))
                try:
                    g = await asyncio.wait_for(t.next_frame_generator(), 2)
                    if g is None:
                        end = 'closed'
                        break
                    n = 0
                    async for fr in g:
                        n += 1
                        if n > LIMIT:
                            return items, 'nonterminating', None, reads, w.closed, ''
                        items.append('X' if not isinstance(fr, str) else fr)
                except RSocketTransportError as e:
                    end, wrapped = 'failed', True
                    break
                except asyncio.TimeoutError:
                    end = 'stuck'
                    break
                except Exception as e:
                    end, wrapped = 'failed', False
                    items.append('RAISED:' + type(e).__name__)
                    break
            return items, end, wrapped, reads, w.closed, bytes(t._frame_parser._buffer).hex()
        orig = fp.parse_or_ignore
        fp.parse_or_ignore = stub
        try:
            items, end, wrapped, reads, closed, residual = lp.run_until_complete(go())
        finally:
            fp.parse_or_ignore = orig
        return {'items': items, 'end': end, 'wrapped': wrapped, 'reads': reads, 'writer_closed': closed, 'residual': residual}

    # -- model ---------------------------------------------------------------------------
    def model_lines(self, case, obs):
        if case['kind'] == 'tcploop':
            return ['tcp ' + ' '.join(obs['reads'])] if obs['reads'] else []
        if case['kind'] == 'wsloop':
            return ['ws %s %s' % (case['side'], ' '.join(('b' + (m[1] or '-')) if m[0] == 'b' else m[0] for m in case['msgs']))]
        if case['kind'] == 'stub':
            return ['drain - ' + ' '.join(c or '-' for c in obs['chunks'])]
        if case['kind'] == 'msg' and not case['real']:
            return ['msg ' + (case['msg'] or '-')]
        if case['kind'] in ('real', 'tcp', 'wsmsg', 'quic'):
            # the per-frame decoder of the composition C04 ∘ C02: the codec model decides what each delimited body is
            return ['dec ' + (b.hex() or '-') for b in self._wire(case)[0]]
        return []

    def compare(self, case, obs, answers):
        if not answers:
            return None
        if case['kind'] == 'wsloop':
            impl = '%s | %s' % (' '.join(obs['items']), obs['end'])
            if impl != answers[0]:
                return 'websocket pump + receiver loop (%s side), messages %s: impl %s / model %s' % (case['side'], case['msgs'][:8], impl[:200], answers[0][:200])
            return None
        if case['kind'] == 'tcploop':
            impl = '%s | %s' % (' '.join(obs['items']), 'reading ' + (obs['residual'] or '-') if obs['end'] == 'reading' else obs['end'])
            if impl != answers[0]:
                return 'receiver loop over TransportTCP, reads %s: impl %s / model %s' % (' '.join(obs['reads'])[:160], impl[:200], answers[0][:200])
            return None
        if case['kind'] in ('real', 'tcp', 'wsmsg', 'quic'):
            if any(a.startswith('OUT-OF-DOMAIN') or a == 'OOD' for a in answers):
                return None
            want = [a for a in answers if a != 'IGNORED']
            for name, run in obs['runs'].items():
                if run['terminated'] and run['items'] != want:
                    i = next((k for k, (x, y) in enumerate(zip(run['items'], want)) if x != y), min(len(run['items']), len(want)))
                    return 'frames decoded (%s): impl %s / codec model %s (first difference at %d)' % (name, run['items'][i:i + 2], want[i:i + 2], i)
            return None
        if not obs['terminated']:
            impl = 'nonterminating'
        else:
            impl = '%s | %s' % (' '.join(obs['items']), obs['residual'] or '-')
        if impl != answers[0]:
            return 'impl: %s / model: %s' % (impl, answers[0])

    # -- property oracle ---------------------------------------------------------------
    def oracle(self, case, obs):
        fails = []
        kind = case['kind']
        if kind == 'wsloop':
            # independent of the model: every non-empty binary message before a failure contributes its own decoding, in order, nothing else does
            exp = []
            for m in case['msgs']:
                if m[0] == 'x':
                    break
                if m[0] == 'b' and m[1]:
                    exp += stub_expected(bytes.fromhex(m[1]))
            failing = any(m[0] == 'x' for m in case['msgs'])
            how = '%s side, messages %s' % (case['side'], [m[0] + (m[1][:8] if len(m) > 1 else '') for m in case['msgs']][:10])
            if obs['items'] != exp:
                fails.append({'signature': 'message-frames-differ', 'what': 'aiohttp websocket transport (%s): frames dispatched %s, the messages contain %s' % (how, obs['items'][:6], exp[:6])})
            elif failing and case['side'] == 'client' and obs['end'] != 'failed':
                fails.append({'signature': 'websocket-failure-not-reported', 'what': 'aiohttp websocket client transport (%s): the failing websocket left the receiver %s' % (how, obs['end'])})
            elif failing and case['side'] == 'server' and obs['pump_raised'] != 'RSocketTransportError':
                fails.append({'signature': 'websocket-failure-not-reported', 'what': 'aiohttp websocket server transport (%s): the failing websocket ended the pump with %s' % (how, obs['pump_raised'])})
            return fails
        if kind == 'tcploop':
            # independent of the model: the frames the bytes contain, decided from the script alone
            data = b''.join(len(bytes.fromhex(b)).to_bytes(3, 'big') + bytes.fromhex(b) for b in case['bodies']) + bytes.fromhex(case['tail'])
            exp, rest = [], data
            while len(rest) >= 3 and len(rest) >= 3 + int.from_bytes(rest[:3], 'big'):
                ln = int.from_bytes(rest[:3], 'big')
                exp += stub_expected(rest[3:3 + ln])
                rest = rest[3 + ln:]
            how = 'read size %d, chunking %s, ending %s' % (case['read'], case['style'], case['ending'])
            if obs['end'] in ('nonterminating', 'stuck'):
                return [{'signature': 'stream-nonterminating', 'what': 'the receive loop over TransportTCP did not come back (%s)' % how}]
            if case['ending'].startswith('eof'):
                if obs['items'] != exp:
                    fails.append({'signature': 'chunked-stream-frames-differ', 'what': 'TransportTCP, %s: frames dispatched before the end of the stream %s, the bytes contain %s' % (how, obs['items'][:6], exp[:6])})
                elif obs['end'] != 'closed' or not obs['writer_closed']:
                    fails.append({'signature': 'eof-not-noticed', 'what': 'TransportTCP, %s: the end of the stream left the loop %s (writer closed %d times)' % (how, obs['end'], obs['writer_closed'])})
            elif case['ending'] == 'open':
                if obs['items'] != exp:
                    fails.append({'signature': 'chunked-stream-frames-differ', 'what': 'TransportTCP, %s: frames dispatched %s, the bytes contain %s' % (how, obs['items'][:6], exp[:6])})
                elif obs['residual'] != rest.hex():
                    fails.append({'signature': 'residual-buffer-wrong', 'what': 'residual buffer %s, expected %s' % (obs['residual'], rest.hex())})
            else:
                # a failing read: what was dispatched is a prefix of what the bytes contain (asyncio drops what it had buffered), reported as a transport error
                if obs['items'] != exp[:len(obs['items'])]:
                    fails.append({'signature': 'chunked-stream-frames-differ', 'what': 'TransportTCP, %s: frames dispatched before the failing read %s are not a prefix of %s' % (how, obs['items'][:6], exp[:6])})
                elif obs['end'] != 'failed' or not obs['wrapped']:
                    fails.append({'signature': 'read-error-not-a-transport-error', 'what': 'TransportTCP, %s: a read raising %s left the loop %s (RSocketTransportError: %s)' % (how, case['exc'], obs['end'], obs['wrapped'])})
            return fails
        if kind == 'stub':
            if not obs['terminated']:
                return [{'signature': 'stream-nonterminating', 'what': 'receive_data did not terminate on a byte-stream read'}]
            exp = [x for b in case['bodies'] for x in stub_expected(bytes.fromhex(b))]
            # the tail may itself contain a complete (zero/short) frame only if it parses as one: compute from spec
            tail = bytes.fromhex(case['tail'])
            rest = tail
            while len(rest) >= 3 and len(rest) >= 3 + int.from_bytes(rest[:3], 'big'):
                ln = int.from_bytes(rest[:3], 'big')
                exp += stub_expected(rest[3:3 + ln])
                rest = rest[3 + ln:]
            if obs['items'] != exp:
                fails.append({'signature': 'chunked-stream-frames-differ',
                              'what': 'frames decoded from a chunked byte stream differ from the frames it contains (chunking %s): got %s expected %s' % (
                                  case['style'], obs['items'][:6], exp[:6])})
            elif obs['residual'] != rest.hex():
                fails.append({'signature': 'residual-buffer-wrong', 'what': 'residual buffer %s, expected %s' % (obs['residual'], rest.hex())})
        elif kind == 'msg':
            if not obs['terminated']:
                return [{'signature': 'empty-message-nonterminating' if case['msg'] == '' else 'message-nonterminating',
                         'what': 'receive_data(%r, 0) on a message transport does not terminate' % case['msg']}]
            if not case['real']:
                m = bytes.fromhex(case['msg'])
                exp = stub_expected(m) if m else []
                if obs['items'] != exp and not (m == b'' and obs['items'] == ['X']):
                    fails.append({'signature': 'message-frames-differ', 'what': 'message %s yielded %s, expected %s' % (case['msg'], obs['items'], exp)})
                if obs['second'] != ['F0102']:
                    fails.append({'signature': 'message-state-leak', 'what': 'message after %s yielded %s' % (case['msg'], obs['second'])})
        else:
            for name, run in obs['runs'].items():
                if not run['terminated']:
                    fails.append({'signature': 'stream-nonterminating', 'what': 'did not terminate (%s)' % name})
                elif run['items'] != obs['expected']:
                    fails.append({'signature': 'chunked-stream-frames-differ',
                                  'what': 'real decoder, chunking %s: %d frames decoded, %d expected; first difference at %s' % (
                                      name, len(run['items']), len(obs['expected']),
                                      next((i for i, (a, b) in enumerate(zip(run['items'], obs['expected'])) if a != b), min(len(run['items']), len(obs['expected']))))})
                elif run['residual']:
                    fails.append({'signature': 'residual-buffer-wrong', 'what': 'bytes left in buffer after complete frames: %s' % run['residual']})
                if run['terminated'] and case.get('junk') and case.get('junk_undecodable'):
                    # the delimited body that cannot be a frame yields no frame (at most the invalid-frame marker) and disturbs nothing
                    got = [x for x in run['items'] if x != 'INVALID']
                    want = [x for x in obs['valid_only'] if x != 'INVALID']
                    if got != want:
                        fails.append({'signature': 'undecodable-frame-yields-a-frame',
                                      'what': 'undecodable body %s (position %d, chunking %s): frames %s, expected %s' % (
                                          case['junk'], case['junk_pos'], name, [g[:40] for g in got][:5], [w[:40] for w in want][:5])})
        return fails

    def nontrivial(self, case, obs):
        k = case['kind']
        if k == 'wsloop':
            return json.dumps([case['side'], case['msgs']]) if len(case['msgs']) >= 2 else None
        if k == 'tcploop':
            return json.dumps([case['bodies'], case['tail'], case['groups'], case['read']]) if len(case['bodies']) >= 2 and len(obs['reads']) >= 3 else None
        if k == 'stub':
            if len(case['bodies']) >= 2 and case['cuts']:
                return json.dumps([case['bodies'], case['tail'], case['cuts']])
            return None
        if k == 'msg':
            return json.dumps(['msg', case['msg'], case['real']])
        if len(case['specs']) >= 2:
            return json.dumps([k, case['specs'], case['junk'], case['junk_pos'], case.get('seed'), case.get('read'), case.get('schedule'), case.get('which')], sort_keys=True)
        return None

    def stats(self, case, obs):
        yield 'kind=' + case['kind']
        if case['kind'] == 'wsloop':
            yield 'wsloop-side=' + case['side']
            yield 'wsloop-end=' + obs['end']
            if any(m[0] == 't' for m in case['msgs']):
                yield 'wsloop-has-non-binary'
            return
        if case['kind'] == 'tcploop':
            yield 'tcploop-ending=' + case['ending']
            yield 'tcploop-end=' + obs['end']
            yield 'tcploop-read=%d' % case['read']
            return
        if case['kind'] == 'wsmsg':
            yield 'message-transport=' + case.get('which', 'aiohttp-server')
        if case['kind'] == 'stub':
            yield 'style=' + case['style']
            if 'X' in obs['items']:
                yield 'has-invalid'
            if any(b.startswith('dd') for b in case['bodies']):
                yield 'has-ignored'
            if '' in case['bodies']:
                yield 'has-zero-length'
            if obs['residual']:
                yield 'has-residual'
        if case['kind'] == 'msg' and case['msg'] == '':
            yield 'empty-message'
        if case['kind'] in ('real', 'tcp'):
            if 'INVALID' in obs['expected']:
                yield 'has-invalid'
            if case['kind'] == 'tcp':
                yield 'read=%d' % case['read']

    def shrink_candidates(self, case):
        if case['kind'] == 'wsloop':
            for i in range(len(case['msgs'])):
                yield dict(case, msgs=case['msgs'][:i] + case['msgs'][i + 1:])
            return
        if case['kind'] == 'tcploop':
            for i in range(len(case['groups']) - 1):
                yield dict(case, groups=case['groups'][:i] + [case['groups'][i] + case['groups'][i + 1]] + case['groups'][i + 2:])
            if case['read'] != 1 << 16:
                yield dict(case, read=1 << 16)
            return
        if case['kind'] == 'stub':
            for i in range(len(case['bodies'])):
                yield dict(case, bodies=case['bodies'][:i] + case['bodies'][i + 1:])
            if case['tail']:
                yield dict(case, tail='')
            for i in range(len(case['cuts'])):
                yield dict(case, cuts=case['cuts'][:i] + case['cuts'][i + 1:])
        elif case['kind'] in ('real', 'tcp'):
            for i in range(len(case['specs'])):
                if len(case['specs']) > 1:
                    yield dict(case, specs=case['specs'][:i] + case['specs'][i + 1:], junk_pos=min(case['junk_pos'], len(case['specs']) - 1))
            if case['junk']:
                yield dict(case, junk='')


PROP = C04()
