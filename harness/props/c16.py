"""C16 — setup handshake: the SETUP frame states the configuration and precedes every other frame; the server's
accept/reject decisions."""
import asyncio
import json
from datetime import timedelta

from harness.core import Prop
from harness import detloop, clientrun, engine
from harness import frames as FR


def enc_value(spec):
    from rsocket.extensions.mimetypes import WellKnownMimeTypes
    if spec['as'] == 'enum':
        return next(m for m in WellKnownMimeTypes if bytes(m.value.name) == bytes.fromhex(spec['name']))
    if spec['as'] == 'str':
        return bytes.fromhex(spec['name']).decode()
    return bytes.fromhex(spec['name'])


class C16(Prop):
    id = 'C16'
    lean_modules = ['RSocketModel.Props.C16', 'RSocketModel.Props.C16Source', 'RSocketModel.Props.C13Endpoints']
    technique = 'Lean 4 proof (codec round-trip of the SETUP built from the configuration; queue/gate invariant over all connect interleavings; decision logic) + differential correspondence'
    level_text = ('c16_server_decision_matches_source (Props/C16Source.lean): RSocketBase.handle_setup, compiled from rsocket_base.py on every run, has the closed form the engine theorem c16_server_decision proves of the model (RESUME / LEASE-without-publisher refused with UNSUPPORTED_SETUP before on_setup and before any lease subscription; on_setup failure refused with REJECTED_SETUP); c16_init_arguments_forwarded: both endpoint constructors hand every argument to RSocketBase under its own name. c16_setup_fields_exact (every configuration within the wire ranges), c16_millis_exact, c16_setup_first (every interleaving of requests, keepalive ticks, sender steps, '
                  'gate opening, timeouts and reconnects after connect()) and c16_server_decision are kernel-checked; the client model is replayed on the entry-point sequence observed from '
                  'a real RSocketClient whose provider and transport.connect() suspend for chosen numbers of loop iterations; the SETUP bytes are compared with the codec model.')
    level_note = ('Trusted: Lean kernel + standard axioms; float rounding of to_milliseconds for periods that are not whole milliseconds is compared (nearest or floor accepted), not proved; '
                  'asyncio runs connect() up to its first suspension atomically.')
    design_ref = '§5 C16'
    rule = ('configurations (periods from 1 us to hours incl. sub-second and sub-millisecond parts, encodings as bytes/str/enum, lease on/off, setup payload present/absent) x transports whose '
            'provider suspends 0..3 and connect() 0..4 loop iterations x requests injected at each iteration; SETUP/RESUME frames of all flag combinations and resume tokens that are empty, text, or opaque bytes (not valid UTF-8) against a real server with and without '
            'lease publisher and with on_setup raising; the SETUP of the connections made by reconnect() - after a healthy connection, a server EOF, or a keepalive timeout with reconnect() called from on_keepalive_timeout; connect() of the new transport suspending 0..3 iterations - compared with the first one (a connection that carries no SETUP at all counts as different); non-trivial = a request issued before connect() returned, a sub-second period, or a rejected setup; distinct = distinct case')
    assumptions = []

    def cases(self, rng, tier):
        from rsocket.extensions.mimetypes import WellKnownMimeTypes
        names = [bytes(m.value.name) for m in WellKnownMimeTypes if m.value.id >= 0]
        out = []
        n = 600 if tier == 'quick' else 8000
        for _ in range(n):
            def period():
                return rng.choice([500_000, 1_000, 1_500_000, 2_500_000, 600_000_000, 999_000, 1_001_000, rng.randint(1, 5_000) * 1000, rng.randint(1, 3_000_000),
                                   250_000, 86_400_000_000, 1_499, 500, 1_500,
                                   2_592_000_000_000, (2 ** 31) * 1000, (2 ** 32 - 1) * 1000])      # 30 days, 2^31 ms, the 32-bit maximum
            def enc():
                k = rng.choice(['enum', 'bytes', 'str', 'custom'])
                if k == 'custom':
                    return {'as': 'bytes', 'name': bytes(97 + rng.randrange(26) for _ in range(rng.choice([1, 5, 127]))).hex()}
                return {'as': k, 'name': rng.choice(names).hex()}
            out.append({'kind': 'fields', 'reconnects': rng.choice([0, 0, 1, 2]), 'ka': period(), 'life': period(), 'denc': enc(), 'mdenc': enc(), 'lease': rng.random() < 0.4,
                        'payload': rng.choice([None, {'d': 'aa', 'md': ''}, {'d': '', 'md': 'bbcc'}, {'d': '0102', 'md': '03'}]),
                        # how each earlier connection ended, and whether the transports' connect() suspends
                        'causes': [rng.choice(['healthy', 'eof', 'timeout', 'timeout']) for _ in range(2)], 'c': rng.choice([0, 0, 1, 3])})
        for _ in range(n):
            p, c = rng.randint(0, 3), rng.randint(0, 4)
            ticks = p + c + 4
            reqs = sorted(rng.randint(0, ticks) for _ in range(rng.choice([0, 1, 1, 2, 3])))
            case = {'kind': 'order', 'p': p, 'c': c, 'reqs': reqs, 'kinds': [rng.choice(['rr', 'fnf', 'stream', 'mp']) for _ in reqs]}
            if rng.random() < 0.25:
                # a client that grants leases itself: the publisher may grant inside subscribe() or from a task started then, i.e. while the
                # transport is still connecting — the LEASE must still follow the SETUP (requests are left out: they would be lease-gated)
                case.update(reqs=[], kinds=[], lease_pub=rng.choice(['subscribe', 'task', 'task2']))
            out.append(case)
        for _ in range(n // 3):
            out.append({'kind': 'srv', 'lp': rng.random() < 0.5,
                        'frames': [{'ty': rng.choice(['SETUP', 'SETUP', 'SETUP', 'RESUME']), 'resume': rng.random() < 0.3, 'lease': rng.random() < 0.5,
                                    'beh': rng.choice(['k', 'k', 'x']), 'data': [rng.randint(1, 250)],
                                    'token': rng.choice([None, '', '61', bytes(rng.getrandbits(8) for _ in range(16)).hex(), 'f0f1f2ff', 'c3a1f0e2'])} for _ in range(rng.randint(1, 3))]})
        return out

    def run_impl(self, case):
        return detloop.run(getattr(self, '_' + case['kind']), case)

    async def _fields(self, loop, case):
        from rsocket.payload import Payload
        kw = dict(data_encoding=enc_value(case['denc']), metadata_encoding=enc_value(case['mdenc']), honor_lease=case['lease'])
        if case['payload'] is not None:
            kw['setup_payload'] = Payload(bytes.fromhex(case['payload']['d']), bytes.fromhex(case['payload']['md']))
        R = clientrun.ClientRun(loop, n_transports=3 if case.get('reconnects') else 1, connect_ticks=case.get('c', 0), **kw)
        R.ka_ms, R.life_ms = case['ka'] / 1000.0, case['life'] / 1000.0
        c = R.build()
        await c.connect()
        await loop.settle()
        first = R.transports[0].sent[0]
        later = []
        from harness import simnet
        for k in range(case.get('reconnects', 0)):
            # every connection of the client opens with the same SETUP, however the previous one ended
            cause = (case.get('causes') or ['healthy', 'healthy'])[k]
            if cause == 'timeout' and not (R.life_ms <= 20_000 and R.life_ms / max(R.ka_ms, 0.001) <= 200):
                cause = 'healthy'        # (a silent server for days of virtual time with a millisecond keepalive period: too many timer events)
            nconnects = R.log.count('C')
            if cause == 'timeout':
                # the server falls silent; the application reconnects from its keepalive-timeout callback
                R.auto_reconnect_on_timeout = True
                for _ in range(6):
                    await loop.advance(R.life_ms + R.ka_ms + 1)
                    if R.log.count('C') > nconnects:
                        break
                R.auto_reconnect_on_timeout = False
            else:
                if cause == 'eof':
                    R.transports[k].deliver(simnet.EOF_MARK)
                    await loop.settle()
                await c.reconnect()
            for _ in range(200):
                await asyncio.sleep(0)
                if R.log.count('C') > nconnects:
                    break
            await loop.settle()
            tk = R.transports[k + 1]
            later.append(tk.sent[0][1] if tk.sent else None)
        try:
            await c.close()
        except Exception:
            pass
        return {'dump': first[1], 'hex': first[3].hex(), 'n_setup': sum(1 for e in R.transports[0].sent if e[1].startswith('SETUP')), 'later': later}

    async def _order(self, loop, case):
        from rsocket.payload import Payload
        kw = {}
        if case.get('lease_pub'):
            from rsocket.lease import DefinedLease
            from datetime import timedelta
            mode = case['lease_pub']

            class Pub:
                def subscribe(self, subscriber):
                    lease = DefinedLease(maximum_request_count=3, maximum_lease_time=timedelta(seconds=5))
                    if mode == 'subscribe':
                        subscriber.on_next(lease)
                    else:
                        async def later():
                            for _ in range(0 if mode == 'task' else 2):
                                await asyncio.sleep(0)
                            subscriber.on_next(lease)
                        asyncio.ensure_future(later())
            kw = dict(honor_lease=True, lease_publisher=Pub())
        R = clientrun.ClientRun(loop, n_transports=1, provider_ticks=case['p'], connect_ticks=case['c'], ka_ms=100000, life_ms=1000000, **kw)
        c = R.build()
        task = asyncio.ensure_future(c.connect())
        await asyncio.sleep(0)          # connect() has started: "while connecting" begins here
        errors = []
        ticks = case['p'] + case['c'] + 5
        for tick in range(ticks + 1):
            for when, kind in zip(case['reqs'], case['kinds']):
                if when == tick:
                    try:
                        if kind == 'rr':
                            c.request_response(Payload(b'x'))
                        elif kind == 'fnf':
                            c.fire_and_forget(Payload(b'y'))
                        elif kind == 'stream':
                            from harness.engine import RecSubscriber

                            class S:
                                def on_subscribe(self, s): pass
                                def on_next(self, v, is_complete=False): pass
                                def on_complete(self): pass
                                def on_error(self, e): pass
                            c.request_stream(Payload(b'z')).subscribe(S())
                        else:
                            c.metadata_push(b'm')
                    except Exception as e:
                        errors.append('%s at tick %d: %s' % (kind, tick, type(e).__name__))
            await asyncio.sleep(0)
        await loop.settle()
        await task
        await loop.settle()
        evs, sends, anomalies = R.model_events()
        wire = [e[1].split(' ')[0] for e in R.transports[0].sent]
        try:
            await c.close()
        except Exception:
            pass
        return {'events': evs, 'sends': sends, 'anomalies': anomalies, 'wire': wire, 'errors': errors}

    async def _srv(self, loop, case):
        H = engine.EngineRun(loop, 'server', lease_publisher=case['lp'])
        await H.start()
        for f in case['frames']:
            H.apply({'op': 'recv', 'frame': {'ty': f['ty'], 'sid': 0, 'respond': f['resume'], 'complete': f['lease'], 'data': f['data'], 'token': f.get('token')}, 'beh': f['beh']})
            await loop.settle()
        await H.finish()
        return {'steps': H.steps()}

    def model_lines(self, case, obs):
        if case['kind'] == 'fields':
            def name(e):
                return e['name']
            p = case['payload'] or {'d': '', 'md': ''}
            return ['setup ka=%d life=%d denc=%s mdenc=%s lease=%d d=%s md=%s' % (case['ka'], case['life'], name(case['denc']), name(case['mdenc']), case['lease'],
                                                                              p['d'] or '-', p['md'] or '-')]
        if case['kind'] == 'order':
            if case.get('lease_pub'):
                return []
            evs = [e for e in obs['events'] if e != 'QS-LATE']
            return ['cli ' + ' '.join(evs)]
        return ['eng 2 %d %s' % (1 if case['lp'] else 0, ' '.join(m for m, _ in obs['steps']))]

    def compare(self, case, obs, answers):
        if not answers:
            return None
        a = answers[0]
        if case['kind'] == 'fields':
            dump, hexs = a.split(' | ')
            whole = case['ka'] % 1000 == 0 and case['life'] % 1000 == 0
            if whole and (obs['dump'] != dump or obs['hex'] != hexs):
                return 'SETUP: impl %s / model %s' % (obs['dump'], dump)
            if not whole:
                # compare everything but the two millisecond fields
                strip = lambda d: ' '.join(x for x in d.split(' ') if not x.startswith('ka=') and not x.startswith('life='))
                if strip(obs['dump']) != strip(dump):
                    return 'SETUP: impl %s / model %s' % (obs['dump'], dump)
            return None
        if case['kind'] == 'order':
            if obs['anomalies']:
                return 'life-cycle: %s' % obs['anomalies']
            sent = a.split(' | ')[0].split(' ') if a.split(' | ')[0] else []
            if sent != obs['sends']:
                return 'frames handed to the transport: impl %s / model %s' % (obs['sends'], sent)
            return None
        body = a.split(' || ')[0]
        for (m, outs), ms in zip(obs['steps'], body.split(' | ')):
            if outs != engine.canon_model_step(ms):
                return 'server: step %s impl %s / model %s' % (m, outs, ms)

    def oracle(self, case, obs):
        fails = []
        if case['kind'] == 'fields':
            for k, dump in enumerate(obs.get('later') or []):
                if dump != obs['dump']:
                    fails.append({'signature': 'setup-differs-after-reconnect', 'what': 'connection %d opens with %s, the first one with %s' % (k + 2, dump, obs['dump'])})
            d = dict(x.split('=', 1) for x in obs['dump'].split(' ')[1:])
            # the two periods are judged on the bytes that went out (6 header bytes, 4 version bytes, then two 32-bit words), not on the frame object
            raw = bytes.fromhex(obs['hex'])
            wire = {'ka': int.from_bytes(raw[10:14], 'big'), 'life': int.from_bytes(raw[14:18], 'big')} if len(raw) >= 18 else {}
            for key, us in (('ka', case['ka']), ('life', case['life'])):
                got = wire.get(key, int(d[key]))
                if us % 1000 == 0:
                    if got != us // 1000:
                        fails.append({'signature': 'setup-period-not-in-milliseconds', 'what': 'configured %s = %d us, SETUP announces %d ms' % (key, us, got)})
                elif got not in (us // 1000, us // 1000 + 1):
                    fails.append({'signature': 'setup-period-not-in-milliseconds', 'what': 'configured %s = %d us, SETUP announces %d ms' % (key, us, got)})
            if d['ver'] != '1.0':
                fails.append({'signature': 'setup-version', 'what': 'version %s' % d['ver']})
            if d['denc'] != case['denc']['name'] or d['mdenc'] != case['mdenc']['name']:
                fails.append({'signature': 'setup-encodings', 'what': 'SETUP encodings %s/%s, configured %s/%s' % (d['denc'], d['mdenc'], case['denc']['name'], case['mdenc']['name'])})
            if (d['L'] == '1') != case['lease']:
                fails.append({'signature': 'setup-lease-flag', 'what': 'lease flag %s, configured %s' % (d['L'], case['lease'])})
            p = case['payload'] or {'d': '', 'md': ''}
            if d['d'] != (p['d'] or '-') or d['md'] != (p['md'] or '-'):
                fails.append({'signature': 'setup-payload', 'what': 'SETUP payload %s/%s, configured %s' % (d['d'], d['md'], p)})
            if obs['n_setup'] != 1:
                fails.append({'signature': 'setup-count', 'what': '%d SETUP frames on the connection' % obs['n_setup']})
        elif case['kind'] == 'order':
            w = obs['wire']
            if w and w[0] != 'SETUP':
                fails.append({'signature': 'frame-before-setup', 'what': 'provider suspends %d, connect() suspends %d, requests at ticks %s: wire %s' % (case['p'], case['c'], case['reqs'], w[:5])})
            if w.count('SETUP') > 1:
                fails.append({'signature': 'setup-count', 'what': 'wire %s' % w[:6]})
            if obs['errors']:
                fails.append({'signature': 'request-while-connecting-raised', 'what': str(obs['errors'][:2])})
        else:
            for (m, outs), f in zip(obs['steps'], case['frames']):
                if f['ty'] == 'RESUME':
                    exp = ['S:ERROR:0:0000:0:4:-']
                elif f['resume'] or (f['lease'] and not case['lp']):
                    exp = ['S:ERROR:0:0000:0:2:-']
                elif f['beh'] == 'x':
                    exp = ['HC:SETUP:%d' % f['data'][0], 'S:ERROR:0:0000:0:3:-']
                else:
                    exp = ['HC:SETUP:%d' % f['data'][0]]
                got = [t for t in outs if not t.startswith('S:LEASE')]
                if got != exp:
                    fails.append({'signature': 'server-setup-decision', 'what': '%s -> %s, expected %s' % (m, outs, exp)})
        return fails

    def nontrivial(self, case, obs):
        if case['kind'] == 'fields':
            return json.dumps(case, sort_keys=True) if (case['ka'] % 1000000 or case['life'] % 1000000) else None
        if case['kind'] == 'order':
            return json.dumps(case, sort_keys=True) if case.get('lease_pub') or (case['reqs'] and min(case['reqs']) <= case['p'] + case['c']) else None
        return json.dumps(case, sort_keys=True)

    def stats(self, case, obs):
        yield 'kind=' + case['kind']
        if case['kind'] == 'order':
            yield 'provider-suspends=%d' % case['p']
            yield 'connect-suspends=%d' % case['c']

    def shrink_candidates(self, case):
        if case['kind'] == 'order':
            for i in range(len(case['reqs'])):
                yield dict(case, reqs=case['reqs'][:i] + case['reqs'][i + 1:], kinds=case['kinds'][:i] + case['kinds'][i + 1:])
            if case['p']:
                yield dict(case, p=case['p'] - 1)
            if case['c']:
                yield dict(case, c=case['c'] - 1)
        if case['kind'] == 'srv' and len(case['frames']) > 1:
            for i in range(len(case['frames'])):
                yield dict(case, frames=case['frames'][:i] + case['frames'][i + 1:])


PROP = C16()
