"""C08 — frames emitted are legal RSocket for the emitter's role (wire monitor over the endpoint's own sends
and receptions, under a protocol-legal peer and a reactive-streams-legal application)."""
from harness.engineprop import EngineProp, parse_send, parse_recv

REQ = {'REQUEST_RESPONSE': 'rr', 'REQUEST_STREAM': 'st', 'REQUEST_CHANNEL': 'ch', 'REQUEST_FNF': 'fnf'}
ALLOWED = {
    ('rr', 'req'): {'REQUEST_RESPONSE', 'CANCEL'}, ('rr', 'resp'): {'PAYLOAD', 'ERROR'},
    ('st', 'req'): {'REQUEST_STREAM', 'REQUEST_N', 'CANCEL'}, ('st', 'resp'): {'PAYLOAD', 'ERROR'},
    ('ch', 'req'): {'REQUEST_CHANNEL', 'PAYLOAD', 'REQUEST_N', 'CANCEL', 'ERROR'}, ('ch', 'resp'): {'PAYLOAD', 'REQUEST_N', 'CANCEL', 'ERROR'},
    ('fnf', 'req'): {'REQUEST_FNF'}, ('fnf', 'resp'): {'ERROR'},
}
CONNECTION_LEVEL = {'SETUP', 'KEEPALIVE', 'LEASE', 'METADATA_PUSH', 'RESUME', 'RESUME_OK'}


def monitor(obs, own_parity):
    """-> list of (signature, what)"""
    out = []
    streams = {}
    for idx, (marker, outs) in enumerate(obs['steps']):
        if marker.startswith('RECV:'):
            f = parse_recv(marker)
            sid = f['sid']
            if sid != 0:
                if f['ty'] in REQ and sid not in streams:
                    streams[sid] = dict(t=REQ[f['ty']], role='resp', own_complete=False, own_term=None, peer_complete=f['ty'] == 'REQUEST_CHANNEL' and f['complete'],
                                        first_sent=False)
                elif sid in streams:
                    s = streams[sid]
                    if (f['ty'] == 'PAYLOAD' and f['complete']) or f['ty'] == 'ERROR':
                        s['peer_complete'] = True
                    if f['ty'] == 'CANCEL' and s['role'] == 'req':
                        s['peer_cancelled_us'] = True
        for t in outs:
            if not t.startswith('S:'):
                continue
            f = parse_send(t)
            sid, ty = f['sid'], f['ty']
            where = 'step %d (%s): %s' % (idx, marker, t)
            if sid == 0:
                if ty not in CONNECTION_LEVEL and ty != 'ERROR':
                    out.append(('stream-frame-on-stream-0', where))
                continue
            if ty in CONNECTION_LEVEL:
                out.append(('connection-frame-on-stream', where))
                continue
            s = streams.get(sid)
            if s is None:
                if ty not in REQ:
                    out.append(('frame-on-unopened-stream:' + ty, where))
                    continue
                if sid % 2 != own_parity:
                    out.append(('opened-stream-wrong-parity', where))
                s = streams[sid] = dict(t=REQ[ty], role='req', own_complete=ty == 'REQUEST_CHANNEL' and f['complete'] or ty in ('REQUEST_RESPONSE', 'REQUEST_STREAM', 'REQUEST_FNF'),
                                        own_term=None, peer_complete=False, first_sent=True)
                if ty == 'REQUEST_FNF':
                    s['own_term'] = 'done'
                if ty in ('REQUEST_STREAM', 'REQUEST_CHANNEL') and not (0 < f['n'] < 2 ** 32):      # positive, as stated (an application that asks for 2^31 gets 2^31 in the 32-bit field)
                    out.append(('non-positive-initial-request-n', where))
                continue
            if ty in REQ:
                out.append(('second-request-on-stream', where))
                continue
            if ty not in ALLOWED[(s['t'], s['role'])]:
                out.append(('type-not-allowed-for-role:%s-%s-%s' % (s['t'], s['role'], ty), where))
                continue
            if s['own_term'] in ('ERROR', 'CANCEL'):
                kind = 'channel-half-close' if s['t'] == 'ch' else 'emission'
                out.append(('%s:emits-%s-after-own-%s' % (kind, ty, s['own_term']), where))
            elif s['own_term'] == 'done' or (s['own_complete'] and s['peer_complete'] and not (s['t'] == 'rr' and s['role'] == 'resp')):
                out.append(('emission-after-both-directions-complete:' + ty, where))
            elif ty == 'PAYLOAD' and s['own_complete'] and s['role'] == 'resp' or (ty == 'PAYLOAD' and s['t'] == 'ch' and s['own_complete']):
                out.append(('payload-after-own-complete', where))
            if ty == 'PAYLOAD' and f['complete']:
                s['own_complete'] = True
            if ty == 'ERROR':
                s['own_term'] = 'ERROR'
            if ty == 'CANCEL' and s['role'] == 'req':
                s['own_term'] = 'CANCEL'
    return out


def wire_monitor(wire, own_parity, channel_sids=()):
    """judges the frames in the order they actually reached Transport.send_frame (after the sender's fragmentation and queue
    cycling), using only facts the emitter decides alone: a stream it opens starts with the request frame; a fragment with FOLLOWS is
    continued by a PAYLOAD fragment before anything else on that stream; nothing follows its own CANCEL / ERROR on a stream"""
    out = []
    st = {}
    for idx, t in enumerate(wire):
        f = parse_send(t)
        sid, ty = f['sid'], f['ty']
        if sid == 0:
            continue
        s = st.get(sid)
        where = 'wire position %d: %s' % (idx, t[:60])
        if s is None:
            s = st[sid] = {'kind': 'ch' if sid in channel_sids else REQ.get(ty), 'own': sid % 2 == own_parity, 'follows': False, 'term': None}
            if s['own'] and ty not in REQ:
                out.append(('wire:frame-before-request-on-own-stream:' + ty, where))
        else:
            if s['follows'] and not (ty == 'PAYLOAD'):
                out.append(('wire:frame-between-fragments:' + ty, where + ' while a fragmented frame of the stream is incomplete'))
            if s['term'] and not s['follows']:
                kind = 'channel-half-close' if s['kind'] == 'ch' else 'wire'
                out.append(('%s:emits-%s-after-own-%s' % (kind, ty, s['term']), where))
            elif ty == 'PAYLOAD' and s.get('own_complete'):
                # fragment level: COMPLETE belongs on the last fragment only; a PAYLOAD (fragment) after a frame that carried COMPLETE is a
                # payload after the endpoint completed its sending direction
                out.append(('wire:payload-after-own-complete', where))
        if f.get('complete') and ty in ('PAYLOAD', 'REQUEST_CHANNEL'):
            s['own_complete'] = True
        s['follows'] = f['follows']
        if not f['follows']:
            # a completed frame: its type is the first fragment's, remembered in 'cur'
            cur = s.pop('cur', ty)
            if cur == 'ERROR' or ty == 'ERROR':
                s['term'] = s['term'] or 'ERROR'
            if ty == 'CANCEL' and s['own']:
                s['term'] = s['term'] or 'CANCEL'
        elif 'cur' not in s:
            s['cur'] = ty
    return out


class C08(EngineProp):
    id = 'C08'
    lean_modules = ['RSocketModel.Props.C08', 'RSocketModel.Props.C05Sites']
    profiles = ['legal', 'legal', 'cancel', 'loss']
    technique = 'Lean 4 proof (per-stream wire monitor as an invariant of the engine model) + event-level differential correspondence'
    level_text = ('PARTIAL. Kernel-checked for every reachable state of the engine model and every event: c08_opens_with_request_own_parity (fresh non-zero id of own parity, the only frame queued is the request), '
                  'c08_positive_initial_request_n, c08_connection_frames_on_stream_zero (both over all runs, via the invariant Inv08 carried by Ext), c08_types_per_role_api, c08_types_on_receive, c08_no_frames_on_loss, '
                  'c08_unregistered_stream_silent_partial, c08_own_terminal_unregisters and c08_nothing_after_own_terminal_from_peer (request-response / request-stream, both roles: queueing the own terminal frame unregisters the stream and nothing the peer sends afterwards makes the endpoint emit on it again), c08_request_frame_precedes_on_subscribe (every requester entry point that hands out the subscription has queued the request frame immediately before: the ordering defect F18 repaired). On the model of the stream sources (Credit.lean, compared with each real source behind a real responder): c08_source_nothing_after_terminal (every source, every interleaving of credit / producer / feeder / cancel events: once a terminal signal has been handed over, no element and no second terminal follows - no ERROR after an element flagged complete), c08_source_stops_at_flagged_element. The clause "after its own ERROR / requester CANCEL it emits nothing further on that stream" is FALSE of the code for request-channel '
                  '(c08_half_close_counterexample is the model witness; the check replays it on the implementation: known finding F16) and for lease-held requests (F10, client scenario, not in the engine model); '
                  'for those the evidence is the wire monitor over generated histories only. SETUP first and once is C16 (c16_*), lease gating C14.')
    level_note = 'Trusted: as C07. SETUP-first is checked by C16; lease-gated requests by C14.'
    design_ref = '§5 C08'
    rule = EngineProp.rule if hasattr(EngineProp, 'rule') else ''
    assumptions = ['the peer is protocol-legal and the application obeys reactive-streams']

    def cases(self, rng, tier):
        out = super().cases(rng, tier)
        # "a client's first frame on a connection is SETUP, sent once": the connect-order scenarios of C16 (requests and lease grants issued
        # while the transport is still connecting), judged here for this clause
        from harness.props import c16
        for c in c16.PROP.cases(rng, 'quick'):
            if c['kind'] == 'order':
                out.append({'kind': 'setup-order', 'role': 'client', 'profile': 'setup-order', 'c16': c})
                if len([1 for x in out if x.get('kind') == 'setup-order']) >= (60 if tier == 'quick' else 1500):
                    break
        # lease-gated requests: other frames of the stream must not overtake the request held back by the lease
        for _ in range(40 if tier == 'quick' else 1000):
            out.append({'role': 'client', 'profile': 'lease', 'kind': 'lease', 'kinds': [rng.choice(['stream', 'channel', 'rr']) for _ in range(rng.randint(1, 3))],
                        'acts': [rng.choice(['request_n', 'cancel', 'none']) for _ in range(3)], 'lease_first': rng.random() < 0.3})
        # the library's own subscriber (CollectorSubscriber behind AwaitableRSocket) as the application: what it asks for and when is
        # the library's doing, so the frames it causes are judged like everything else the endpoint emits
        for _ in range(60 if tier == 'quick' else 1500):
            L = rng.choice([1, 2, 3, 5])
            out.append({'role': 'client', 'profile': 'collector', 'kind': 'collector', 'L': L, 'k': rng.choice([L, 2 * L, 3 * L, L + 1, 1, 4]),
                        'end': rng.choice(['flag', 'flag', 'complete', 'error']), 'channel': rng.random() < 0.3})
        # a responder that answers with one of the library's own stream sources (generator, async generator, Rx adapters), also one whose
        # generator fails after its last element: what the sources make the endpoint emit is judged like everything else
        from harness import sources as SRC
        for i in range(40 if tier == 'quick' else 800):
            count = rng.choice([1, 2, 4])
            out.append({'role': 'server', 'profile': 'source', 'kind': 'source', 'src': SRC.KINDS[i % len(SRC.KINDS)], 'count': count, 'flagged': rng.random() < 0.6,
                        'failing': rng.random() < 0.6, 'n0': rng.choice([1, count, count + 3, 2 ** 31 - 1]), 'more': rng.choice([0, 2, 5]), 'channel': rng.random() < 0.3})
        for i in range(30 if tier == 'quick' else 600):
            out.append({'role': 'client', 'profile': 'latepub', 'kind': 'latepub', 'ticks': rng.choice([0, 1, 1, 3]), 'count': rng.choice([0, 1, 2, 5]),
                        'end': rng.choice(['flag', 'complete', 'none']), 'grants': [rng.choice([1, 2, 5]) for _ in range(rng.randint(1, 3))]})
        # reconnects: a new connection carries only streams it opened itself; what is left over from the previous connection (publishers of
        # its channels, its requesters) must have been shut down and must not emit frames with the old stream ids on the new connection
        for _ in range(60 if tier == 'quick' else 1500):
            out.append({'role': 'client', 'profile': 'reconnect', 'kind': 'reconnect',
                        'open': [rng.choice(['channel', 'channel', 'stream', 'rr']) for _ in range(rng.randint(1, 3))],
                        'credit': rng.choice([0, 3, 2 ** 31 - 1]), 'cause': rng.choice(['eof', 'error', 'healthy']), 'via': rng.choice([None, 'plain', 'suspend']),
                        'late': [rng.choice(['next', 'complete', 'error', 'next2', 'none']) for _ in range(3)], 'new_requests': rng.randint(0, 2), 'rounds': rng.randint(1, 2),
                        # the write side of the old connection breaks first and the application goes on using its open streams for a moment:
                        # frames queued for the dead connection must not come out on the next one
                        'wfail': rng.random() < 0.4})
        return out

    def run_impl(self, case):
        if case.get('kind') == 'setup-order':
            from harness.props import c16
            return c16.PROP.run_impl(case['c16'])
        if case.get('kind') == 'lease':
            from harness import detloop
            return detloop.run(self._lease, case)
        if case.get('kind') == 'reconnect':
            from harness import detloop
            return detloop.run(self._reconnect, case)
        if case.get('kind') == 'collector':
            from harness import detloop
            return detloop.run(self._collector, case)
        if case.get('kind') == 'source':
            from harness import detloop
            return detloop.run(self._source, case)
        if case.get('kind') == 'latepub':
            from harness import detloop
            return detloop.run(self._latepub, case)
        return super().run_impl(case)

    async def _source(self, loop, case):
        from harness import sources, simnet
        from harness.engine import frame_token, recv_token, build_frame
        from rsocket.rsocket_server import RSocketServer
        from rsocket.request_handler import BaseRequestHandler
        flagged = case['flagged'] and case['src'] in ('gen', 'agen')
        src = sources.make_source(case['src'], case['count'], flagged, case['failing'])

        class H(BaseRequestHandler):
            async def request_stream(self, payload):
                return src

            async def request_channel(self, payload):
                return src, None
        t = simnet.ScriptedTransport(loop)
        server = RSocketServer(t, handler_factory=H)
        await loop.settle()
        steps = []

        async def feed(spec):
            n0 = len(t.sent)
            t.deliver(build_frame(spec).serialize())
            await loop.settle()
            await loop.advance(20)
            steps.append([recv_token(spec, 'k'), [frame_token(e[2]) for e in t.sent[n0:]]])
        await feed({'ty': 'REQUEST_CHANNEL' if case['channel'] else 'REQUEST_STREAM', 'sid': 1, 'n': case['n0'], 'data': [9], 'complete': True})
        if case['more']:
            await feed({'ty': 'REQUEST_N', 'sid': 1, 'n': case['more']})
        try:
            await server.close()
        except Exception:
            pass
        return {'steps': steps, 'final': {'table': [], 'cache': []}, 'script': [], 'extra': None, 'kinds': [], 'sids': []}

    async def _collector(self, loop, case):
        import asyncio
        from harness import clientrun
        from harness.engine import frame_token, recv_token
        from rsocket.awaitable.awaitable_rsocket import AwaitableRSocket
        from rsocket.payload import Payload
        from rsocket import frame as F
        R = clientrun.ClientRun(loop, n_transports=1, ka_ms=10_000_000, life_ms=100_000_000)
        c = R.build()
        await c.connect()
        await loop.settle()
        t = R.transports[0]
        base = len(t.sent)
        ars = AwaitableRSocket(c)
        call = ars.request_channel if case['channel'] else ars.request_stream
        task = asyncio.ensure_future(call(Payload(b'q'), limit_rate=case['L']))
        await loop.settle()
        steps = [['REQUEST', [frame_token(e[2]) for e in t.sent[base:]]]]
        req = [e[2] for e in t.sent[base:] if isinstance(e[2], (F.RequestStreamFrame, F.RequestChannelFrame))]
        if req:
            sid = req[0].stream_id
            evs = ['n0'] * case['k']
            if case['end'] == 'flag' and evs:
                evs[-1] = 'n1'
            elif case['end'] == 'complete':
                evs.append('c')
            elif case['end'] == 'error':
                evs.append('e')
            for i, e in enumerate(evs):
                n0 = len(t.sent)
                if e[0] == 'n':
                    spec = {'ty': 'PAYLOAD', 'sid': sid, 'data': [1 + i % 200], 'next': True, 'complete': e == 'n1'}
                elif e == 'c':
                    spec = {'ty': 'PAYLOAD', 'sid': sid, 'data': [], 'complete': True}
                else:
                    spec = {'ty': 'ERROR', 'sid': sid, 'code': 513}
                from harness.engine import build_frame
                t.deliver(build_frame(spec).serialize())
                await loop.settle()
                steps.append([recv_token(spec, 'k'), [frame_token(x[2]) for x in t.sent[n0:]]])
        if not task.done():
            task.cancel()
        try:
            await c.close()
        except Exception:
            pass
        return {'steps': steps, 'final': {'table': [], 'cache': []}, 'script': [], 'extra': None, 'kinds': [], 'sids': []}

    async def _latepub(self, loop, case):
        # a channel requester whose application publisher signals on_subscribe later than inside subscribe() (reactive-streams allows it)
        import asyncio
        from harness import clientrun
        from harness.engine import frame_token, recv_token, build_frame
        from rsocket.payload import Payload
        from rsocket import frame as F
        from reactivestreams.publisher import Publisher
        from reactivestreams.subscription import Subscription
        from reactivestreams.subscriber import DefaultSubscriber
        R = clientrun.ClientRun(loop, n_transports=1, ka_ms=10_000_000, life_ms=100_000_000)
        c = R.build()
        await c.connect()
        await loop.settle()
        t = R.transports[0]
        base = len(t.sent)

        class Late(Publisher, Subscription):
            def __init__(self):
                self.sub, self.left, self.cancelled, self.done = None, case['count'], False, False

            def subscribe(self, subscriber):
                self.sub = subscriber

                async def later():
                    for _ in range(case['ticks']):
                        await asyncio.sleep(0)
                    subscriber.on_subscribe(self)
                if case['ticks']:
                    asyncio.ensure_future(later())
                else:
                    subscriber.on_subscribe(self)

            def request(self, n):
                while n > 0 and self.left > 0 and not self.cancelled:
                    self.left -= 1
                    n -= 1
                    last = self.left == 0 and case['end'] == 'flag'
                    self.sub.on_next(Payload(b'e%d' % self.left), last)
                    self.done = self.done or last
                if self.left == 0 and not self.done and not self.cancelled and case['end'] == 'complete':
                    self.done = True
                    self.sub.on_complete()

            def cancel(self):
                self.cancelled = True
        c.request_channel(Payload(b'q'), Late()).initial_request_n(3).subscribe(DefaultSubscriber())
        await loop.settle()
        steps = [['REQUEST', [frame_token(e[2]) for e in t.sent[base:]]]]
        req = [e[2] for e in t.sent[base:] if isinstance(e[2], F.RequestChannelFrame)]
        if req:
            sid = req[0].stream_id
            for n in case['grants']:
                n0 = len(t.sent)
                spec = {'ty': 'REQUEST_N', 'sid': sid, 'n': n}
                t.deliver(build_frame(spec).serialize())
                await loop.settle()
                steps.append([recv_token(spec, 'k'), [frame_token(x[2]) for x in t.sent[n0:]]])
        try:
            await c.close()
        except Exception:
            pass
        return {'steps': steps, 'final': {'table': [], 'cache': []}, 'script': [], 'extra': None, 'kinds': [], 'sids': []}

    async def _reconnect(self, loop, case):
        import asyncio
        from harness import clientrun, simnet
        from harness.engine import frame_token
        from rsocket.payload import Payload
        from rsocket import frame as F
        from rsocket.exceptions import RSocketTransportError
        R = clientrun.ClientRun(loop, n_transports=case['rounds'] + 1, ka_ms=10_000_000, life_ms=100_000_000)
        c = R.build()
        await c.connect()
        await loop.settle()

        class S:
            def __init__(self): self.subscription, self.ended = None, False
            def on_subscribe(self, s): self.subscription = s
            def on_next(self, v, is_complete=False): self.ended = self.ended or is_complete
            def on_complete(self): self.ended = True
            def on_error(self, e): self.ended = True

        class Pub:
            """a legal publisher: emits only within the credit it was given and never after cancel()"""
            def __init__(self):
                self.subscriber, self.cancelled, self.credit, self.done = None, False, 0, False

            def subscribe(self, subscriber):
                self.subscriber = subscriber
                pub = self

                class Sn:
                    def request(self, n): pub.credit += n
                    def cancel(self): pub.cancelled = True
                subscriber.on_subscribe(Sn())

            def act(self, a, tag):
                if self.cancelled or self.done or self.subscriber is None:
                    return
                if a in ('next', 'next2'):
                    for i in range(2 if a == 'next2' else 1):
                        if self.credit > 0:
                            self.credit -= 1
                            self.subscriber.on_next(Payload(b'late%d' % tag))
                elif a == 'complete':
                    self.done = True
                    self.subscriber.on_complete()
                elif a == 'error':
                    self.done = True
                    self.subscriber.on_error(RuntimeError('late'))
        pubs = []
        for rnd in range(case['rounds']):
            t = R.transports[rnd]
            n0 = len(t.sent)
            subs = []
            for k in case['open']:
                if k == 'channel':
                    p = Pub()
                    pubs.append(p)
                    subs.append(S())
                    c.request_channel(Payload(b'c'), publisher=p).subscribe(subs[-1])
                elif k == 'stream':
                    subs.append(S())
                    c.request_stream(Payload(b's')).subscribe(subs[-1])
                else:
                    c.request_response(Payload(b'r'))
            await loop.settle()
            if case['credit']:
                for e in list(t.sent[n0:]):
                    if isinstance(e[2], F.RequestChannelFrame):
                        fr = F.RequestNFrame()
                        fr.stream_id, fr.request_n = e[2].stream_id, case['credit']
                        t.deliver(fr.serialize())
                await loop.settle()
            if case.get('wfail'):
                t.fail_sends = True
                for _ in range(2):
                    for sb in subs:
                        if sb.subscription is not None and not sb.ended:
                            sb.subscription.request(1)       # the first one ends the sender; what follows stays in the queue
                    await loop.settle()
            via = case['via'] if case['cause'] in ('eof', 'error') else None
            if via:
                R.reconnect_in_on_close = True
                R.on_close_sleep_ms = 50 if via == 'suspend' else 0
            nconnects = R.log.count('C')
            if case['cause'] == 'eof':
                t.deliver(simnet.EOF_MARK)
                await loop.settle()
            elif case['cause'] == 'error':
                t.deliver(RSocketTransportError())
                await loop.settle()
            if via:
                R.reconnect_in_on_close = False
            else:
                await c.reconnect()
            for _ in range(200):
                await asyncio.sleep(0)
                if R.log.count('C') > nconnects:
                    break
            await loop.settle()
            await loop.advance(100)
            # what the previous connection left behind acts now, on the new connection
            for i, p in enumerate(pubs):
                p.act(case['late'][i % len(case['late'])], i)
            await loop.settle()
            for i in range(case['new_requests']):
                c.request_response(Payload(b'n%d' % i))
            await loop.settle()
        conns = [[frame_token(e[2]) for e in t.sent if not e[1].startswith('SETUP')] for t in R.transports]
        try:
            await c.close()
        except Exception:
            pass
        return {'steps': [['CONNECTION-%d' % i, toks] for i, toks in enumerate(conns)], 'final': {'table': [], 'cache': []}, 'script': [], 'extra': None, 'kinds': [], 'sids': [],
                'pubs_cancelled': [p.cancelled for p in pubs]}

    async def _lease(self, loop, case):
        from harness import clientrun
        from harness.engine import frame_token
        from rsocket.payload import Payload
        from rsocket import frame as F
        R = clientrun.ClientRun(loop, n_transports=1, ka_ms=10_000_000, life_ms=100_000_000, honor_lease=True)
        c = R.build()
        await c.connect()
        await loop.settle()
        t = R.transports[0]

        def lease():
            fr = F.LeaseFrame()
            fr.number_of_requests, fr.time_to_live = 10, 100000
            t.deliver(fr.serialize())

        class S:
            def on_subscribe(self, s): pass
            def on_next(self, v, is_complete=False): pass
            def on_complete(self): pass
            def on_error(self, e): pass
        if case['lease_first']:
            lease()
            await loop.settle()
        objs = []
        for k in case['kinds']:
            if k == 'stream':
                r = c.request_stream(Payload(b's'))
                r.subscribe(S())
            elif k == 'channel':
                r = c.request_channel(Payload(b'c'))
                r.subscribe(S())
            else:
                r = c.request_response(Payload(b'r'))
            objs.append((k, r))
        await loop.settle()
        for (k, r), a in zip(objs, case['acts']):
            if a == 'request_n' and k != 'rr':
                r.request(5)
            elif a == 'cancel':
                r.cancel()
            await loop.settle()
        if not case['lease_first']:
            lease()
            await loop.settle()
        toks = [frame_token(e[2]) for e in t.sent if not e[1].startswith('SETUP')]
        try:
            await c.close()
        except Exception:
            pass
        return {'steps': [['LEASE-SCENARIO', toks]], 'final': {'table': [], 'cache': []}, 'script': [], 'extra': None, 'kinds': [], 'sids': []}

    def _source_line(self, case):
        flagged = case['flagged'] and case['src'] in ('gen', 'agen')
        ev = ['r%d' % case['n0'], 'q'] + (['r%d' % case['more'], 'q'] if case['more'] else [])
        return 'credit flagged=%d failing=%d count=%d %s' % (flagged, case['failing'], case['count'], ' '.join(ev))

    def model_lines(self, case, obs):
        if case.get('kind') == 'source':
            return [self._source_line(case)]
        if case.get('kind') in ('lease', 'setup-order', 'reconnect', 'collector', 'source', 'latepub'):
            return []
        return super().model_lines(case, obs)

    def compare(self, case, obs, answers):
        if case.get('kind') == 'source':
            n, term, impl = 0, '-', []
            for marker, outs in obs['steps']:
                for t in outs:
                    p = t.split(':')
                    if p[0] == 'S' and p[1] == 'PAYLOAD':
                        n += 1 if p[3][2] == '1' else 0
                        term = 'c' if p[3][1] == '1' else term
                    elif p[0] == 'S' and p[1] == 'ERROR':
                        term = 'e'
                impl.append('%d%s' % (n, term))
            model = answers[0].split(' ')
            return None if impl == model else 'elements and terminal signal on the wire after each grant: impl %s / model %s (%s)' % (impl, model, self._source_line(case))
        if case.get('kind') in ('lease', 'setup-order', 'reconnect', 'collector', 'source', 'latepub'):
            return None
        return super().compare(case, obs, answers)

    def shrink_candidates(self, case):
        if case.get('kind') == 'setup-order':
            return
        if case.get('kind') == 'lease':
            for i in range(len(case['kinds'])):
                if len(case['kinds']) > 1:
                    yield dict(case, kinds=case['kinds'][:i] + case['kinds'][i + 1:], acts=case['acts'][:i] + case['acts'][i + 1:] + ['none'])
            return
        if case.get('kind') in ('collector', 'source', 'latepub'):
            return
        if case.get('kind') == 'reconnect':
            if case['rounds'] > 1:
                yield dict(case, rounds=1)
            if case['new_requests']:
                yield dict(case, new_requests=0)
            for i in range(len(case['open'])):
                if len(case['open']) > 1:
                    yield dict(case, open=case['open'][:i] + case['open'][i + 1:])
            return
        yield from super().shrink_candidates(case)

    def nontrivial(self, case, obs):
        if case.get('kind') == 'setup-order':
            import json
            return json.dumps(case['c16'], sort_keys=True)
        if case.get('kind') in ('lease', 'reconnect', 'collector', 'source', 'latepub'):
            import json
            return json.dumps(case, sort_keys=True) if any(toks for _, toks in obs['steps']) else None
        return super().nontrivial(case, obs)

    def stats(self, case, obs):
        if case.get('kind') == 'setup-order':
            yield 'kind=setup-order'
            return
        if case.get('kind') in ('collector', 'source', 'latepub'):
            yield 'kind=' + case['kind']
            return
        if case.get('kind') == 'reconnect':
            yield 'kind=reconnect'
            yield 'reconnect-cause=%s via=%s' % (case['cause'], case['via'])
            yield 'late-frames-on-new-connection=%d' % sum(1 for m, toks in obs['steps'][1:] for t in toks if not t.split(':')[2] == '0')
            return
        yield from super().stats(case, obs)

    def oracle(self, case, obs):
        if case.get('kind') == 'setup-order':
            from harness.props import c16
            return [f for f in c16.PROP.oracle(case['c16'], obs) if f['signature'] in ('frame-before-setup', 'setup-count')]
        parity = 0 if case['role'] == 'server' else 1
        seen = set()
        fails = []
        if case.get('kind') == 'reconnect':
            # every connection is judged on its own: stream ids mean nothing across connections
            found = []
            for marker, toks in obs['steps']:
                found += [(sig.replace('frame-on-unopened-stream:', 'frame-of-previous-connection-on-new-connection:') if marker != 'CONNECTION-0' else sig, what)
                          for sig, what in monitor({'steps': [[marker, toks]]}, parity)]
        else:
            found = monitor(obs, parity)
        if obs.get('final') and obs['final'].get('wire') is not None and case.get('kind') != 'lease':
            chans = {s for k, s in zip(obs.get('kinds', []), obs.get('sids', [])) if k in ('chReq', 'chResp')}
            found = found + wire_monitor(obs['final']['wire'], parity, chans)
        for sig, what in found:
            if case.get('kind') == 'lease' and not case['lease_first'] and sig.startswith('frame-on-unopened-stream:'):
                sig = 'lease-held-request-overtaken:' + sig.split(':')[1]
            if sig not in seen:
                seen.add(sig)
                fails.append({'signature': sig, 'what': what})
        return fails


C08.rule = ('as C07 (protocol-legal peer, legal application, races, loss); every frame the endpoint queues is judged by a per-stream monitor against the endpoint\'s own '
            'earlier sends and receptions on that stream; plus client scenarios: requests and lease grants issued while connecting (SETUP first, once), lease-held requests with request(n)/cancel() before the LEASE, '
            'the CollectorSubscriber behind AwaitableRSocket as the application (limit rate 1..5, stream lengths that are or are not a multiple of it, ended by a flagged element, COMPLETE or ERROR), and reconnects (server EOF / transport error / healthy; reconnect() from the harness or from inside on_close) with channels, streams and request-responses open whose publishers, if the library did not cancel them, emit on the new connection: in 40% of them the write side of the old connection breaks first and the application goes on granting credit on its open streams for a moment; each connection is judged on its own')
PROP = C08()
