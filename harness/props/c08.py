"""C08 — frames emitted are legal RSocket for the emitter's role (wire monitor over the endpoint's own sends
and receptions, under a protocol-legal peer and a reactive-streams-legal application)."""
from harness.engineprop import EngineProp, parse_send, parse_recv

REQ = {'REQUEST_RESPONSE': 'rr', 'REQUEST_STREAM': 'st', 'REQUEST_CHANNEL': 'ch', 'REQUEST_FNF': 'fnf'}
ALLOWED = {
    ('rr', 'req'): {'REQUEST_RESPONSE', 'CANCEL'}, ('rr', 'resp'): {'PAYLOAD', 'ERROR'},
    ('st', 'req'): {'REQUEST_STREAM', 'REQUEST_N', 'CANCEL'}, ('st', 'resp'): {'PAYLOAD', 'ERROR'},
    ('ch', 'req'): {'REQUEST_CHANNEL', 'PAYLOAD', 'REQUEST_N', 'CANCEL', 'ERROR'}, ('ch', 'resp'): {'PAYLOAD', 'REQUEST_N', 'CANCEL', 'ERROR'},
    ('fnf', 'req'): {'REQUEST_FNF'}, ('fnf', 'resp'): {'ERROR'},
}
CONNECTION_LEVEL = {'SETUP', 'KEEPALIVE', 'LEASE', 'METADATA_PUSH', 'RESUME', 'RESUME_OK'}


def monitor(obs, own_parity):
    """-> list of (signature, what)"""
    out = []
    streams = {}
    for idx, (marker, outs) in enumerate(obs['steps']):
        if marker.startswith('RECV:'):
            f = parse_recv(marker)
            sid = f['sid']
            if sid != 0:
                if f['ty'] in REQ and sid not in streams:
                    streams[sid] = dict(t=REQ[f['ty']], role='resp', own_complete=False, own_term=None, peer_complete=f['ty'] == 'REQUEST_CHANNEL' and f['complete'],
                                        first_sent=False)
                elif sid in streams:
                    s = streams[sid]
                    if (f['ty'] == 'PAYLOAD' and f['complete']) or f['ty'] == 'ERROR':
                        s['peer_complete'] = True
                    if f['ty'] == 'CANCEL' and s['role'] == 'req':
                        s['peer_cancelled_us'] = True
        for t in outs:
            if not t.startswith('S:'):
                continue
            f = parse_send(t)
            sid, ty = f['sid'], f['ty']
            where = 'step %d (%s): %s' % (idx, marker, t)
            if sid == 0:
                if ty not in CONNECTION_LEVEL and ty != 'ERROR':
                    out.append(('stream-frame-on-stream-0', where))
                continue
            if ty in CONNECTION_LEVEL:
                out.append(('connection-frame-on-stream', where))
                continue
            s = streams.get(sid)
            if s is None:
                if ty not in REQ:
                    out.append(('frame-on-unopened-stream:' + ty, where))
                    continue
                if sid % 2 != own_parity:
                    out.append(('opened-stream-wrong-parity', where))
                s = streams[sid] = dict(t=REQ[ty], role='req', own_complete=ty == 'REQUEST_CHANNEL' and f['complete'] or ty in ('REQUEST_RESPONSE', 'REQUEST_STREAM', 'REQUEST_FNF'),
                                        own_term=None, peer_complete=False, first_sent=True)
                if ty == 'REQUEST_FNF':
                    s['own_term'] = 'done'
                if ty in ('REQUEST_STREAM', 'REQUEST_CHANNEL') and not (0 < f['n'] < 2 ** 31):
                    out.append(('non-positive-initial-request-n', where))
                continue
            if ty in REQ:
                out.append(('second-request-on-stream', where))
                continue
            if ty not in ALLOWED[(s['t'], s['role'])]:
                out.append(('type-not-allowed-for-role:%s-%s-%s' % (s['t'], s['role'], ty), where))
                continue
            if s['own_term'] in ('ERROR', 'CANCEL'):
                kind = 'channel-half-close' if s['t'] == 'ch' else 'emission'
                out.append(('%s:emits-%s-after-own-%s' % (kind, ty, s['own_term']), where))
            elif s['own_term'] == 'done' or (s['own_complete'] and s['peer_complete'] and s['t'] != 'rr' and not (s['t'] == 'st' and s['role'] == 'req')):
                out.append(('emission-after-both-directions-complete:' + ty, where))
            elif ty == 'PAYLOAD' and s['own_complete'] and s['role'] == 'resp' or (ty == 'PAYLOAD' and s['t'] == 'ch' and s['own_complete']):
                out.append(('payload-after-own-complete', where))
            if ty == 'PAYLOAD' and f['complete']:
                s['own_complete'] = True
            if ty == 'ERROR':
                s['own_term'] = 'ERROR'
            if ty == 'CANCEL' and s['role'] == 'req':
                s['own_term'] = 'CANCEL'
    return out


class C08(EngineProp):
    id = 'C08'
    lean_modules = ['RSocketModel.Props.C08']
    profiles = ['legal', 'legal', 'cancel', 'loss']
    claimed = False   # until the Lean theorems land
    technique = 'Lean 4 proof (per-stream wire monitor as an invariant of the engine model) + event-level differential correspondence'
    level_text = 'see DESIGN.md §5 C08'
    level_note = 'Trusted: as C07. SETUP-first is checked by C16; lease-gated requests by C14.'
    design_ref = '§5 C08'
    rule = EngineProp.rule if hasattr(EngineProp, 'rule') else ''
    assumptions = ['the peer is protocol-legal and the application obeys reactive-streams']

    def oracle(self, case, obs):
        parity = 0 if case['role'] == 'server' else 1
        seen = set()
        fails = []
        for sig, what in monitor(obs, parity):
            if sig not in seen:
                seen.add(sig)
                fails.append({'signature': sig, 'what': what})
        return fails


C08.rule = ('as C07 (protocol-legal peer, legal application, races, loss); every frame the endpoint queues is judged by a per-stream monitor against the endpoint\'s own '
            'earlier sends and receptions on that stream')
PROP = C08()
