"""C19 — routed dispatch and the authentication gate. A real RoutingRequestHandler over a RequestRouter built
from a generated route table (any subset of the five routable types, with/without unknown-route handlers, handlers with
generated signatures) is called for requests whose composite metadata is generated entry by entry; compared with
`RSocketModel.Routing.dispatch` (which decodes the same metadata bytes with the C18 model)."""
import asyncio
import itertools
import json

from harness.core import Prop
from harness.props import c18

import contextvars

TYPES = ['r', 's', 'c', 'f', 'm']
_loop = None
LABEL = contextvars.ContextVar('c19_label', default='judged')      # which request a handler run belongs to


def loop():
    global _loop
    if _loop is None or _loop.is_closed():
        _loop = asyncio.new_event_loop()
        asyncio.set_event_loop(_loop)
    return _loop


def make_handler(hid, params, ty, log, classes=None):
    """`classes` (a dict): register bound methods of controller objects instead of plain functions - handlers with the same signature
    are methods of instances of one class, as in an application that builds one controller per tenant / per connection"""
    from rsocket.payload import Payload
    from rsocket.extensions.composite_metadata import CompositeMetadata
    names, sig = [], []
    for i, p in enumerate(params):
        nm = 'composite_metadata' if p[0] == 'c' else 'a%d' % i
        ann = {'e': '', 'p': ': Payload', 'm': ': CompositeMetadata', 'o': ': dict'}[p[1]]
        names.append(nm)
        sig.append(nm + ann)
    src = 'async def h(%s):\n    return _ran(%d, [%s])\n' % (', '.join(sig), hid, ', '.join(names))
    env = {'Payload': Payload, 'CompositeMetadata': CompositeMetadata}

    def _ran(h, args):
        kinds = []
        for a in args:
            if isinstance(a, CompositeMetadata):
                kinds.append('CM')
            elif isinstance(a, Payload):
                kinds.append('P')
            elif isinstance(a, tuple) and a and a[0] == 'DES':
                kinds.append('D')
            else:
                kinds.append('?')
        if LABEL.get() == 'judged':
            log.append((h, kinds))
        if ty == 'r':
            return Payload(b'ok')
        if ty == 's':
            return 'PUBLISHER'
        if ty == 'c':
            return ('PUBLISHER', 'SUBSCRIBER')
        return None
    env['_ran'] = _ran
    if classes is not None:
        key = (ty, json.dumps(params))
        if key not in classes:
            src = 'class K:\n    def __init__(self, hid):\n        self.hid = hid\n    async def h(%s):\n        return _ran(self.hid, [%s])\n' % (
                ', '.join(['self'] + sig), ', '.join(names))
            exec(src, env)
            classes[key] = env['K']
        return classes[key](hid).h
    exec(src, env)
    return env['h']


class C19(Prop):
    id = 'C19'
    lean_modules = ['RSocketModel.Props.C19', 'RSocketModel.Props.C18']
    technique = 'Lean 4 proof (decision logic stated outright: exact route, fallback, locality, gate, parameters) + differential correspondence over generated route tables and requests'
    level_text = ('c19_exact_route, c19_unknown_fallback, c19_error_is_local, c19_only_own_type, c19_auth_gate (every route table, interaction type, entry position) and '
                  'c19_params are kernel-checked on a transcription of _parse_and_route / RequestRouter.route / _collect_route_arguments composed with the C18 decoder; '
                  'the model is run against a real RoutingRequestHandler on the same metadata bytes.')
    level_note = ('Trusted: Lean kernel + standard axioms; inspect.signature; the verifier is an arbitrary function of (route, authentication entry) in the theorems and a fixed '
                  'scripted one in the correspondence.')
    design_ref = '§5 C19'
    rule = ('route tables: every subset of the five routable types registered for a route, independently every subset with an unknown-route handler (exhaustive 32x32 on a '
            'core request set) plus random tables with several routes and generated handler signatures (plain functions, or - a third of the tables - bound methods of several instances of one controller class); requests of all five types, route tags that are registered, unknown, outside ASCII (half of the requests name their route through helpers.route() with a str), or near misses of a registered name (white-space padding, other case, prefix, extension), with the route entry first/middle/last/absent/'
            'empty/duplicated, authentication none/accepted/rejected (simple and bearer), verifier configured or not (the scripted verifier suspends once), unparseable metadata; half of the random cases are preceded by 1..3 earlier requests on the same handler instance (same or other credentials / type / route), the last of them optionally still in flight when the judged request arrives; non-trivial = verifier configured or '
            'route not registered for the type; distinct = distinct (table, request)')
    assumptions = ['handlers are coroutine functions registered through the RequestRouter decorators']

    def cases(self, rng, tier):
        out = []
        # exhaustive cross product on a compact request set
        reqs = []
        for ty in TYPES:
            for route in ('72', '7a'):
                for auth in ('none', 'good', 'bad'):
                    reqs.append((ty, route, auth))
        sub = list(itertools.product([0, 1], repeat=5))
        step = 1 if tier == 'thorough' else 3
        k = 0
        for reg in sub:
            for unk in sub:
                for ver in ('none', 'std'):
                    k += 1
                    if k % step:
                        continue
                    for (ty, route, auth) in reqs[:: (1 if tier == 'thorough' else 2)]:
                        routes = [[t, '72', 10 + i, ['xp']] for i, t in enumerate(TYPES) if reg[i]]
                        unknown = [[t, 20 + i, ['xe']] for i, t in enumerate(TYPES) if unk[i]]
                        items = [{'k': 'route', 'tags': [route]}]
                        if auth != 'none':
                            items.insert(rng.randint(0, 1), {'k': 'bearer', 't': '67' if auth == 'good' else '62'})
                        out.append({'ty': ty, 'ver': ver, 'routes': routes, 'unknown': unknown, 'items': items, 'blob': None})
        n = 3000 if tier == 'quick' else 60000
        for _ in range(n):
            routes, unknown = [], []
            hid = 1
            names = ['72', '7a', '612f62', '78']
            if rng.random() < 0.3:
                # route names outside ASCII (their UTF-8 encoding is longer than their character count), one a prefix of the other
                names = names + ['7365c3b1616c', '7365c3b161', '636166c3a92e6d656e75']
            for t in TYPES:
                for rt in rng.sample(names, rng.randint(0, 3)):
                    routes.append([t, rt, hid, self._params(rng)])
                    hid += 1
                if rng.random() < 0.4:
                    unknown.append([t, hid, self._params(rng)])
                    hid += 1
            items = []
            for _ in range(rng.randint(0, 3)):
                items.append(rng.choice([{'k': 'raw', 'm': '782f79', 'c': '0102', 'enum': False}, {'k': 'mime', 'm': '6170706c69636174696f6e2f6a736f6e', 'enum': True},
                                         {'k': 'accept', 'ms': ['782f79'], 'enum': False}]))
            rk = rng.choice(['one', 'one', 'one', 'two', 'none', 'empty', 'multi', 'empty-first'])
            if rk == 'one':
                tag = rng.choice(names + ['71'])
                if rng.random() < 0.25:
                    # a near miss of a registered name: padded with white space, other case, a prefix / an extension of it (exactness of the match)
                    base = rng.choice(names)
                    tag = rng.choice(['20' + base, base + '20', base + '0a', '09' + base + '20', base.replace('7', '5', 1), base + base[:2], base[:-2] or '2f', base + '00'])
                items.insert(rng.randint(0, len(items)), {'k': 'route', 'tags': [tag]})
            elif rk == 'two':
                items.insert(rng.randint(0, len(items)), {'k': 'route', 'tags': [rng.choice(names)]})
                items.insert(rng.randint(0, len(items)), {'k': 'route', 'tags': [rng.choice(names)]})
            elif rk == 'empty':
                items.insert(rng.randint(0, len(items)), {'k': 'route', 'tags': []})
            elif rk == 'multi':
                items.insert(rng.randint(0, len(items)), {'k': 'route', 'tags': [rng.choice(names), rng.choice(names)]})
            elif rk == 'empty-first':
                # the first tag is the route, also when it is empty (no handler can be registered for it): the second tag is not
                items.insert(rng.randint(0, len(items)), {'k': 'route', 'tags': ['', rng.choice(names)] + ([rng.choice(names)] if rng.random() < 0.3 else [])})
            ak = rng.choice(['none', 'good-b', 'bad-b', 'good-s', 'bad-s', 'two'])
            auth = {'good-b': {'k': 'bearer', 't': '67'}, 'bad-b': {'k': 'bearer', 't': '6767'}, 'good-s': {'k': 'simple', 'u': '75', 'p': '70'},
                    'bad-s': {'k': 'simple', 'u': '7575', 'p': '75'}}
            if ak in auth:
                items.insert(rng.randint(0, len(items)), auth[ak])
            elif ak == 'two':
                items.insert(rng.randint(0, len(items)), auth[rng.choice(['good-b', 'bad-s'])])
                items.insert(rng.randint(0, len(items)), auth[rng.choice(['bad-b', 'good-s'])])
            blob = None
            if rng.random() < 0.05:
                blob = rng.choice(['ff', 'fe0000', '00', 'fe00000901'])
            case = {'ty': rng.choice(TYPES), 'ver': rng.choice(['none', 'std', 'std']), 'routes': routes, 'unknown': unknown, 'items': items, 'blob': blob,
                    'ver_obj': rng.random() < 0.3}
            if rng.random() < 0.3:
                # handlers are bound methods of controller objects: all routes of one interaction type are the same method of different instances
                case['bound'] = True
                first = {}
                for r in routes:
                    r[3] = first.setdefault(r[0], r[3])
                for u in unknown:
                    u[2] = first.setdefault(u[0], u[2])
            # earlier requests on the same connection (same handler instance) must not influence this one: same or other credentials,
            # same or other type / route; optionally still in flight (its verifier call suspended) when the judged request arrives
            if rng.random() < 0.5:
                before = []
                for _ in range(rng.choice([1, 1, 2, 3])):
                    its = list(items) if rng.random() < 0.6 else [{'k': 'route', 'tags': [rng.choice(names)]}] + ([auth[rng.choice(list(auth))]] if rng.random() < 0.8 else [])
                    before.append({'ty': rng.choice(TYPES), 'items': its})
                case['before'] = before
                case['overlap'] = rng.random() < 0.3
            out.append(case)
        return out

    @staticmethod
    def _params(rng):
        ps = []
        used_cm_name = False
        for _ in range(rng.choice([0, 1, 1, 2, 3])):
            n = 'x'
            if not used_cm_name and rng.random() < 0.3:
                n = 'c'
                used_cm_name = True
            ps.append(n + rng.choice('epmo'))
        return ps

    def _blob(self, case):
        if case['blob'] is not None:
            return bytes.fromhex(case['blob'])
        return bytes(c18.C18._encode(case['items'], self._via_helpers(case)))

    @staticmethod
    def _via_helpers(case):
        # half of the requests name their route the way applications do: helpers.route('name') with a str
        import hashlib
        return hashlib.sha1(json.dumps(case['items'], sort_keys=True).encode()).digest()[0] % 2 == 0

    def run_impl(self, case):
        from rsocket.routing.request_router import RequestRouter
        from rsocket.routing.routing_request_handler import RoutingRequestHandler
        from rsocket.payload import Payload
        from rsocket.streams.error_stream import ErrorStream
        from rsocket.extensions.authentication import AuthenticationBearer, AuthenticationSimple
        lp = loop()
        log = []
        router = RequestRouter(payload_deserializer=lambda cls, p: ('DES', cls, p))
        reg = {'r': router.response, 's': router.stream, 'c': router.channel, 'f': router.fire_and_forget, 'm': router.metadata_push}
        unk = {'r': router.response_unknown, 's': router.stream_unknown, 'c': router.channel_unknown, 'f': router.fire_and_forget_unknown,
               'm': router.metadata_push_unknown}
        classes = {} if case.get('bound') else None
        for t, rt, hid, ps in case['routes']:
            reg[t](bytes.fromhex(rt).decode())(make_handler(hid, ps, t, log, classes))
        for t, hid, ps in case['unknown']:
            unk[t]()(make_handler(hid, ps, t, log, classes))
        verifier_calls = []

        async def verifier(route, auth):
            verifier_calls.append(route)
            await asyncio.sleep(0)          # a verifier that suspends (a lookup): other requests may arrive meanwhile
            ok = (isinstance(auth, AuthenticationBearer) and auth.token == b'g') or (isinstance(auth, AuthenticationSimple) and auth.username == b'u')
            if not ok:
                raise Exception('rejected')
        class StoreVerifier(dict):
            """a verifier that is a callable object with a truth value of its own (a token store that happens to be empty: falsy) —
            configured is configured: the gate applies"""
            async def __call__(self, route, auth):
                return await verifier(route, auth)
        handler = RoutingRequestHandler(router, (StoreVerifier() if case.get('ver_obj') else verifier) if case['ver'] == 'std' else None)
        blob = self._blob(case)
        payload = Payload(b'data', blob)
        meth = {'r': handler.request_response, 's': handler.request_stream, 'c': handler.request_channel, 'f': handler.request_fire_and_forget,
                'm': handler.on_metadata_push}[case['ty']]

        async def go():
            try:
                res = await meth(payload)
            except BaseException as e:
                return 'ESCAPED:' + type(e).__name__
            if case['ty'] == 'r':
                if isinstance(res, asyncio.Future):
                    if res.exception() is not None:
                        return 'error-future'
                    return 'future'
                return 'other:' + type(res).__name__
            if case['ty'] == 's':
                return 'error-stream' if isinstance(res, ErrorStream) else 'publisher'
            if case['ty'] == 'c':
                return 'error-stream' if isinstance(res, tuple) and isinstance(res[0], ErrorStream) else 'channel'
            return 'none'
        methods = {'r': handler.request_response, 's': handler.request_stream, 'c': handler.request_channel, 'f': handler.request_fire_and_forget,
                   'm': handler.on_metadata_push}

        async def earlier(req):
            tok = LABEL.set('earlier')
            try:
                await methods[req['ty']](Payload(b'earlier', bytes(c18.C18._encode(req['items'], self._via_helpers(req)))))
            except BaseException:
                pass
            finally:
                LABEL.reset(tok)

        async def scenario():
            before = case.get('before') or []
            pending = []
            for i, req in enumerate(before):
                if case.get('overlap') and i == len(before) - 1:
                    pending.append(asyncio.ensure_future(earlier(req)))     # still in flight when the judged request arrives
                    await asyncio.sleep(0)
                else:
                    await earlier(req)
            mark = len(log)
            res = await go()
            judged = list(log[mark:])
            for p in pending:
                await p
            return res, judged
        result, judged = lp.run_until_complete(scenario())
        return {'blob': blob.hex(), 'ran': [[h, k] for h, k in judged], 'result': result, 'verifier_calls': len(verifier_calls)}

    def model_lines(self, case, obs):
        routes = '|'.join('%s:%s:%d:%s' % (t, rt, hid, ','.join(ps) or '-') for t, rt, hid, ps in case['routes']) or '-'
        unknown = '|'.join('%s:%d:%s' % (t, hid, ','.join(ps) or '-') for t, hid, ps in case['unknown']) or '-'
        return ['route ty=%s ver=%s routes=%s unknown=%s blob=%s' % (case['ty'], case['ver'], routes, unknown, obs['blob'] or '-')]

    def compare(self, case, obs, answers):
        if len(obs['ran']) == 1:
            impl = 'ran %d %s' % (obs['ran'][0][0], ','.join(obs['ran'][0][1]))
        elif not obs['ran']:
            impl = 'error'
        else:
            impl = 'ran-many %s' % obs['ran']
        if impl.strip() != answers[0].strip():
            return 'impl: %s (%s) / model: %s' % (impl, obs['result'], answers[0])

    def oracle(self, case, obs):
        fails = []
        if obs['result'].startswith('ESCAPED'):
            fails.append({'signature': 'routing-error-not-local', 'what': 'exception escaped the handler method: %s' % obs['result']})
        if case['blob'] is not None:
            return fails      # hand-made metadata bytes: only locality is judged directly (the model comparison covers the rest)
        else:
            route = None
            for it in case['items']:
                if it['k'] == 'route':
                    route = it['tags'][0] if it['tags'] else None
                    break
            auth = next((it for it in case['items'] if it['k'] in ('bearer', 'simple')), None)
            gate = True
            if case['ver'] == 'std':
                gate = auth is not None and ((auth['k'] == 'bearer' and auth['t'] == '67') or (auth['k'] == 'simple' and auth['u'] == '75'))
            exp = None
            if route is not None and gate:
                exp = next((hid for t, rt, hid, ps in case['routes'] if t == case['ty'] and rt == route), None)
                if exp is None:
                    exp = next((hid for t, hid, ps in case['unknown'] if t == case['ty']), None)
            if case['ver'] == 'std' and not gate and obs['ran']:
                fails.append({'signature': 'authentication-gate-bypassed',
                              'what': 'verifier configured, request %s, but handler %s ran (type %s)' % ('carries no authentication' if auth is None else 'is rejected', obs['ran'], case['ty'])})
        ran = [h for h, _ in obs['ran']]
        if exp is None and ran and not any(f['signature'] == 'authentication-gate-bypassed' for f in fails):
            fails.append({'signature': 'handler-ran-for-unroutable-request', 'what': 'handler %s ran for a request that has no handler of type %s' % (ran, case['ty'])})
        if exp is not None and ran != [exp]:
            fails.append({'signature': 'wrong-handler', 'what': 'expected handler %d for type %s, ran %s' % (exp, case['ty'], ran)})
        if exp is not None and ran == [exp]:
            ps = next((ps for t, rt, hid, ps in case['routes'] if hid == exp), None) or next((ps for t, hid, ps in case['unknown'] if hid == exp), [])
            want = ['CM' if (p[0] == 'c' or p[1] == 'm') else ('P' if p[1] in 'ep' else 'D') for p in ps]
            if obs['ran'][0][1] != want:
                fails.append({'signature': 'wrong-parameters', 'what': 'handler %d declared %s, received %s, expected %s' % (exp, ps, obs['ran'][0][1], want)})
        if not ran and case['ty'] in 'rsc' and obs['result'] not in ('error-future', 'error-stream') and not obs['result'].startswith('ESCAPED'):
            fails.append({'signature': 'unrouted-request-not-failed', 'what': 'no handler ran but the result is %s' % obs['result']})
        return fails

    def nontrivial(self, case, obs):
        if case['ver'] == 'std' or not obs['ran']:
            return json.dumps(case, sort_keys=True)
        return None

    def stats(self, case, obs):
        yield 'type=' + case['ty']
        yield 'verifier=' + case['ver']
        yield 'outcome=' + ('ran' if obs['ran'] else 'error')
        if case['blob'] is not None:
            yield 'unparseable-metadata'

    def shrink_candidates(self, case):
        for i in range(len(case['routes'])):
            yield dict(case, routes=case['routes'][:i] + case['routes'][i + 1:])
        for i in range(len(case['unknown'])):
            yield dict(case, unknown=case['unknown'][:i] + case['unknown'][i + 1:])
        for i in range(len(case['items'])):
            yield dict(case, items=case['items'][:i] + case['items'][i + 1:])


PROP = C19()
