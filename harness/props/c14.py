"""C14 — lease: a real RSocketClient with honor_lease under the virtual clock; LEASE frames and requests of all
request types at chosen virtual times; the responder's LEASE announcements."""
import json
from datetime import timedelta

from harness.core import Prop
from harness import detloop, clientrun, simnet, engine


class C14(Prop):
    id = 'C14'
    lean_modules = ['RSocketModel.Props.C14', 'RSocketModel.Props.C14Source', 'RSocketModel.Props.C05Sites', 'RSocketModel.Props.C13Endpoints']
    technique = 'Lean 4 proof (invariant over all LEASE/request histories at any virtual times: held requests imply a spent lease) + differential correspondence under a virtual clock'
    level_text = ('c14_allow_matches_source (Props/C14Source.lean): the lease test of the model (Lease.allow) is proved equal, for every lease state and instant, to DefinedLease._is_request_allowed as compiled from rsocket/lease.py into Lean on every run (Gen/LeaseFn.lean); c14_source_expired_refuses / c14_source_live_allows_iff are read off the compiled function itself; c14_drain_matches_source: the release loop of handle_lease, compiled from rsocket_base.py as a fuel-bounded recursion (Gen/LeaseDrainFn.lean), ends like the drain of the model for every lease, instant and queue (induction on the queue). c14_none_before_first_lease, c14_at_most_granted(_count), c14_none_after_ttl, c14_fifo_once, c14_retained_up_to_capacity, c14_no_request_lost (over every history the sent, held and refused tags are exactly the requests made) c14_lease_reserved_bits_ignored / c14_lease_fields_below_2_31 (codec model: a received LEASE grants its two words modulo 2^31) and c14_announce_exact are kernel-checked on a '
                  'transcription of DefinedLease/_is_request_allowed, send_request and handle_lease; the model is run against a real client that honours leases, with time supplied by the '
                  'harness, and against a real server with a scripted lease publisher.')
    level_note = 'Trusted: Lean kernel + standard axioms; datetime arithmetic; the virtual clock patches rsocket.lease.datetime.'
    design_ref = '§5 C14'
    rule = ('sequences of LEASE frames (count 0..5, ttl 0..400 ms) and requests of the four request types at non-decreasing virtual times (incl. exactly at expiry), queue size 0/1/3, with '
            'and without fragmentation, and reconnects in between (each connection starts without a lease), on a client that may also grant leases of its own to the peer at any moment, or (a third of the histories without reconnects) on the server-side endpoint as lease-honouring requester; the number of requests held at once is compared with the configured queue size; responder (a server, or a client that grants leases; leases built at publication time or prepared up to 3 s earlier): published leases with counts and time-to-live from 1 ms to the 31-bit maximum incl. sub-second parts, whole days and more than a day; every request must be accounted for at the end (sent, refused, or still held); non-trivial = a request was held and later released, refused, or '
            'sent under a lease close to expiry; distinct = distinct history')
    assumptions = ['whole-millisecond time-to-live values']

    def cases(self, rng, tier):
        out = []
        n = 1000 if tier == 'quick' else 15000
        for _ in range(n):
            t = 0
            evs = []
            last_lease = None
            for _ in range(rng.randint(2, 14)):
                t += rng.choice([1, 1, 2, 5, 20, 50, 100, 150])      # strictly increasing: the direct oracle orders events by time
                if last_lease is not None and rng.random() < 0.15:
                    t = max(t, last_lease[0] + last_lease[1] + rng.choice([-1, 0, 1]))     # right at the expiry
                    if evs and t <= evs[-1][-1]:
                        t = evs[-1][-1] + 1
                if rng.random() < 0.07:
                    evs.append(['X', t])          # the client reconnects: a new connection starts without a lease
                    last_lease = None
                    continue
                if rng.random() < 0.3:
                    ttl = rng.choice([0, 1, 50, 100, 400])
                    evs.append(['L', rng.choice([0, 1, 1, 2, 3, 5]), ttl, t])
                    last_lease = (t, ttl)
                else:
                    evs.append(['R', rng.choice(['rr', 'fnf', 'stream', 'channel']), t])
            own = rng.random() < 0.3
            if own:
                # the client's own grants to its peer, at moments of their own (before the peer's first LEASE, after its lease is used up or expired ...)
                times = sorted({rng.randint(0, max(1, t)) for _ in range(rng.randint(1, 3))} - {e[-1] for e in evs})
                for tm in times:
                    evs.append(['O', rng.choice([1, 5, 100]), rng.choice([1000, 60000, 10 ** 7]), tm])
                evs.sort(key=lambda e: e[-1])
            out.append({'kind': 'req', 'cap': rng.choice([0, 0, 1, 3]), 'frag': rng.choice([None, None, 64]), 'evs': evs, 'own': own,
                        # the lease-honouring requester may be the server-side endpoint (it asks the client and waits for the client's LEASE frames)
                        'server': (not own) and not any(e[0] == 'X' for e in evs) and rng.random() < 0.35,
                        'resbit': rng.choice([None, None, None, 'ttl', 'count', 'both'])})
        for _ in range(n // 5):
            out.append({'kind': 'announce', 'role': rng.choice(['server', 'server', 'client']), 'leases': [[rng.choice([0, 1, 7, 2 ** 31 - 1]), rng.choice([1000, 2_500_000, 500_000, 1_500_000, 60_000_000, 999_000, 86_399_999_000, 86_400_000_000, 86_405_000_000, 172_800_000_000, 266_400_017_000,
                                                                                                   2_147_483_647_000, rng.randint(1, 2_147_483_647) * 1000])] for _ in range(rng.randint(1, 3))],
                        'delays': rng.choice([None, None, [0], [200, 400], [3000], [1, 700]])})
            c = out[-1]
            if c['delays'] and rng.random() < 0.5:
                c['leases'] = (c['leases'] + [c['leases'][0]] + ([c['leases'][0]] if rng.random() < 0.3 else []))[:4]
                c['same_object'] = True
        return out

    def run_impl(self, case):
        return detloop.run(self._req if case['kind'] == 'req' else self._announce, case)

    async def _req(self, loop, case):
        from rsocket.payload import Payload
        from rsocket import frame as F
        from asyncio import QueueFull
        nx = len([e for e in case['evs'] if e[0] == 'X'])
        class OwnPub:
            """the client grants leases itself as well (it is also a responder): what it grants its peer must not open its own gate"""
            def subscribe(self, s):
                self.s = s
        own = OwnPub() if case.get('own') else None
        if case.get('server'):
            from rsocket.rsocket_server import RSocketServer
            from harness import simnet, engine

            class R:
                transports = [simnet.ScriptedTransport(loop)]
            c = RSocketServer(R.transports[0], honor_lease=True, request_queue_size=case['cap'], fragment_size_bytes=case['frag'])
            await loop.settle()
            R.transports[0].deliver(engine.build_frame({'ty': 'SETUP', 'sid': 0, 'data': [1], 'complete': True}).serialize())
            await loop.settle()
        else:
            R = clientrun.ClientRun(loop, n_transports=1 + nx, ka_ms=10_000_000, life_ms=100_000_000, honor_lease=True, request_queue_size=case['cap'],
                                    fragment_size_bytes=case['frag'], **({'lease_publisher': own} if own else {}))
            c = R.build()
            await c.connect()
            await loop.settle()
        ti = 0
        t = R.transports[0]
        tag = 0
        rejected, model = [], []
        max_held = 0

        class S:
            def on_subscribe(self, s): pass
            def on_next(self, v, is_complete=False): pass
            def on_complete(self): pass
            def on_error(self, e): pass
        for e in case['evs']:
            when = e[-1]
            await loop.advance(when - loop.now_ms())
            if e[0] == 'X':
                await c.reconnect()
                await loop.settle()
                ti += 1
                t = R.transports[ti]
                model.append('X')
                continue
            if e[0] == 'O':
                # the client publishes a lease of its own (granted to the peer)
                from rsocket.lease import DefinedLease
                if hasattr(own, 's'):
                    own.s.on_next(DefinedLease(maximum_request_count=e[1], maximum_lease_time=timedelta(milliseconds=e[2])))
                await loop.settle()
                continue
            if e[0] == 'L':
                fr = F.LeaseFrame()
                fr.number_of_requests, fr.time_to_live = e[1], e[2]
                raw = bytearray(fr.serialize())
                # both fields are 31-bit: a peer may leave anything in the reserved top bit of either word, it does not count
                if case.get('resbit') in ('ttl', 'both'):
                    raw[6] |= 0x80
                if case.get('resbit') in ('count', 'both'):
                    raw[10] |= 0x80
                t.deliver(bytes(raw))
                model.append('L%d:%d@%d' % (e[1], e[2], when))
            else:
                tag += 1
                body = bytes([tag]) * (100 if case['frag'] else 3)
                model.append('R%d@%d' % (tag, when))
                try:
                    if e[1] == 'rr':
                        c.request_response(Payload(body))
                    elif e[1] == 'fnf':
                        c.fire_and_forget(Payload(body))
                    elif e[1] == 'stream':
                        c.request_stream(Payload(body)).subscribe(S())
                    else:
                        c.request_channel(Payload(body)).subscribe(S())
                except QueueFull:
                    rejected.append(tag)
            await loop.settle()
            max_held = max(max_held, c._request_queue.qsize())
        sent = []
        for tr in R.transports:
            for (tm, dump, fr, raw) in tr.sent:
                if isinstance(fr, (F.RequestResponseFrame, F.RequestFireAndForgetFrame, F.RequestStreamFrame, F.RequestChannelFrame)):
                    sent.append([fr.data[0], round(tm)])
        try:
            await c.close()
        except Exception:
            pass
        return {'sent': sent, 'rejected': rejected, 'model': model, 'held': c._request_queue.qsize() if hasattr(c, '_request_queue') else None, 'max_held': max_held}

    async def _announce(self, loop, case):
        from rsocket.lease import DefinedLease
        from rsocket.rsocket_server import RSocketServer
        from rsocket import frame as F

        class Pub:
            def subscribe(self, s):
                self.s = s
        pub = Pub()
        if case.get('role') == 'client':
            # a client that grants leases to its peer (it is a responder too): honor_lease + lease_publisher
            R = clientrun.ClientRun(loop, n_transports=1, ka_ms=10_000_000, life_ms=100_000_000, honor_lease=True, lease_publisher=pub)
            server = R.build()
            await server.connect()
            await loop.settle()
            t = R.transports[0]
        else:
            t = simnet.ScriptedTransport(loop)
            server = RSocketServer(t, lease_publisher=pub)
            await loop.settle()
            t.deliver(engine.build_frame({'ty': 'SETUP', 'sid': 0, 'complete': True}).serialize())
            await loop.settle()
        # a publisher may prepare its leases ahead of time and publish them later (or publish one object again): what is announced is the
        # lease as published, however old the object is
        prepared = [DefinedLease(maximum_request_count=n, maximum_lease_time=timedelta(microseconds=us)) for n, us in case['leases']] if case.get('delays') else None
        if prepared and case.get('same_object'):
            # a renewal published as the very same object (a periodic publisher that keeps one DefinedLease): it is a publication like any other
            first = {}
            prepared = [first.setdefault((n, us), obj) for (n, us), obj in zip(map(tuple, case['leases']), prepared)]
        for i, (n, us) in enumerate(case['leases']):
            if not hasattr(pub, 's'):
                break         # the endpoint never subscribed to its lease publisher: nothing can be announced
            if prepared:
                await loop.advance(case['delays'][i % len(case['delays'])])
                pub.s.on_next(prepared[i])
            else:
                pub.s.on_next(DefinedLease(maximum_request_count=n, maximum_lease_time=timedelta(microseconds=us)))
            await loop.settle()
        got = [[e[2].number_of_requests, e[2].time_to_live] for e in t.sent if isinstance(e[2], F.LeaseFrame)]
        await server.close()
        return {'got': got}

    def model_lines(self, case, obs):
        if case['kind'] == 'req':
            segs, cur = [], []
            for m in obs['model']:
                if m == 'X':
                    segs.append(cur)
                    cur = []
                else:
                    cur.append(m)
            segs.append(cur)
            return ['lease %d 0 %s' % (case['cap'], ' '.join(s)) for s in segs]     # every connection starts from the initial lease state
        return ['announce %d %d' % (n, us) for n, us in case['leases']]

    def compare(self, case, obs, answers):
        if case['kind'] == 'req':
            impl = 'sent=%s rejected=%s' % (','.join('%d@%d' % (a, b) for a, b in obs['sent']) or '-', ','.join(map(str, obs['rejected'])) or '-')
            ms, mr = [], []
            for a in answers:
                parts = dict(p.split('=') for p in a.split(' '))
                ms += [x for x in parts['sent'].split(',') if x != '-']
                mr += [x for x in parts['rejected'].split(',') if x != '-']
            model = 'sent=%s rejected=%s' % (','.join(ms) or '-', ','.join(mr) or '-')
            if impl != model:
                return 'impl %s / model %s' % (impl, model)
            return None
        for (n, ttl), a in zip(obs['got'], answers):
            if '%d %d' % (n, ttl) != a:
                return 'announced %d %d / model %s' % (n, ttl, a)
        if len(obs['got']) != len(answers):
            return '%d LEASE frames for %d published leases' % (len(obs['got']), len(answers))

    def oracle(self, case, obs):
        fails = []
        if case['kind'] == 'announce':
            exp = [[n, us // 1000] for n, us in case['leases']]
            if obs['got'] != exp:
                fails.append({'signature': 'lease-announcement-wrong', 'what': 'published %s (count, microseconds), announced %s (count, ms)' % (case['leases'], obs['got'])})
            return fails
        # a reconnect starts a new connection: the leases of the previous one no longer count
        leases_all = [(e[3], e[1], e[2]) for e in case['evs'] if e[0] == 'L']
        cuts = [e[1] for e in case['evs'] if e[0] == 'X']
        leases = leases_all
        sent = obs['sent']
        tags = [s[0] for s in sent]
        if tags != sorted(tags) or len(set(tags)) != len(tags):
            fails.append({'signature': 'lease-release-order', 'what': 'requests left in order %s (tags are arrival order)' % tags})
        for tg, tm in sent:
            conn_start = max([x for x in cuts if x <= tm], default=-1)
            cur = [l for l in leases if conn_start <= l[0] <= tm]
            if not cur:
                fails.append({'signature': 'request-before-first-lease', 'what': 'request %d sent at %d before any LEASE of its connection' % (tg, tm)})
                continue
            at, n, ttl = cur[-1]
            if tm >= at + ttl:
                fails.append({'signature': 'request-after-lease-expiry', 'what': 'request %d sent at %d, lease of %d ms granted at %d' % (tg, tm, ttl, at)})
        for i, (at, n, ttl) in enumerate(leases):
            end = leases[i + 1][0] if i + 1 < len(leases) else 10 ** 12
            k = len([1 for tg, tm in sent if at <= tm < end])
            # a request sent at the very instant a newer lease arrives belongs to the newer one
            if k > n:
                fails.append({'signature': 'more-requests-than-granted', 'what': 'lease of %d at %d, %d requests sent under it' % (n, at, k)})
        if case['cap'] == 0 and obs['rejected']:
            fails.append({'signature': 'request-refused-with-unbounded-queue', 'what': str(obs['rejected'])})
        if case['cap'] and obs.get('max_held', 0) > case['cap']:
            fails.append({'signature': 'more-requests-retained-than-configured', 'what': 'request_queue_size %d (%s-side requester), %d requests held at once' % (
                case['cap'], 'server' if case.get('server') else 'client', obs['max_held'])})
        # "retained ... and released when a lease arrives": every request is on the wire, refused, or still held - none vanishes
        if not cuts:
            asked = len([e for e in case['evs'] if e[0] == 'R'])
            accounted = len(set(tags)) + len(obs['rejected']) + obs['held']
            if accounted < asked:
                fails.append({'signature': 'retained-request-lost', 'what': '%d requests made, %d sent, %d refused, %d still held: %d vanished (events %s)' % (
                    asked, len(set(tags)), len(obs['rejected']), obs['held'], asked - accounted, case['evs'])})
        return fails

    def nontrivial(self, case, obs):
        if case['kind'] == 'announce':
            return json.dumps(case['leases'])
        if obs['sent'] or obs['rejected']:
            return json.dumps(case, sort_keys=True)
        return None

    def stats(self, case, obs):
        yield 'kind=' + case['kind']
        if case['kind'] == 'req':
            yield 'requester-role=' + ('server' if case.get('server') else 'client')
            yield 'cap=%d' % case['cap']
            if obs['rejected']:
                yield 'queue-full'
            if obs['sent']:
                yield 'some-sent'
            if obs['held']:
                yield 'some-still-held'

    def shrink_candidates(self, case):
        if case['kind'] == 'req':
            for i in range(len(case['evs'])):
                yield dict(case, evs=case['evs'][:i] + case['evs'][i + 1:])
            if case['frag']:
                yield dict(case, frag=None)


PROP = C14()
