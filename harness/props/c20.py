"""C20 — Rx (v3) / ReactiveX (v4) adapters: client adapters over a real client with the harness as server, and
handler adapters behind a real server with a recording delegate."""
import asyncio
import json

from harness.core import Prop
from harness import detloop, simnet, engine


def libs(ver):
    if ver == 'rx3':
        import rx
        from rx import operators as ops
        from rx.subject import Subject
        from rsocket.rx_support.rx_rsocket import RxRSocket as Client
        from rsocket.rx_support.rx_handler import BaseRxHandler as BaseHandler
        from rsocket.rx_support.rx_handler_adapter import rx_handler_factory as factory
        from rsocket.rx_support.rx_channel import RxChannel as Channel
        from rsocket.rx_support.back_pressure_publisher import from_observable_with_backpressure, observable_from_async_generator
        return rx, ops, Subject, Client, BaseHandler, factory, Channel, from_observable_with_backpressure, observable_from_async_generator
    import reactivex as rx
    from reactivex import operators as ops
    from reactivex.subject import Subject
    from rsocket.reactivex.reactivex_client import ReactiveXClient as Client
    from rsocket.reactivex.reactivex_handler import BaseReactivexHandler as BaseHandler
    from rsocket.reactivex.reactivex_handler_adapter import reactivex_handler_factory as factory
    from rsocket.reactivex.reactivex_channel import ReactivexChannel as Channel
    from rsocket.reactivex.back_pressure_publisher import from_observable_with_backpressure, observable_from_async_generator
    return rx, ops, Subject, Client, BaseHandler, factory, Channel, from_observable_with_backpressure, observable_from_async_generator


class C20(Prop):
    id = 'C20'
    lean_modules = ['RSocketModel.Props.C20']
    technique = 'Lean 4 proof (batching-subscriber invariant, transparency, credit model of C06; delegation table decided over the adapters\' source) + differential correspondence on both Rx versions'
    level_text = ('c20_transparent, c20_request_bounded, c20_request_amounts, c20_factory_gets_exact_credits, c20_wire_no_faster_than_credit are kernel-checked on models of the batching '
                  'subscriber and the buffering puller; c20_delegation is decided over the table that the translator reads from both adapters\' source with ast on every run; the models are run '
                  'against RxRSocket / ReactiveXClient over a real client (harness as server) and against both handler adapters behind a real server with a recording delegate.')
    level_note = 'Trusted: Lean kernel + standard axioms; Rx 3.2 / ReactiveX 4 operator internals; the delegation theorem is a table and says so.'
    design_ref = '§5 C20'
    rule = ('both Rx versions x interaction (stream, channel inbound, response, fire-and-forget, metadata-push, setup) x element count 0/1/many x request limit 1..max x responses of data, metadata or both x error position (streams; response observables that fail at once, after their element, or later) x '
            'disposal moment x delivery pacing by the harness; 2..3 connections served through one handler-factory wrapper (each must get a delegate of its own, as with the core API); a CANCEL from the requester while the delegate\'s source (back-pressure factory over a gated async generator, or a Subject) has credit outstanding and more to give; non-trivial = more elements than the request limit, an error, a disposal or a one-way request through the handler adapter; '
            'distinct = distinct case')
    assumptions = []

    def cases(self, rng, tier):
        out = []
        n = 600 if tier == 'quick' else 8000
        for _ in range(n):
            ver = rng.choice(['rx3', 'rx4'])
            k = rng.choice(['cstream', 'cstream', 'cstream', 'cresp', 'coneway', 'hstream', 'hstream', 'honeway', 'hresp', 'hchannel', 'hcancel', 'hfactory'])
            c = {'ver': ver, 'kind': k}
            if k == 'cstream':
                count = rng.choice([0, 1, 2, 5, 9])
                c.update(limit=rng.choice([1, 2, 3, 4, 2 ** 31 - 1]), count=count, end=rng.choice(['complete', 'flag', 'error'] if count else ['complete', 'error']), burst=rng.choice([1, 2, 5]),
                         dispose_after=rng.choice([None, None, None, rng.randint(0, max(0, count))]), channel=rng.random() < 0.3,
                         dispose_now=rng.random() < 0.12)
            elif k == 'cresp':
                c.update(data=rng.choice(['', 'aa', 'bbcc']), md=rng.choice(['', '', 'cd']), error=rng.random() < 0.2)
            elif k == 'coneway':
                c.update(op=rng.choice(['fnf', 'mp']), subs=rng.choice([0, 1, 1, 2]))
            elif k == 'hstream':
                c.update(count=rng.choice([0, 1, 3, 7]), error_at=rng.choice([None, None, 0, 2]), factory=rng.random() < 0.4, n0=rng.choice([1, 2, 4]),
                         more=[rng.choice([1, 2, 3]) for _ in range(rng.randint(0, 4))], together=rng.random() < 0.35)
                if c['factory'] and rng.random() < 0.5:
                    c['error_at'] = None
            elif k == 'hcancel':
                # the requester cancels a stream served through the handler adapter while credit is outstanding and the delegate's source has more
                c.update(source=rng.choice(['factory', 'factory', 'subject']), n0=rng.choice([3, 10, 2 ** 31 - 1]), before=rng.choice([0, 1, 3]), after=rng.choice([1, 4]))
            elif k == 'hfactory':
                # several connections served through one handler-factory wrapper: as with the core API, each gets a delegate of its own
                c.update(conns=rng.choice([2, 2, 3]), ops=[[rng.randint(0, 2), rng.choice(['fnf', 'mp', 'setup'])] for _ in range(rng.randint(2, 6))])
            elif k == 'honeway':
                c.update(op=rng.choice(['fnf', 'mp', 'setup', 'mp-empty', 'fnf-empty']))
            elif k == 'hresp':
                c.update(data=rng.choice(['', 'aa']), shape=rng.choice(['plain', 'plain', 'error', 'then-error', 'deferred', 'deferred-then-error']))
            else:
                c.update(limit=rng.choice([1, 2, 3, 2 ** 31 - 1]), count=rng.choice([0, 1, 2, 3, 4, 6, 7]), end=rng.choice(['complete', 'flag']))
            out.append(c)
        return out

    def run_impl(self, case):
        return detloop.run(getattr(self, '_' + case['kind']), case)

    # -- client adapters -------------------------------------------------------------------------
    async def _client(self, loop, case):
        from rsocket.rsocket_client import RSocketClient
        from rsocket.helpers import single_transport_provider
        from datetime import timedelta
        t = simnet.ScriptedTransport(loop)
        core = RSocketClient(single_transport_provider(t), keep_alive_period=timedelta(seconds=100000), max_lifetime_period=timedelta(seconds=1000000))
        await core.connect()
        await loop.settle()
        return t, core, libs(case['ver'])[3](core)

    async def _cstream(self, loop, case):
        from rsocket.payload import Payload
        from rsocket import frame as F
        t, core, rxc = await self._client(loop, case)
        n0 = len(t.sent)
        events = []
        if case['channel']:
            obs = rxc.request_channel(Payload(b'q'), request_limit=case['limit'])
        else:
            obs = rxc.request_stream(Payload(b'q'), request_limit=case['limit'])
        disp = obs.subscribe(on_next=lambda v: events.append(['n', v.data[0] if v.data else None]), on_error=lambda e: events.append(['e', type(e).__name__]),
                             on_completed=lambda: events.append(['c']))
        if case.get('dispose_now'):
            # disposed in the very loop iteration in which it was subscribed: if the request goes out at all, a CANCEL must follow it
            disp.dispose()
            await loop.settle()
            sent = t.sent[n0:]
            res = {'dispose_now': True, 'requests': len([e for e in sent if isinstance(e[2], (F.RequestStreamFrame, F.RequestChannelFrame))]),
                   'cancels': len([e for e in sent if isinstance(e[2], F.CancelFrame)]), 'events': events, 'model': [], 'disposed': True}
            await core.close()
            return res
        await loop.settle()
        reqs = [e[2] for e in t.sent[n0:] if isinstance(e[2], (F.RequestStreamFrame, F.RequestChannelFrame))]
        sid = reqs[0].stream_id if reqs else None
        initial = reqs[0].initial_request_n if reqs else None
        model, requested_seq = [], []
        delivered, max_outstanding = 0, 0

        def requested():
            return (initial or 0) + sum(e[2].request_n for e in t.sent[n0:] if isinstance(e[2], F.RequestNFrame))

        def note_triggers(prev):
            now = requested()
            k = 0
            while prev + k * case['limit'] < now:
                k += 1
                model.append('t')
            return now
        cur = requested()
        disposed = False
        i = 0
        while sid is not None and i < case['count'] and not disposed:
            burst = 0
            while burst < case['burst'] and i < case['count'] and delivered < cur:
                last = i == case['count'] - 1 and case['end'] == 'flag'
                t.deliver(engine.build_frame({'ty': 'PAYLOAD', 'sid': sid, 'data': [i + 1], 'complete': last}).serialize())
                model.append('N' if last else 'n')
                delivered += 1
                i += 1
                burst += 1
                max_outstanding = max(max_outstanding, cur - delivered + 1)
                if case['dispose_after'] is not None and delivered == case['dispose_after']:
                    break
            await loop.settle()
            cur = note_triggers(cur)
            max_outstanding = max(max_outstanding, cur - delivered)
            if case['dispose_after'] is not None and delivered >= case['dispose_after']:
                disp.dispose()
                disposed = True
                await loop.settle()
            if burst == 0 and delivered >= cur:
                break          # the adapter asked for nothing more: stalled
        if sid is not None and not disposed and i == case['count']:
            if case['dispose_after'] == 0 and case['count'] == 0:
                disp.dispose()
                disposed = True
            elif case['end'] == 'complete':
                t.deliver(engine.build_frame({'ty': 'PAYLOAD', 'sid': sid, 'data': [], 'complete': True}).serialize())
                model.append('c')
            elif case['end'] == 'error':
                t.deliver(engine.build_frame({'ty': 'ERROR', 'sid': sid, 'code': 513}).serialize())
                model.append('e')
            await loop.settle()
        cancels = len([e for e in t.sent[n0:] if isinstance(e[2], F.CancelFrame)])
        amounts = [e[2].request_n for e in t.sent[n0:] if isinstance(e[2], F.RequestNFrame)]
        res = {'initial': initial, 'amounts': amounts, 'events': events, 'delivered': delivered, 'requested': requested(), 'cancels': cancels, 'disposed': disposed,
               'model': model, 'max_outstanding': max_outstanding, 'stalled': i < case['count'] and not disposed}
        await core.close()
        return res

    async def _cresp(self, loop, case):
        from rsocket.payload import Payload
        from rsocket import frame as F
        t, core, rxc = await self._client(loop, case)
        n0 = len(t.sent)
        events = []
        rxc.request_response(Payload(b'q')).subscribe(on_next=lambda v: events.append(['n', (v.data or b'').hex()] + ([(v.metadata or b'').hex()] if case.get('md') else [])), on_error=lambda e: events.append(['e']),
                                                     on_completed=lambda: events.append(['c']))
        await loop.settle()
        sid = [e[2].stream_id for e in t.sent[n0:] if isinstance(e[2], F.RequestResponseFrame)][0]
        if case['error']:
            t.deliver(engine.build_frame({'ty': 'ERROR', 'sid': sid, 'code': 513}).serialize())
        else:
            fr = F.PayloadFrame()
            fr.stream_id, fr.data, fr.flags_complete = sid, bytes.fromhex(case['data']), True
            if case.get('md'):
                fr.metadata = bytes.fromhex(case['md'])      # a response may consist of metadata alone: it is an element, as in the core API
            fr.flags_next = bool(case['data'] or case.get('md'))
            t.deliver(fr.serialize())
        await loop.settle()
        await core.close()
        return {'events': events}

    async def _coneway(self, loop, case):
        from rsocket.payload import Payload
        from rsocket import frame as F
        t, core, rxc = await self._client(loop, case)
        n0 = len(t.sent)
        events = []
        o = rxc.fire_and_forget(Payload(b'ff')) if case['op'] == 'fnf' else rxc.metadata_push(b'mm')
        # the core API sends the frame when the method is called, once — however often the returned observable is subscribed (0, 1, 2 times)
        for _ in range(case.get('subs', 1)):
            o.subscribe(on_next=lambda v: events.append('n'), on_error=lambda e: events.append('e'), on_completed=lambda: events.append('c'))
        await loop.settle()
        wire = [e[1].split(' ')[0] for e in t.sent[n0:]]
        await core.close()
        return {'wire': wire, 'events': events}

    # -- handler adapters ---------------------------------------------------------------------------
    async def _server(self, loop, case, delegate_cls):
        from rsocket.rsocket_server import RSocketServer
        L = libs(case['ver'])
        t = simnet.ScriptedTransport(loop)
        server = RSocketServer(t, handler_factory=L[5](delegate_cls))
        await loop.settle()
        return t, server

    async def _honeway(self, loop, case):
        L = libs(case['ver'])
        calls = []

        class D(L[4]):
            async def on_setup(self, data_encoding, metadata_encoding, payload):
                calls.append('setup:data=%s:metadata=%s:%s' % (bytes(data_encoding).decode(), bytes(metadata_encoding).decode(), bytes(payload.data or b'').hex()))

            async def on_metadata_push(self, metadata):
                calls.append('mp:' + (metadata.metadata or b'').hex())

            async def request_fire_and_forget(self, payload):
                calls.append('fnf:' + (payload.data or b'').hex())
        t, server = await self._server(loop, case, D)
        if case['op'] == 'setup':
            t.deliver(engine.build_frame({'ty': 'SETUP', 'sid': 0, 'data': [1]}).serialize())
        elif case['op'] == 'mp':
            t.deliver(engine.build_frame({'ty': 'METADATA_PUSH', 'sid': 0, 'data': [7]}).serialize())
        elif case['op'] == 'mp-empty':
            t.deliver(engine.build_frame({'ty': 'METADATA_PUSH', 'sid': 0, 'data': []}).serialize())      # an empty push is a push (the core handler gets it)
        elif case['op'] == 'fnf-empty':
            t.deliver(engine.build_frame({'ty': 'REQUEST_FNF', 'sid': 1, 'data': []}).serialize())
        else:
            t.deliver(engine.build_frame({'ty': 'REQUEST_FNF', 'sid': 1, 'data': [8]}).serialize())
        await loop.settle()
        wire = [e[1] for e in t.sent]
        alive = not server._receiver_task.done()
        await server.close()
        return {'calls': calls, 'wire': wire, 'receiver_alive': alive}

    async def _hresp(self, loop, case):
        from rsocket.payload import Payload
        L = libs(case['ver'])
        rx = L[0]

        class D(L[4]):
            async def request_response(self, payload):
                one = rx.of(Payload(bytes.fromhex(case['data']))) if case['data'] else rx.empty()
                shape = case.get('shape', 'plain')
                if shape == 'plain':
                    return one
                if shape == 'error':
                    return rx.throw(RuntimeError('boom'))
                if shape == 'then-error':
                    return rx.concat(one, rx.throw(RuntimeError('boom')))      # the observable fails after its element: the error is the outcome
                return subject
        subject = L[2]()
        t, server = await self._server(loop, case, D)
        t.deliver(engine.build_frame({'ty': 'REQUEST_RESPONSE', 'sid': 1, 'data': [3]}).serialize())
        await loop.settle()
        if case.get('shape', 'plain').startswith('deferred'):
            early = [engine.simnet_tok(e) for e in t.sent]
            if case['data']:
                subject.on_next(Payload(bytes.fromhex(case['data'])))
                await loop.settle()
            if case['shape'] == 'deferred-then-error':
                subject.on_error(RuntimeError('boom'))
            else:
                subject.on_completed()
            await loop.settle()
            if early:
                wire = ['EARLY'] + early
                await server.close()
                return {'wire': wire}
        wire = [engine.simnet_tok(e) for e in t.sent]
        await server.close()
        return {'wire': wire}

    async def _hstream(self, loop, case):
        from rsocket.payload import Payload
        from rsocket import frame as F
        L = libs(case['ver'])
        rx, Subject = L[0], L[2]
        asked = []
        items = [Payload(bytes([i + 1])) for i in range(case['count'])]

        def plain():
            if case['error_at'] is None:
                return rx.from_iterable(items)
            return rx.concat(rx.from_iterable(items[:case['error_at']]), rx.throw(RuntimeError('boom')))

        async def agen():
            for it in (items if case['error_at'] is None else items[:case['error_at']]):
                yield it
            if case['error_at'] is not None:
                raise RuntimeError('boom')      # the application's generator fails after error_at elements

        class D(L[4]):
            async def request_stream(self, payload):
                if case['factory']:
                    def f(backpressure):
                        backpressure.subscribe(on_next=lambda n: asked.append(n), on_completed=lambda: asked.append('done'))
                        return L[8](agen().__aiter__(), backpressure)
                    return L[7](f)
                return plain()
        t, server = await self._server(loop, case, D)
        t.deliver(engine.build_frame({'ty': 'REQUEST_STREAM', 'sid': 1, 'n': case['n0'], 'data': [3]}).serialize())
        credit = case['n0']
        trace = []

        def elems():
            return [e[2].data[0] for e in t.sent if isinstance(e[2], F.PayloadFrame) and e[2].data]
        if case.get('together'):
            # the grants arrive in one read, before the adapter's producer has run: several credit values are queued at once
            for n in case['more']:
                t.deliver(engine.build_frame({'ty': 'REQUEST_N', 'sid': 1, 'n': n}).serialize())
                credit += n
            await loop.settle()
            trace.append([credit, len(elems())])
        else:
            await loop.settle()
            trace.append([credit, len(elems())])
            for n in case['more']:
                t.deliver(engine.build_frame({'ty': 'REQUEST_N', 'sid': 1, 'n': n}).serialize())
                credit += n
                await loop.settle()
                trace.append([credit, len(elems())])
        terms = [engine.simnet_tok(e) for e in t.sent if (isinstance(e[2], F.PayloadFrame) and e[2].flags_complete) or isinstance(e[2], F.ErrorFrame)]
        res = {'trace': trace, 'elems': elems(), 'asked': asked, 'terms': terms}
        await server.close()
        return res

    async def _hfactory(self, loop, case):
        from rsocket.rsocket_server import RSocketServer
        from rsocket.payload import Payload
        L = libs(case['ver'])
        rx = L[0]
        made = []

        class D(L[4]):
            def __init__(self):
                super().__init__()
                self.seen = []
                made.append(self)

            async def on_setup(self, data_encoding, metadata_encoding, payload):
                self.seen.append('setup')

            async def on_metadata_push(self, metadata):
                self.seen.append('mp')

            async def request_fire_and_forget(self, payload):
                self.seen.append('fnf')

            async def request_response(self, payload):
                return rx.of(Payload(','.join(self.seen).encode()))
        factory = L[5](D)            # one wrapper, as in `handler_factory=reactivex_handler_factory(MyHandler)`
        conns = []
        for _ in range(case['conns']):
            t = simnet.ScriptedTransport(loop)
            conns.append((t, RSocketServer(t, handler_factory=factory)))
        await loop.settle()
        want = [[] for _ in conns]
        sids = [1 for _ in conns]
        for ci, op in case['ops']:
            if ci >= len(conns):
                continue
            t = conns[ci][0]
            if op == 'setup':
                if 'setup' in want[ci]:
                    continue
                t.deliver(engine.build_frame({'ty': 'SETUP', 'sid': 0, 'data': [1]}).serialize())
            elif op == 'mp':
                t.deliver(engine.build_frame({'ty': 'METADATA_PUSH', 'sid': 0, 'data': [7]}).serialize())
            else:
                t.deliver(engine.build_frame({'ty': 'REQUEST_FNF', 'sid': sids[ci], 'data': [8]}).serialize())
                sids[ci] += 2
            want[ci].append(op)
            await loop.settle()
        answers = []
        for ci, (t, server) in enumerate(conns):
            n0 = len(t.sent)
            t.deliver(engine.build_frame({'ty': 'REQUEST_RESPONSE', 'sid': sids[ci], 'data': [3]}).serialize())
            await loop.settle()
            got = [bytes(e[2].data or b'').decode() for e in t.sent[n0:] if hasattr(e[2], 'flags_next') and e[2].stream_id == sids[ci]]
            answers.append(got[0] if got else None)
        for t, server in conns:
            await server.close()
        return {'delegates': len(made), 'answers': answers, 'want': [','.join(w) for w in want]}

    async def _hcancel(self, loop, case):
        import asyncio
        from rsocket.payload import Payload
        from rsocket import frame as F
        L = libs(case['ver'])
        Subject = L[2]
        gate = asyncio.Queue()
        yielded = []
        subject = Subject()

        async def agen():
            i = 0
            while True:
                await gate.get()          # the delegate's source produces an element only when the harness lets it
                i += 1
                yielded.append(i)
                yield Payload(bytes([i]))

        class D(L[4]):
            async def request_stream(self, payload):
                if case['source'] == 'factory':
                    return L[7](lambda backpressure: L[8](agen().__aiter__(), backpressure))
                return subject
        t, server = await self._server(loop, case, D)
        t.deliver(engine.build_frame({'ty': 'REQUEST_STREAM', 'sid': 1, 'n': case['n0'], 'data': [3]}).serialize())
        await loop.settle()

        def produce(k):
            for j in range(k):
                if case['source'] == 'factory':
                    gate.put_nowait(1)
                else:
                    yielded.append(len(yielded) + 1)
                    subject.on_next(Payload(bytes([len(yielded)])))

        def payloads():
            return len([e for e in t.sent if isinstance(e[2], F.PayloadFrame) and e[2].stream_id == 1])
        produce(case['before'])
        await loop.settle()
        sent_before, yielded_before = payloads(), len(yielded)
        t.deliver(engine.build_frame({'ty': 'CANCEL', 'sid': 1}).serialize())
        await loop.settle()
        produce(case['after'])
        await loop.settle()
        await loop.advance(50)
        res = {'sent_before': sent_before, 'sent_after_cancel': payloads() - sent_before, 'yielded_before': yielded_before,
               'yielded_after_cancel': (len(yielded) - yielded_before) if case['source'] == 'factory' else 0,
               'errors': [engine.simnet_tok(e) for e in t.sent if isinstance(e[2], F.ErrorFrame)]}
        await server.close()
        return res

    async def _hchannel(self, loop, case):
        from rsocket import frame as F
        L = libs(case['ver'])
        got = []

        class Obs:
            def on_next(self, v): got.append(['n', v.data[0] if v.data else None])
            def on_error(self, e): got.append(['e'])
            def on_completed(self): got.append(['c'])

        class D(L[4]):
            async def request_channel(self, payload):
                return L[6](observable=None, observer=Obs(), limit_rate=case['limit'])
        t, server = await self._server(loop, case, D)
        t.deliver(engine.build_frame({'ty': 'REQUEST_CHANNEL', 'sid': 1, 'n': 1, 'data': [3]}).serialize())
        await loop.settle()

        def requested():
            return sum(e[2].request_n for e in t.sent if isinstance(e[2], F.RequestNFrame))
        delivered, max_out = 0, 0
        flagged = False
        n_before_end = None
        while delivered < case['count'] and delivered < requested():
            last = delivered == case['count'] - 1 and case.get('end') == 'flag'
            if last:
                n_before_end = len([e for e in t.sent if isinstance(e[2], F.RequestNFrame)])
            t.deliver(engine.build_frame({'ty': 'PAYLOAD', 'sid': 1, 'data': [delivered + 1], 'complete': last}).serialize())
            flagged = flagged or last
            delivered += 1
            await loop.settle()
            if not last:
                max_out = max(max_out, requested() - delivered)
        if delivered == case['count'] and not flagged:
            n_before_end = len([e for e in t.sent if isinstance(e[2], F.RequestNFrame)])
            t.deliver(engine.build_frame({'ty': 'PAYLOAD', 'sid': 1, 'data': [], 'complete': True}).serialize())
            await loop.settle()
        amounts = [e[2].request_n for e in t.sent if isinstance(e[2], F.RequestNFrame)]
        late = len(amounts) - n_before_end if n_before_end is not None else 0
        await server.close()
        return {'got': got, 'amounts': amounts, 'delivered': delivered, 'max_outstanding': max_out, 'requests_after_completion': late}

    # -- model / verdict --------------------------------------------------------------------------
    def model_lines(self, case, obs):
        if obs.get('dispose_now'):
            return []
        if case['kind'] == 'cstream':
            return ['rxb %d %s' % (case['limit'], ' '.join(obs['model']))]
        if case['kind'] == 'hstream' and not case['factory'] and case['error_at'] is None:
            if case.get('together'):
                ev = ['r%d' % case['n0']] + ['r%d' % n for n in case['more']] + ['q']
            else:
                ev = ['r%d' % case['n0'], 'q'] + [x for n in case['more'] for x in ('r%d' % n, 'q')]
            return ['credit flagged=0 failing=0 count=%d %s' % (case['count'], ' '.join(ev))]
        return []

    def compare(self, case, obs, answers):
        if not answers:
            return None
        if case['kind'] == 'cstream':
            if obs['initial'] is None:
                return 'no stream request on the wire'
            body, tail = answers[0].split(' | ') if ' | ' in answers[0] else ('', answers[0])
            parts = dict(p.split('=') for p in tail.split(' '))
            final_req = int(body.split(' ')[-1]) if body else case['limit']
            if parts['legal'] != '1':
                return 'harness delivered beyond credit (harness error)'
            if final_req != obs['requested'] and not obs['disposed']:
                return 'total requested: impl %d / model %d' % (obs['requested'], final_req)
            n_impl = len([e for e in obs['events'] if e[0] == 'n'])
            if not obs['disposed'] and int(parts['observed']) != n_impl:
                return 'observed elements: impl %d / model %s' % (n_impl, parts['observed'])
            return None
        model = [m[:-1] for m in answers[0].split(' ')]
        impl = ['%d' % p for _, p in obs['trace']]
        if impl != model:
            return 'elements on the wire at quiescence points: impl %s / model %s' % (impl, model)

    def oracle(self, case, obs):
        fails = []
        k, ver = case['kind'], case['ver']
        add = lambda sig, what: fails.append({'signature': '%s:%s' % (sig, ver), 'what': what})
        if k == 'cstream' and obs.get('dispose_now'):
            if obs['requests'] > 0 and obs['cancels'] != obs['requests']:
                add('dispose-does-not-cancel', 'observable disposed in the loop iteration in which it was subscribed: %d request frame(s) went out, %d CANCEL' % (obs['requests'], obs['cancels']))
            if obs['events']:
                add('signals-after-dispose', 'observer got %s after an immediate dispose' % obs['events'])
            return fails
        if k == 'cstream':
            if obs['initial'] != case['limit']:
                add('initial-request-not-the-limit', 'request_limit=%d but initial request-n %s' % (case['limit'], obs['initial']))
            if any(a != case['limit'] for a in obs['amounts']):
                add('request-amount-not-the-limit', 'request_limit=%d but REQUEST_N amounts %s' % (case['limit'], obs['amounts']))
            if obs['max_outstanding'] > case['limit']:
                add('outstanding-credit-exceeds-limit', 'limit %d, outstanding credit reached %d' % (case['limit'], obs['max_outstanding']))
            vals = [e[1] for e in obs['events'] if e[0] == 'n']
            if vals != list(range(1, len(vals) + 1)):
                add('observer-elements-altered', 'observer received %s' % vals)
            if not obs['disposed']:
                if obs['stalled']:
                    add('adapter-stalled', 'delivered %d of %d, requested %d: the adapter requested no more' % (obs['delivered'], case['count'], obs['requested']))
                elif len(vals) != obs['delivered']:
                    add('observer-elements-lost', 'delivered %d, observer received %d' % (obs['delivered'], len(vals)))
                else:
                    term = [e[0] for e in obs['events'] if e[0] in ('c', 'e')]
                    want = ['e'] if case['end'] == 'error' else ['c']
                    if term != want:
                        add('terminal-signal-altered', 'server ended with %s, observer saw %s' % (case['end'], term))
                    elif obs['cancels']:
                        # as with the core API: a stream that ended by itself is not cancelled afterwards
                        add('cancel-for-a-stream-that-ended-by-itself', 'the stream ended with %s after %d elements and was not disposed: the client sent %d CANCEL frame(s) for it' % (
                            case['end'], obs['delivered'], obs['cancels']))
            else:
                if obs['cancels'] != 1 and not (case['end'] == 'flag' and obs['delivered'] == case['count'] and case['count'] > 0):
                    add('dispose-does-not-cancel', 'observable disposed after %d elements, %d CANCEL frames' % (obs['delivered'], obs['cancels']))
        elif k == 'cresp':
            if case['error']:
                if obs['events'] != [['e']]:
                    add('response-error-altered', str(obs['events']))
            else:
                md = case.get('md')
                want = ([['n', case['data']] + ([md] if md else [])] if (case['data'] or md) else []) + [['c']]
                if obs['events'] != want:
                    add('response-altered', 'server answered data %r metadata %r, observer saw %s' % (case['data'], md, obs['events']))
        elif k == 'coneway':
            want = 'REQUEST_FNF' if case['op'] == 'fnf' else 'METADATA_PUSH'
            if want not in obs['wire']:
                add('one-way-request-not-sent', '%s called once (result subscribed %d times): wire %s' % (case['op'], case.get('subs', 1), obs['wire']))
            elif obs['wire'].count(want) != 1:
                add('one-way-request-sent-more-than-once', '%s called once (result subscribed %d times): wire %s' % (case['op'], case.get('subs', 1), obs['wire']))
        elif k == 'honeway':
            want = {'setup': 'setup:data=c/d:metadata=a/b:01', 'mp': 'mp:07', 'fnf': 'fnf:08', 'mp-empty': 'mp:', 'fnf-empty': 'fnf:'}[case['op']]
            if obs['calls'] != [want]:
                add('delegate-not-reached:' + case['op'], 'the %s reached the delegate as %s (wire: %s)' % (case['op'], obs['calls'], obs['wire'][:2]))
            if any(w.startswith('ERROR') for w in obs['wire']):
                add('one-way-request-answered-with-error:' + case['op'], str(obs['wire'][:2]))
        elif k == 'hfactory':
            if obs['answers'] != obs['want']:
                add('handler-delegate-shared-between-connections', '%d connections through one %s handler-factory wrapper, %d delegate instances; each connection\'s delegate should have seen %s, the connections\' delegates report %s' % (
                    case['conns'], case['ver'], obs['delegates'], obs['want'], obs['answers']))
        elif k == 'hcancel':
            how = '%s source behind the %s handler adapter, %d elements before the CANCEL, %d offered after it, initial request-n %d' % (case['source'], case['ver'], case['before'], case['after'], case['n0'])
            if obs['sent_after_cancel']:
                add('handler-elements-after-cancel', '%s: %d PAYLOAD frames reached the wire after the CANCEL was processed' % (how, obs['sent_after_cancel']))
            if obs['yielded_after_cancel']:
                add('handler-source-pulled-after-cancel', '%s: the delegate\'s generator was advanced %d more times after the CANCEL' % (how, obs['yielded_after_cancel']))
            if obs['errors']:
                add('handler-cancel-answered-with-error', '%s: %s' % (how, obs['errors']))
        elif k == 'hresp':
            want = 'S:PAYLOAD:1:01%s0:0:0:%s' % ('1' if case['data'] else '0', ','.join(str(b) for b in bytes.fromhex(case['data'])) or '-')
            if 'error' in case.get('shape', 'plain'):
                if len(obs['wire']) != 1 or not obs['wire'][0].startswith('S:ERROR:1:'):
                    add('handler-error-not-preserved', 'the delegate\'s response observable (%s, element %r) ended with an error, wire %s' % (case['shape'], case['data'], obs['wire']))
            elif obs['wire'] != [want]:
                add('handler-response-altered', 'delegate answered %r (%s), wire %s' % (case['data'], case.get('shape', 'plain'), obs['wire']))
        elif k == 'hstream':
            for credit, sent in obs['trace']:
                if sent > credit:
                    add('handler-elements-exceed-credit', '%d elements on the wire with credit %d' % (sent, credit))
                    break
            n_ok = case['count'] if case['error_at'] is None else min(case['error_at'], case['count'])
            if obs['elems'] != list(range(1, len(obs['elems']) + 1)) or len(obs['elems']) > n_ok:
                add('handler-elements-altered', 'wire elements %s' % obs['elems'])
            total = case['n0'] + sum(case['more'])
            if case['factory']:
                exp = [case['n0']] + case['more']
                got = [a for a in obs['asked'] if a != 'done']
                # credits are forwarded while the stream is alive: it ends once the cumulative credit exceeds the element count
                need, acc = [], 0
                for c in exp:
                    need.append(c)
                    acc += c
                    if acc > n_ok:
                        break
                if got[:len(need)] != need or got != exp[:len(got)]:
                    add('factory-credits-altered', 'credits %s reached the observable factory as %s' % (exp, got))
            if total > n_ok and len(obs['elems']) != n_ok:
                add('handler-elements-withheld', '%d of %d elements with credit %d' % (len(obs['elems']), n_ok, total))
            if case['error_at'] is not None and case['error_at'] <= case['count'] and total > n_ok and not any(t.startswith('S:ERROR') for t in obs['terms']):
                add('handler-error-lost', 'observable failed after %d elements; wire terminals %s' % (n_ok, obs['terms']))
            if case['error_at'] is None and total > case['count'] and not any(t.startswith('S:PAYLOAD') for t in obs['terms']) and not any(t.startswith('S:ERROR') for t in obs['terms']):
                add('handler-completion-lost', 'the observable completed after %d elements and the credit (%d) exceeds them, but no COMPLETE reached the wire (terminals %s)' % (case['count'], total, obs['terms']))
        else:
            vals = [e[1] for e in obs['got'] if e[0] == 'n']
            if vals != list(range(1, len(vals) + 1)) or len(vals) != obs['delivered']:
                add('channel-observer-elements-altered', 'delivered %d, observer saw %s' % (obs['delivered'], vals))
            if any(a != case['limit'] for a in obs['amounts']):
                add('request-amount-not-the-limit', 'limit_rate=%d but REQUEST_N amounts %s' % (case['limit'], obs['amounts']))
            if obs['max_outstanding'] > case['limit']:
                add('outstanding-credit-exceeds-limit', 'limit %d, outstanding %d' % (case['limit'], obs['max_outstanding']))
            if obs['delivered'] == case['count'] and [e for e in obs['got'] if e[0] == 'c'] != [['c']]:
                add('terminal-signal-altered', 'completion not delivered to the channel observer: %s' % obs['got'][-2:])
            if obs['delivered'] < case['count']:
                add('adapter-stalled', 'channel observer: delivered %d of %d, no more credit requested' % (obs['delivered'], case['count']))
            if obs.get('requests_after_completion'):
                add('request-n-after-completion', 'the adapter sent %d REQUEST_N after the requester completed (limit %d, %d elements, end=%s)' % (
                    obs['requests_after_completion'], case['limit'], case['count'], case.get('end')))
        return fails

    def nontrivial(self, case, obs):
        k = case['kind']
        if k == 'cstream' and (case['count'] > case['limit'] or case['end'] == 'error' or case['dispose_after'] is not None):
            return json.dumps(case, sort_keys=True)
        if k in ('honeway', 'hstream', 'hchannel', 'hresp', 'cresp', 'hcancel', 'hfactory'):
            return json.dumps(case, sort_keys=True)
        return None

    def stats(self, case, obs):
        yield 'ver=' + case['ver']
        yield 'kind=' + case['kind']

    def shrink_candidates(self, case):
        if case['kind'] == 'cstream':
            if case['count'] > 0:
                yield dict(case, count=case['count'] - 1)
            if case['burst'] > 1:
                yield dict(case, burst=1)
        if case['kind'] == 'hstream':
            for i in range(len(case['more'])):
                yield dict(case, more=case['more'][:i] + case['more'][i + 1:])


PROP = C20()
