"""C07 — every interaction terminates at most once at the API."""
from harness.engineprop import EngineProp, flat


class C07(EngineProp):
    id = 'C07'
    lean_modules = ['RSocketModel.Props.C07']
    profiles = ['legal', 'legal', 'loss', 'cancel']
    technique = 'Lean 4 proof (invariant over all event sequences of the engine model) + event-level differential correspondence with the real endpoint'
    level_text = ('c07_grammar: for every event sequence from the initial state of either role (API calls, application signals, received frames of any kind, done-callbacks in any order, '
                  'connection loss / stop_all_streams at any point) and every application object, the signals addressed to it are accepted by the automaton idle -on_subscribe-> active '
                  '-on_next*-> active -terminal-> done, idle -future result/error-> done; consequences proved without the automaton: c07_nothing_after_terminal, c07_on_subscribe_first, '
                  'c07_on_subscribe_once, c07_at_most_one_terminal, c07_cancelled_future_not_resolved, c07_pending_future_resolved_on_loss. Kernel-checked by induction over runs with the '
                  'invariant Rel (phase vs. engine state) preserved by every entry point (step_good). The real endpoint is run on generated scripts and the model replayed on the observed '
                  'entry-point sequence (event-level correspondence); the oracle checks the same grammar on the recorded application callbacks, and on the signals the library\'s own stream sources (generator, async generator, Rx 3 / ReactiveX 4 publishers; completing, flagged, failing) send to their subscriber.')
    level_note = 'Trusted: Lean kernel + standard axioms; the order in which asyncio runs entry points is observed, not modelled; application objects are recorders.'
    design_ref = '§5 C07'
    rule = ('scripts of 6..30 groups of 1..3 stimuli (local API calls, application publisher/future signals, protocol-legal peer frames incl. in-flight frames after a local '
            'cancel, connection loss by EOF or transport error) chosen adaptively from what is enabled, both roles; every entry point (API call, received frame, done-callback, loss) '
            'is logged in execution order and replayed on the Lean engine model; non-trivial = at least 4 entry points and one stream object; distinct = distinct entry-point sequence; plus the signal grammar at the subscribers of the library sources, and the TCP teardown scenarios of C11 (requests issued inside on_error / on_close or on an endpoint whose connection is already lost) judged for resolved-exactly-once')
    assumptions = ['the peer is protocol-legal and the application obeys reactive-streams (no signal after its own terminal)']

    # -- the library's own publishers drive a subscriber too (the handler's StreamSubscriber, or any subscriber attached to them) ----------
    def cases(self, rng, tier):
        from harness import sources
        out = super().cases(rng, tier)
        for _ in range(400 if tier == 'quick' else 8000):
            steps = []
            for _ in range(rng.randint(1, 4)):
                steps.append(['r', rng.choice([1, 2, 3, 7, 20])])
                steps.append(rng.choice([['t', 1], ['t', 2], ['q'], ['t', 1]]))
            steps.append(['q'])
            kind = rng.choice(sources.KINDS)
            count = rng.choice([0, 1, 2, 3, 5, 8])
            out.append({'mode': 'source', 'role': 'server', 'profile': 'source', 'kind': kind, 'count': count,
                        'flagged': rng.random() < 0.4 and kind in ('gen', 'agen') and count > 0, 'failing': rng.random() < 0.5, 'steps': steps})
        # awaitables obtained while the connection is going away (a fallback request issued inside on_error / on_close, or on an endpoint
        # whose connection is already lost): the TCP scenarios of C11, judged here for "resolved exactly once" - not zero times
        from harness.props import c11
        k = 0
        for c in c11.PROP.cases(rng, 'quick' if tier == 'quick' else 'thorough'):
            if c.get('mode') == 'tcp' and (c.get('ask_in_on_error') or c.get('ask_in_on_close') or c.get('late_rr')):
                out.append({'mode': 'teardown', 'role': c['role'], 'profile': 'teardown', 'kind': 'tcp', 'c11': c})
                k += 1
                if k >= (120 if tier == 'quick' else 2000):
                    break
        return out

    def run_impl(self, case):
        if case.get('mode') == 'source':
            from harness import detloop, sources
            return detloop.run(sources.drive, case)
        if case.get('mode') == 'teardown':
            from harness.props import c11
            return c11.PROP.run_impl(case['c11'])
        return super().run_impl(case)

    def model_lines(self, case, obs):
        return [] if case.get('mode') in ('source', 'teardown') else super().model_lines(case, obs)

    def compare(self, case, obs, answers):
        return None if case.get('mode') in ('source', 'teardown') else super().compare(case, obs, answers)

    def nontrivial(self, case, obs):
        if case.get('mode') == 'teardown':
            import json
            return json.dumps(case, sort_keys=True)
        if case.get('mode') == 'source':
            import json
            return json.dumps(case, sort_keys=True) if obs['events'] else None
        return super().nontrivial(case, obs)

    def stats(self, case, obs):
        if case.get('mode') == 'teardown':
            yield 'mode=teardown'
            return
        if case.get('mode') == 'source':
            yield 'mode=source'
            yield 'kind=' + case['kind']
            return
        yield from super().stats(case, obs)

    def shrink_candidates(self, case):
        if case.get('mode') == 'teardown':
            return
        if case.get('mode') == 'source':
            st = case['steps']
            for i in range(len(st) - 1):
                yield dict(case, steps=st[:i] + st[i + 1:])
            return
        yield from super().shrink_candidates(case)

    def explicit(self, case, obs):
        return case if case.get('mode') in ('source', 'teardown') else super().explicit(case, obs)

    def oracle(self, case, obs):
        if case.get('mode') == 'teardown':
            fails = []
            sweep = set(obs.get('asked_in_final_sweep') or [])
            for name in ('futures', 'late_futures', 'asked_in_on_close'):
                for i, f in enumerate(obs.get(name) or []):
                    if f == 'pending' and name == 'asked_in_on_close' and i in sweep:
                        fails.append({'signature': 'awaitable-never-resolved:issued-inside-on_error-during-the-final-sweep', 'what': 'a fallback request-response issued by a subscriber inside on_error, while close() was failing the streams of an already lost connection (%s endpoint), is never resolved (F22)' % case['c11']['role']})
                    elif f == 'pending':
                        fails.append({'signature': 'awaitable-never-resolved', 'what': 'request-response awaitable %s[%d] (%s endpoint over TransportTCP, connection ended by %s) is still pending after close(): resolved zero times' % (
                            name, i, case['c11']['role'], case['c11']['cut'])})
            return fails
        if case.get('mode') == 'source':
            fails = []
            term = None
            term_credit = None
            for k, e in enumerate(obs['events']):
                name = e[0]
                if term is not None and e[3] != term_credit:
                    break      # the subscriber asked for more after the terminal signal: whatever that provokes is not the library's doing
                if term is not None:
                    fails.append({'signature': 'source-signal-after-terminal:' + case['kind'],
                                  'what': 'the %s source signalled %s after its terminal signal (%s): %s' % (case['kind'], name, term, [x[0] + (':c' if x[0] == 'next' and x[2] else '') for x in obs['events']])})
                    break
                if name in ('complete', 'error') or (name == 'next' and e[2]):
                    term = name
                    term_credit = e[3]
            return fails
        fails = []
        seen = {}
        for i, m, t in flat(obs):
            p = t.split(':')
            if p[0] in ('OS', 'ON', 'OC', 'OE'):
                oid = int(p[1])
                st = seen.setdefault(oid, {'sub': False, 'term': False})
                kind = obs['kinds'][oid] if oid < len(obs['kinds']) else '?'
                if p[0] == 'OS':
                    if st['sub']:
                        fails.append({'signature': 'on-subscribe-twice', 'what': '%s %d received on_subscribe twice' % (kind, oid)})
                    st['sub'] = True
                    continue
                if not st['sub']:
                    fails.append({'signature': 'signal-before-on-subscribe', 'what': '%s %d got %s before on_subscribe (step %d %s)' % (kind, oid, t, i, m)})
                if st['term']:
                    fails.append({'signature': 'subscriber-signal-after-terminal:' + kind,
                                  'what': '%s %d got %s after its terminal signal (step %d %s)' % (kind, oid, t, i, m)})
                if p[0] in ('OC', 'OE') or (p[0] == 'ON' and p[3] == '1'):
                    st['term'] = True
        futs = {}
        for i, m, t in flat(obs):
            p = t.split(':')
            if p[0] in ('FR', 'FE'):
                futs[int(p[1])] = futs.get(int(p[1]), 0) + 1
        for oid, n in futs.items():
            if n > 1:
                fails.append({'signature': 'future-resolved-twice', 'what': 'request-response %d resolved %d times' % (oid, n)})
        # an exception inside a handler entry point shows up as an ERROR frame emitted by a *requester* of request-response
        for i, m, t in flat(obs):
            if t.startswith('S:ERROR:'):
                sid = int(t.split(':')[2])
                for oid, (k, s) in enumerate(zip(obs['kinds'], obs['sids'])):
                    if k == 'rrReq' and s == sid:
                        fails.append({'signature': 'requester-internal-error', 'what': 'request-response requester on stream %d emitted ERROR (step %d %s): its future was set twice' % (sid, i, m)})
        return fails


PROP = C07()
