"""C01 — end-to-end payload delivery and correlation: a real client and a real server joined by a simulated link;
all five interaction models started by either side concurrently; payloads from 0 bytes to several fragments;
fragmentation on/off; both framings; delivery order and read chunking chosen by the harness."""
import asyncio
import json
import random

from harness.core import Prop
from harness import detloop, link as L


def pay(tag, dsize, msize):
    from rsocket.payload import Payload
    d = bytes([tag % 251 + 1]) * dsize
    m = bytes([(tag * 7) % 251 + 1]) * msize
    return Payload(d if dsize else None, m if msize else None)


def key(p):
    return [(p.data or b'').hex(), (p.metadata or b'').hex()]


def nonempty(k):
    return bool(k[0] or k[1])


class Side:
    """application on one endpoint: issues the planned interactions and answers the peer's"""

    def __init__(self, name, plans):
        self.name, self.plans = name, plans      # plans: pid -> dict
        self.handed = {}       # (pid, direction) -> list of payload keys handed to the library
        self.got = {}          # (pid, direction) -> list of payload keys received from the library
        self.signals = {}      # (pid, direction) -> terminal signals
        self.oneway = []       # fnf / metadata-push payloads received by the handler
        self.pending_futures = []
        self.publishers = []

    def handler_class(self, other):
        from rsocket.request_handler import BaseRequestHandler
        from rsocket.payload import Payload
        me = self

        class Pub:
            def __init__(self, pid, items, direction, fail=False):
                self.pid, self.items, self.direction, self.fail = pid, list(items), direction, fail
                self.credit, self.sub, self.done, self.cancelled = 0, None, False, False

            def subscribe(self, subscriber):
                self.sub = subscriber
                subscriber.on_subscribe(self)
                me.publishers.append(self)

            def request(self, n):
                self.credit += n

            def cancel(self):
                self.cancelled = True

            def pump(self, k):
                """emit up to k elements as credit allows; returns whether something happened"""
                did = False
                while k > 0 and self.credit > 0 and self.items and not self.cancelled:
                    p = self.items.pop(0)
                    last = not self.items
                    me.handed.setdefault((self.pid, self.direction), []).append(key(p))
                    self.credit -= 1
                    k -= 1
                    did = True
                    self.sub.on_next(p, last and (self.pid % 2 == 0) and not self.fail)
                    if last and self.pid % 2 == 0 and not self.fail:
                        self.done = True
                    if last and self.fail:
                        # the publisher fails right after its last element: the error must not overtake that element
                        self.done = True
                        self.sub.on_error(RuntimeError('publisher failed'))
                if not self.items and not self.done and not self.cancelled:
                    self.done = True
                    if self.fail:
                        self.sub.on_error(RuntimeError('publisher failed'))
                    else:
                        self.sub.on_complete()
                    did = True
                return did
        self.Pub = Pub

        class Sub:
            def __init__(self, pid, direction, n0=3):
                self.pid, self.direction, self.n0 = pid, direction, n0
                self.subscription = None
                self.count = 0

            def on_subscribe(self, s):
                self.subscription = s

            def on_next(self, v, is_complete=False):
                k = key(v)
                if nonempty(k):
                    me.got.setdefault((self.pid, self.direction), []).append(k)
                    self.count += 1
                    if self.count % 2 == 0:
                        self.subscription.request(2)
                if is_complete:
                    me.signals.setdefault((self.pid, self.direction), []).append('complete')

            def on_complete(self):
                me.signals.setdefault((self.pid, self.direction), []).append('complete')

            def on_error(self, e):
                me.signals.setdefault((self.pid, self.direction), []).append('error')
        self.Sub = Sub

        def pid_of(payload):
            return int(bytes(payload.data)[:4])

        class H(BaseRequestHandler):
            async def request_response(self, payload):
                pid = pid_of(payload)
                plan = other.plans[pid]
                me.got.setdefault((pid, 'req'), []).append(key(payload))
                fut = asyncio.get_event_loop().create_future()
                resp = pay(plan['tag'] + 50, plan['rd'], plan['rm'])
                me.handed.setdefault((pid, 'resp'), []).append(key(resp))
                if plan['late']:
                    me.pending_futures.append((fut, resp))
                else:
                    fut.set_result(resp)
                return fut

            async def request_stream(self, payload):
                pid = pid_of(payload)
                plan = other.plans[pid]
                me.got.setdefault((pid, 'req'), []).append(key(payload))
                return Pub(pid, [pay(plan['tag'] + 60 + i, d, m) for i, (d, m) in enumerate(plan['items'])], 'resp', plan.get('fail_resp', False))

            async def request_channel(self, payload):
                pid = pid_of(payload)
                plan = other.plans[pid]
                me.got.setdefault((pid, 'req'), []).append(key(payload))
                pub = Pub(pid, [pay(plan['tag'] + 60 + i, d, m) for i, (d, m) in enumerate(plan['items'])], 'resp', plan.get('fail_resp', False))
                sub = Sub(pid, 'up')
                orig = sub.on_subscribe

                def on_subscribe(s):
                    orig(s)
                    s.request(3)
                sub.on_subscribe = on_subscribe
                return pub, sub

            async def request_fire_and_forget(self, payload):
                me.oneway.append(['fnf'] + key(payload))

            async def on_metadata_push(self, payload):
                me.oneway.append(['mp'] + key(payload))
        return H

    def start(self, ep, pid):
        from rsocket.payload import Payload
        plan = self.plans[pid]
        head = b'%04d' % pid
        t = plan['tag']
        req = Payload(head + bytes([t % 251 + 1]) * plan['qd'], bytes([(t * 7) % 251 + 1]) * plan['qm'] if plan['qm'] else None)
        self.handed.setdefault((pid, 'req'), []).append(key(req))
        k = plan['kind']
        if k == 'rr':
            fut = ep.request_response(req)
            plan['fut'] = fut
        elif k == 'fnf':
            ep.fire_and_forget(req)
        elif k == 'mp':
            ep.metadata_push(bytes(req.metadata or b'') + head)
            self.handed[(pid, 'req')] = [['', (bytes(req.metadata or b'') + head).hex()]]
        elif k == 'stream':
            sub = self.Sub(pid, 'resp')
            ep.request_stream(req).initial_request_n(plan['n0']).subscribe(sub)
        else:
            pub = self.Pub(pid, [pay(t + 100 + i, d, m) for i, (d, m) in enumerate(plan['up'])], 'up', plan.get('fail_up', False))
            sub = self.Sub(pid, 'resp')
            ep.request_channel(req, pub).initial_request_n(plan['n0']).subscribe(sub)


class C01(Prop):
    id = 'C01'
    lean_modules = ['RSocketModel.Props.C01', 'RSocketModel.Props.C01Api']
    technique = 'Lean 4 proof (composition of the codec, fragmentation, parser and send-queue theorems; per-stream independence of the fragment cache) + full-stack differential run'
    level_text = ('PARTIAL (composition). Kernel-checked: c01_pipeline — for every schedule of application sends and sender passes that drains the queue, every fragment size >= the minimum, every mix of streams, '
                  'what the receiver-side reassembly delivers per stream is exactly the frames handed to the library for that stream: each once, in order, content and flags intact, nothing from another stream '
                  '(composes C03 fragmentation/reassembly, C05 send-queue order, and deliver_proj: the fragment cache treats interleaved streams independently); c01_transport — with a round-tripping codec any chunking of the '
                  'length-prefixed byte stream parses to the same frames (instance of C04); c01_end_to_end — both together; c01_drainable (the drain hypothesis is satisfiable for every input); '
                  'c01_response_reaches_its_requester and c01_dispatch_by_stream_id on the engine model. c01_end_to_end_bytes closes the codec hypothesis with the C02 encoder/decoder themselves (Proofs/Bridge.lean: bridge, onWire_toFrames, encF_length): frames within the wire ranges, real serialisation of every fragment, any chunking. '
                  'c01_api_payloads_end_to_end (Props/C01Api.lean) puts the frame builders of rsocket/frame_builders.py - regenerated from their source on every run, c02_builders_match_source - in front of it: the Payload objects (each part None, empty or bytes) handed to payload-carrying builder calls arrive per stream as exactly those (metadata, data) pairs, in order, through fragmentation, interleaving, real serialisation and any read chunking; c01_base_is_built_frame ties the frame of the fragmentation model to the frame the builder returns. c01_two_endpoints — two engine models (client and server) joined by a FIFO of whole frames per direction, every interleaving of local entry points on either side with deliveries: for every stream id and either endpoint, the non-empty payloads handed to the application are a subsequence of those the peer\'s application handed in on that stream, in order (nothing twice, altered, reordered or on another stream; steps that process no frame deliver nothing); c01_element_reaches_its_subscriber / c01_request_reaches_handler (nothing lost while the receiver is registered). '
                  'Which subscriber a reassembled frame reaches is stated on the engine model, which sees whole frames (the byte path below it is c01_end_to_end_bytes; the two are composed by argument, not by one theorem); timing and asyncio scheduling are outside the models. Correspondence run: a real client and a real server joined by a simulated link, '
                  'all five interaction models from both sides, payloads of 0 bytes to several fragments, both framings, harness-chosen delivery order and read chunking.')
    level_note = 'Trusted: as C02–C05 and C07; that asyncio runs the sender/receiver tasks in one of the modelled orders is covered by the full-stack run only.'
    design_ref = '§5 C01'
    rule = ('3..12 concurrent interactions of the five models started by either side, payload sizes 0..4 fragments (data and metadata), fragment size none/64/100, message and byte-stream framing '
            '(reads of 1..400 bytes), a quarter of the runs with a lease-honouring client whose requests wait for small grants (1..3) issued by the harness through the server\'s lease publisher, a fifth of the message-framing runs with client writes that take longer (45 ms of virtual time) than the client keepalive period (40 ms), so that the keepalive timer fires while the sender is inside a write, random delivery order between the two directions, publishers paced 1..3 elements per round, futures resolved late; non-trivial = at least one payload '
            'spanning several fragments while another interaction is active; distinct = distinct case seed; plus a payload of about 17000..22000 fragments that reaches the receiver in one burst (message and byte-stream framing) with a small one behind it; plus a reconnecting client (1..3 reconnects after EOF / transport error / while healthy, from the harness or from on_close) with a fragmented peer request or response left half-received on the first stream ids when the connection goes away (the caller may have cancelled): the requests and responses of the next connection must arrive exactly as sent')
    assumptions = []

    def cases(self, rng, tier):
        n = 400 if tier == 'quick' else 5000
        out = [{'seed': rng.getrandbits(40), 'tcp': rng.random() < 0.5, 'frag': rng.choice([None, 64, 64, 100]), 'n': rng.randint(3, 12),
                'lease': rng.random() < 0.25,
                # the client's writes take longer than its keepalive period: the keepalive timer fires while the sender is inside a write
                'slow_ka': rng.random() < 0.2} for _ in range(n)]
        # a payload of tens of thousands of fragments that reaches the receiver in one burst (everything the sender wrote is there before the
        # receiver runs once): nothing of it may be lost on the way to the application
        for i in range(2 if tier == 'quick' else 8):
            out.append({'kind': 'huge', 'frag': 64, 'tcp': i % 2 == 1, 'size': rng.choice([1_000_000, 1_300_000]), 'side': rng.randint(0, 1), 'seed': rng.getrandbits(30)})
        # last words: everything was written, then the sender closes - the FIN is there together with the last bytes
        for i in range(12 if tier == 'quick' else 200):
            out.append({'kind': 'huge', 'frag': rng.choice([None, 64]), 'tcp': True, 'size': rng.choice([1, 10, 100, 300, 5000]), 'side': rng.randint(0, 1), 'seed': rng.getrandbits(30), 'fin': True})
        # a reconnecting client: what the previous connection left half-received must not leak into the interactions of the next one
        for _ in range(80 if tier == 'quick' else 2000):
            out.append({'kind': 'reconnect', 'frag': 64, 'seed': rng.getrandbits(40), 'rounds': rng.randint(1, 3),
                        'cut': [rng.choice(['peer-request', 'response-after-cancel', 'response', 'none']) for _ in range(3)],
                        'cause': rng.choice(['eof', 'error', 'healthy']), 'via': rng.choice([None, 'plain', 'suspend']),
                        'sizes': [rng.choice([1, 30, 100, 200]) for _ in range(6)], 'whole': rng.random() < 0.4,
                        'before': [rng.random() < 0.4 for _ in range(3)],
                        # a channel whose application publisher is still producing when the connection goes away, and a channel opened on the
                        # next connection (same stream id): the responder of the new one receives the elements of its own publisher only
                        'chan': rng.random() < 0.5})
        return out

    def run_impl(self, case):
        if case.get('kind') == 'reconnect':
            return detloop.run(self._reconnect, case)
        if case.get('kind') == 'huge':
            return detloop.run(self._huge, case)
        return detloop.run(self._scenario, case)

    async def _huge(self, loop, case):
        from rsocket.rsocket_client import RSocketClient
        from rsocket.rsocket_server import RSocketServer
        from rsocket.helpers import single_transport_provider, create_future
        from rsocket.request_handler import BaseRequestHandler
        from rsocket.payload import Payload
        from datetime import timedelta
        got = []

        class H(BaseRequestHandler):
            async def request_fire_and_forget(self, payload):
                got.append([len(payload.data or b''), __import__('hashlib').sha1(bytes(payload.data or b'')).hexdigest()])
        rng = random.Random(case['seed'])
        lk = L.Link(loop, case['tcp'])
        server = RSocketServer(lk.ends[1], handler_factory=H, fragment_size_bytes=case['frag'])
        client = RSocketClient(single_transport_provider(lk.ends[0]), handler_factory=H, fragment_size_bytes=case['frag'],
                               keep_alive_period=timedelta(seconds=100000), max_lifetime_period=timedelta(seconds=1000000))
        await client.connect()
        await loop.settle()
        while await lk.deliver(0, rng):
            await loop.settle()
        data = bytes((i * 7 + 3) % 251 for i in range(case['size']))
        side = case['side']
        [client, server][side].fire_and_forget(Payload(data))
        small = Payload(b'after')
        await loop.settle()           # the sender writes every fragment: all of it is on the link now
        [client, server][side].fire_and_forget(small)
        await loop.settle()
        n = await lk.deliver_burst(side)
        if case.get('fin') and case['tcp']:
            # the sender closes right after its last write: the FIN reaches the receiver together with the last bytes
            lk.readers[1 - side].feed_eof()
        await loop.settle()
        for _ in range(5):
            await lk.deliver_burst(side)
            await loop.settle()
        want = [[len(data), __import__('hashlib').sha1(data).hexdigest()], [5, __import__('hashlib').sha1(b'after').hexdigest()]]
        res = {'want': want, 'got': got, 'messages': n, 'pump_dead': lk.ends[1 - side].pump_dead if not case['tcp'] else None}
        try:
            await client.close()
            await server.close()
        except Exception:
            pass
        return res

    async def _reconnect(self, loop, case):
        from harness import clientrun, simnet
        from rsocket import frame as F
        from rsocket.payload import Payload
        from rsocket.request_handler import BaseRequestHandler
        from rsocket.exceptions import RSocketTransportError
        from rsocket.helpers import create_future
        served = []

        class H(BaseRequestHandler):
            async def request_response(self, payload):
                served.append(key(payload))
                return create_future(Payload(b'ack' + (payload.data or b'')[:4]))
        R = clientrun.ClientRun(loop, n_transports=case['rounds'] + 1, ka_ms=10_000_000, life_ms=100_000_000, handler_cls=H, fragment_size_bytes=case['frag'])
        c = R.build()
        await c.connect()
        await loop.settle()

        def frags(fr, size):
            fr.fragment_size_bytes = size
            out = []
            while True:
                f = fr.get_next_fragment(False)
                if f is None:
                    return out
                out.append(f.serialize())
                if not f.flags_follows:
                    return out

        def peer_request(sid, tag, dsize, msize, whole):
            fr = F.RequestResponseFrame()
            fr.stream_id = sid
            fr.data, fr.metadata = bytes([tag]) * dsize, bytes([tag + 1]) * msize
            return frags(fr, None if whole else 64), [fr.data.hex(), fr.metadata.hex()]

        def peer_response(sid, tag, dsize, msize, whole):
            fr = F.PayloadFrame()
            fr.stream_id, fr.flags_complete, fr.flags_next = sid, True, True
            fr.data, fr.metadata = bytes([tag]) * dsize, bytes([tag + 1]) * msize
            return frags(fr, None if whole else 64), [fr.data.hex(), fr.metadata.hex()]

        async def sid_of_last_request(t, n0):
            req = [e for e in t.sent[n0:] if isinstance(e[2], F.RequestResponseFrame)]
            return req[-1][2].stream_id if req else None
        want_req, want_resp, got_resp = [], [], []
        leftovers = []
        sz = case['sizes']
        from reactivestreams.publisher import Publisher
        from reactivestreams.subscription import Subscription
        from reactivestreams.subscriber import DefaultSubscriber

        class Paced(Publisher, Subscription):
            # an application publisher: emits when told to, within its demand and until it is cancelled
            def __init__(self):
                self.sub, self.demand, self.cancelled = None, 0, False

            def subscribe(self, subscriber):
                self.sub = subscriber
                subscriber.on_subscribe(self)

            def request(self, n):
                self.demand += n

            def cancel(self):
                self.cancelled = True

            def emit(self, data, complete=False):
                if self.cancelled or self.demand <= 0 or self.sub is None:
                    return False
                self.demand -= 1
                try:
                    self.sub.on_next(Payload(data), complete)
                except Exception:
                    pass
                return True

        async def open_channel(t, first):
            n0 = len(t.sent)
            pub = Paced()
            c.request_channel(Payload(first), pub).initial_request_n(5).subscribe(DefaultSubscriber())
            await loop.settle()
            req = [e for e in t.sent[n0:] if isinstance(e[2], F.RequestChannelFrame)]
            sid = req[-1][2].stream_id if req else None
            if sid is not None:
                g = F.RequestNFrame()
                g.stream_id, g.request_n = sid, 10
                t.deliver(g.serialize())
                await loop.settle()
            return pub, sid, n0
        old_pubs, chan_want, chan_got = [], [], []
        for rnd in range(case['rounds'] + 1):
            t = R.transports[rnd]
            tag = 10 + 20 * rnd
            if case.get('chan'):
                pub, csid, n0 = await open_channel(t, b'open%d' % rnd)
                for p_old in old_pubs:      # the producers behind the publishers of the connections that are gone are still running
                    p_old.emit(b'stale'), p_old.emit(b'stale')
                await loop.settle()
                for i in range(2):
                    pub.emit(b'el%d-%d' % (rnd, i))
                await loop.settle()
                chan_want.append([b'open%d' % rnd, b'el%d-0' % rnd, b'el%d-1' % rnd] if csid is not None else ['no-request-frame'])
                chan_got.append([bytes(e[2].data or b'') for e in t.sent[n0:] if isinstance(e[2], (F.RequestChannelFrame, F.PayloadFrame)) and e[2].stream_id == csid])
                old_pubs.append(pub)
            # 1. the interactions of this connection, complete: the peer asks, the client asks (a connection that is going to be lost may
            # go straight to step 2, so that the half-received frame sits on the first stream id of either parity)
            last = rnd == case['rounds']
            peer_sid = 2
            if last or case['before'][rnd % 3]:
                blobs, w = peer_request(peer_sid, tag, sz[0], sz[1], case['whole'])
                peer_sid += 2
                want_req.append(w)
                for b in blobs:
                    t.deliver(b)
                    await loop.settle()
                n0 = len(t.sent)
                fut = c.request_response(Payload(b'q%d' % rnd))
                await loop.settle()
                sid = await sid_of_last_request(t, n0)
                if sid is not None:
                    blobs, w = peer_response(sid, tag + 2, sz[2], sz[3], case['whole'])
                    want_resp.append(w)
                    for b in blobs:
                        t.deliver(b)
                        await loop.settle()
                    got_resp.append(key(fut.result()) if fut.done() and not fut.cancelled() and fut.exception() is None else ['-', '-'])
                else:
                    want_resp.append(['no-request-frame', ''])
                    got_resp.append(['-', '-'])
            if last:
                break
            # 2. something is left half-received when the connection goes away
            cut = case['cut'][rnd % 3]
            if cut == 'peer-request':
                blobs, _ = peer_request(peer_sid, tag + 4, 200, 100, False)
                for b in blobs[:-1][:2]:
                    t.deliver(b)
                await loop.settle()
            elif cut in ('response', 'response-after-cancel'):
                n0 = len(t.sent)
                f2 = c.request_response(Payload(b'x'))
                await loop.settle()
                sid2 = await sid_of_last_request(t, n0)
                if sid2 is not None:
                    blobs, _ = peer_response(sid2, tag + 6, 300, 100, False)
                    t.deliver(blobs[0])
                    await loop.settle()
                    if cut == 'response-after-cancel':
                        f2.cancel()
                        await loop.settle()
                        t.deliver(blobs[1])
                        await loop.settle()
            via = case['via'] if case['cause'] in ('eof', 'error') else None
            if via:
                R.reconnect_in_on_close = True
                R.on_close_sleep_ms = 50 if via == 'suspend' else 0
            nconnects = R.log.count('C')
            if case['cause'] == 'eof':
                t.deliver(simnet.EOF_MARK)
                await loop.settle()
            elif case['cause'] == 'error':
                t.deliver(RSocketTransportError())
                await loop.settle()
            if via:
                R.reconnect_in_on_close = False
            else:
                await c.reconnect()
            for _ in range(200):
                await asyncio.sleep(0)
                if R.log.count('C') > nconnects:
                    break
            await loop.settle()
            await loop.advance(100)
            # the new connection has seen no traffic yet and every interaction of the old one is over
            leftovers.append([sorted(c._frame_fragment_cache._frames_by_stream_id.keys()), sorted(c._stream_control._streams.keys())])
        try:
            await c.close()
        except Exception:
            pass
        return {'want_req': want_req, 'got_req': served, 'want_resp': want_resp, 'got_resp': got_resp, 'leftovers': leftovers,
                'chan_want': [[x.hex() if isinstance(x, bytes) else x for x in w] for w in chan_want], 'chan_got': [[x.hex() for x in g] for g in chan_got]}

    async def _scenario(self, loop, case):
        from rsocket.rsocket_client import RSocketClient
        from rsocket.rsocket_server import RSocketServer
        from rsocket.helpers import single_transport_provider
        from datetime import timedelta
        rng = random.Random(case['seed'])
        sizes = [0, 0, 1, 5, 40, 70, 130, 260] if case['frag'] else [0, 1, 5, 300]
        plans = [{}, {}]
        pid = 0
        order = []
        for _ in range(case['n']):
            side = rng.randint(0, 1)
            pid += 1
            kind = rng.choice(['rr', 'rr', 'fnf', 'mp', 'stream', 'stream', 'channel', 'channel'])
            def sz():
                d, m = rng.choice(sizes), rng.choice(sizes[:6])
                if d == 0 and m == 0:
                    d = 1
                return d, m
            p = {'kind': kind, 'tag': pid * 3, 'qd': rng.choice(sizes), 'qm': rng.choice(sizes[:5]), 'late': rng.random() < 0.5, 'n0': rng.choice([1, 2, 3, 2 ** 31 - 1])}
            p['rd'], p['rm'] = sz()
            p['items'] = [sz() for _ in range(rng.choice([0, 1, 2, 4]))]
            p['up'] = [sz() for _ in range(rng.choice([0, 1, 3]))]
            p['fail_resp'], p['fail_up'] = rng.random() < 0.25, rng.random() < 0.25
            if kind == 'mp' and p['qm'] == 0:
                p['qm'] = 1
            plans[side][pid] = p
            order.append((side, pid))
        sides = [Side('client', plans[0]), Side('server', plans[1])]
        lk = L.Link(loop, case['tcp'])
        lease_kw_s, lease_kw_c = {}, {}
        lease_sub = []
        if case.get('lease'):
            # the client honours leases: its requests wait for the server's grants (small ones, so that a backlog is released in instalments)
            class LeasePub:
                def subscribe(self, subscriber):
                    lease_sub.append(subscriber)
            lease_kw_s, lease_kw_c = {'lease_publisher': LeasePub()}, {'honor_lease': True}
        server = RSocketServer(lk.ends[1], handler_factory=sides[1].handler_class(sides[0]), fragment_size_bytes=case['frag'], **lease_kw_s)
        slow_ka = bool(case.get('slow_ka')) and not case['tcp']
        if slow_ka:
            lk.ends[0].send_delay_ms = 45
        client = RSocketClient(single_transport_provider(lk.ends[0]), handler_factory=sides[0].handler_class(sides[1]), fragment_size_bytes=case['frag'],
                               keep_alive_period=timedelta(milliseconds=40) if slow_ka else timedelta(seconds=100000), max_lifetime_period=timedelta(seconds=1000000), **lease_kw_c)
        await client.connect()
        eps = [client, server]
        await loop.settle()
        if slow_ka:
            await loop.advance(70)
        # SETUP must reach the server before it talks
        while await lk.deliver(0, rng):
            await loop.settle()
        todo = list(order)
        idle = 0
        quiet = 0
        for rnd in range(6000):
            did = False
            if slow_ka:
                # virtual time passes: writes complete, keepalive periods elapse (keepalives keep the link busy for ever: the run ends a
                # fixed number of rounds after the last application activity)
                await loop.advance(15)
                busy = (todo or any(sd.pending_futures for sd in sides) or not all(p.done or p.cancelled or p.credit == 0 for sd in sides for p in sd.publishers)
                        or client._send_queue.qsize() > 1 or server._send_queue.qsize() > 1 or lk.pending(0) > 1 or lk.pending(1) > 1)
                quiet = 0 if busy else quiet + 1
                if quiet > 60:
                    break
            if todo and rng.random() < 0.4:
                side, p = todo.pop(0)
                sides[side].start(eps[side], p)
                did = True
            if lease_sub and (rng.random() < 0.15 or (not todo and client._request_queue.qsize() > 0 and rng.random() < 0.5)):
                from rsocket.lease import DefinedLease
                lease_sub[0].on_next(DefinedLease(maximum_request_count=rng.choice([1, 1, 2, 3]), maximum_lease_time=timedelta(seconds=100000)))
                did = True
            for s in (0, 1):
                if rng.random() < 0.7 and await lk.deliver(rng.randint(0, 1), rng):
                    did = True
            for sd in sides:
                for pub in list(sd.publishers):
                    if rng.random() < 0.6 and pub.pump(rng.randint(1, 3)):
                        did = True
                if sd.pending_futures and rng.random() < 0.3:
                    fut, resp = sd.pending_futures.pop(rng.randrange(len(sd.pending_futures)))
                    if not fut.done():
                        fut.set_result(resp)
                    did = True
            await loop.settle()
            if not did and not todo and not lk.pending(0) and not lk.pending(1) and not any(sd.pending_futures for sd in sides) and not (lease_sub and client._request_queue.qsize() > 0):
                idle += 1
                if idle > 3 and all(p.done or p.cancelled or p.credit == 0 for sd in sides for p in sd.publishers):
                    break
            else:
                idle = 0
        # responses to the callers
        for s in (0, 1):
            for p, plan in plans[s].items():
                if plan['kind'] == 'rr':
                    f = plan.pop('fut', None)
                    if f is not None and f.done() and not f.cancelled() and f.exception() is None:
                        sides[s].got.setdefault((p, 'resp'), []).append(key(f.result()))
        def dump(d):
            return {'%d:%s' % k: v for k, v in d.items()}
        res = {'handed': [dump(sides[0].handed), dump(sides[1].handed)], 'got': [dump(sides[0].got), dump(sides[1].got)],
               'oneway': [sides[0].oneway, sides[1].oneway], 'kinds': [{str(p): pl['kind'] for p, pl in plans[s].items()} for s in (0, 1)],
               'tables': [sorted(client._stream_control._streams), sorted(server._stream_control._streams)],
               'multi_fragment': any(len(f.data or b'') + len(f.metadata or b'') > 50 for s in (0, 1) for f in lk.sent_frames[s]) if not case['tcp'] else None,
               'rounds': rnd}
        try:
            await client.close()
            await server.close()
        except Exception:
            pass
        return res

    def oracle(self, case, obs):
        fails = []
        if case.get('kind') == 'huge':
            if obs['got'] != obs['want']:
                fails.append({'signature': 'one-way-payload-not-delivered-exactly-once:huge', 'what': 'a fire-and-forget of %d bytes (%d fragments arriving in one burst) and a small one behind it: the handler received %s (sizes), expected %s%s' % (
                    case['size'], obs['messages'], [g[0] for g in obs['got']], [w[0] for w in obs['want']], '; the receiving pump ended with %s' % obs['pump_dead'] if obs.get('pump_dead') else '')})
            return fails
        if case.get('kind') == 'reconnect':
            if obs['got_req'] != obs['want_req']:
                fails.append({'signature': 'request-payload-altered:after-reconnect', 'what': 'the peer sent the requests %s over the successive connections, the handler received %s' % (_short(obs['want_req']), _short(obs['got_req']))})
            if obs.get('chan_got') != obs.get('chan_want'):
                fails.append({'signature': 'channel-elements-not-its-own:after-reconnect', 'what': 'the channels opened on the successive connections were handed %s by their publishers, the client put %s on their streams' % (
                    [[bytes.fromhex(x).decode() for x in w] for w in obs['chan_want']], [[bytes.fromhex(x).decode('latin1') for x in g] for g in obs['chan_got']])})
            if obs['got_resp'] != obs['want_resp']:
                fails.append({'signature': 'response-payloads-altered:after-reconnect', 'what': 'the peer answered %s over the successive connections, the callers received %s' % (_short(obs['want_resp']), _short(obs['got_resp']))})
            return fails
        for s in (0, 1):
            o = 1 - s
            for pid, kind in obs['kinds'][s].items():
                handed_req = obs['handed'][s].get('%s:req' % pid, [])
                if kind in ('fnf', 'mp'):
                    want = [[kind] + k for k in handed_req if nonempty(k)]
                    got = [x for x in obs['oneway'][o] if x[0] == kind and (x[1:] in handed_req)]
                    if got != want:
                        fails.append({'signature': 'one-way-payload-not-delivered-exactly-once:' + kind, 'what': 'interaction %s: handed %s, peer handler received %s' % (pid, want, got)})
                    continue
                got_req = obs['got'][o].get('%s:req' % pid, [])
                if got_req != handed_req:
                    fails.append({'signature': 'request-payload-altered:' + kind, 'what': 'interaction %s: request handed %s, responder received %s' % (pid, _short(handed_req), _short(got_req))})
                    continue
                # responder -> requester
                handed = [k for k in obs['handed'][o].get('%s:resp' % pid, []) if nonempty(k)]
                got = obs['got'][s].get('%s:resp' % pid, [])
                got = [k for k in got if nonempty(k)]
                if got != handed[:len(got)] or (kind == 'rr' and got != handed):
                    fails.append({'signature': 'response-payloads-altered:' + kind, 'what': 'interaction %s: responder handed %s, requester received %s' % (pid, _short(handed), _short(got))})
                elif len(got) < len(handed) and kind != 'rr':
                    fails.append({'signature': 'handed-payload-not-delivered:' + kind, 'what': 'interaction %s: %d payloads handed to the library, %d delivered at quiescence' % (pid, len(handed), len(got))})
                if kind == 'channel':
                    handed = [k for k in obs['handed'][s].get('%s:up' % pid, []) if nonempty(k)]
                    got = [k for k in obs['got'][o].get('%s:up' % pid, []) if nonempty(k)]
                    if got != handed:
                        fails.append({'signature': 'channel-upstream-payloads-altered', 'what': 'interaction %s: requester handed %s, responder received %s' % (pid, _short(handed), _short(got))})
        # nothing delivered that nobody handed in
        for s in (0, 1):
            for k, v in obs['got'][s].items():
                pid, d = k.split(':')
                src = obs['handed'][1 - s].get(k) if d in ('resp',) else None
                if d == 'req':
                    src = obs['handed'][1 - s].get(k)
                if d == 'up':
                    src = obs['handed'][1 - s].get(k)
                if src is None and v:
                    fails.append({'signature': 'delivery-to-wrong-interaction', 'what': 'endpoint %d received %s for %s which the peer never handed in' % (s, _short(v), k)})
        return fails

    def nontrivial(self, case, obs):
        if case.get('kind') == 'huge':
            return json.dumps(case, sort_keys=True)
        if case.get('kind') == 'reconnect':
            return json.dumps(case, sort_keys=True)
        return str(case['seed']) if case['frag'] else None

    def stats(self, case, obs):
        if case.get('lease'):
            yield 'lease-gated-client'
        if case.get('kind') == 'huge':
            yield 'kind=huge-burst'
            return
        if case.get('kind') == 'reconnect':
            yield 'kind=reconnect'
            for c in case['cut'][:case['rounds']]:
                yield 'left-half-received=' + c
            return
        yield 'tcp=%s' % case['tcp']
        yield 'frag=%s' % case['frag']
        for s in (0, 1):
            for k in obs['kinds'][s].values():
                yield 'kind=' + k


def _short(l):
    return [[len(a) // 2, len(b) // 2, a[:2]] for a, b in l][:6]


PROP = C01()
