"""C15 — keepalive: echo, periodic emission, timeout detection, under the virtual clock."""
import json

from harness.core import Prop
from harness import detloop, clientrun, simnet, engine


class C15(Prop):
    id = 'C15'
    lean_modules = ['RSocketModel.Props.C15', 'RSocketModel.Props.C15Source']
    technique = 'Lean 4 proof (arithmetic over check/arrival times; echo in the engine model) + differential correspondence under a virtual clock'
    level_text = ('c15_echo_matches_source (Props/C15Source.lean): the echo of the model is proved equal to RSocketBase.handle_keep_alive as compiled from rsocket_base.py on every run (RESPOND answered once with the same data and RESPOND cleared, last-keepalive time refreshed either way). c15_echo / c15_echo_engine, c15_periodic, c15_no_false_timeout(_gaps) and c15_detects (every period, lifetime, start offsets and arrival pattern) are kernel-checked on a '
                  'model of the keepalive tasks in integer milliseconds; the model is run against a real RSocketClient whose clock (asyncio time and datetime.now) is the harness\'s virtual clock.')
    level_note = ('Trusted: Lean kernel + standard axioms; asyncio.sleep/call_later under the deterministic loop; arrivals exactly at a check instant are excluded (asyncio tie-break); '
                  'behaviour after the first timeout is not compared.')
    design_ref = '§5 C15'
    rule = ('(period P, lifetime L) from a grid incl. sub-second values x acknowledgement pattern (always, never, stops at t, delayed/irregular gaps below and above L) over a horizon of ' +
            '~8 lifetimes; in 40% of the cases the application handler is a delegate behind the Rx (v3) or ReactiveX (v4) handler adapter; '
            'each over '
            '~8 lifetimes, in 30% of the cases with a multi-fragment upload on a slow link keeping the send queue busy across several periods; plus KEEPALIVE frames with/without respond flag and data sent to a client and to a server, in half of the cases while the endpoint is in the middle of a fragmented send on a slow link (one fragment released per KEEPALIVE); non-trivial = at least 3 keepalives sent and at least one arrival '
            'or a timeout; distinct = distinct (P, L, arrivals)')
    assumptions = ['integer-millisecond periods (timedelta of whole milliseconds)']

    def cases(self, rng, tier):
        out = []
        n = 600 if tier == 'quick' else 6000
        for _ in range(n):
            P = rng.choice([50, 100, 200, 250, 500, 999, 1000, 1500, 3000])
            L = rng.choice([300, 700, 1000, 1234, 2000, 5000, 10000])
            horizon = min(8 * L + 3 * P, 60000)
            pat = rng.choice(['always', 'never', 'stops', 'irregular', 'slow'])
            arr, t = [], 0
            stop = rng.randint(0, horizon)
            while True:
                if pat == 'always':
                    t += rng.randint(max(1, L // 4), L)
                elif pat == 'never':
                    break
                elif pat == 'stops':
                    t += rng.randint(max(1, L // 3), L)
                    if t > stop:
                        break
                elif pat == 'irregular':
                    t += rng.choice([rng.randint(1, L), rng.randint(L + 1, 3 * L)])
                else:
                    t += rng.randint(L + 1, 2 * L + L // 2)
                if t >= horizon:
                    break
                if t % L == 0:
                    t += 1
                arr.append(t)
            c = {'kind': 'timing', 'P': P, 'L': L, 'h': horizon, 'arr': arr, 'pat': pat,
                 # the application's handler may be a delegate behind the Rx (v3) / ReactiveX (v4) handler adapter: its callback must still run
                 'adapter': rng.choice([None, None, None, 'rx3', 'rx4'])}
            if rng.random() < 0.3:
                # outbound traffic that keeps the send queue non-empty across several keep-alive periods: a multi-fragment frame on a link that
                # takes `gap` ms per frame
                c['busy'] = {'at': rng.randint(0, max(1, horizon // 2)), 'size': rng.choice([600, 2000, 6000]), 'gap': rng.choice([7, 40, P // 2 + 1, P + 3])}
            if pat in ('never', 'stops', 'slow') and rng.random() < 0.5:
                c['again'] = 'timeout'      # after the timeout the application reconnects: the second connection is a connected client again
            elif pat == 'always' and rng.random() < 0.5:
                c['again'] = 'on_close'     # the server ends the (healthy) connection and the application reconnects from inside on_close
            out.append(c)
        for _ in range(60 if tier == 'quick' else 1500):
            out.append({'kind': 'echo', 'role': rng.choice(['client', 'server']),
                        'frames': [{'respond': rng.random() < 0.6, 'data': [rng.randint(1, 250) for _ in range(rng.choice([0, 1, 3]))]} for _ in range(rng.randint(1, 5))],
                        # the KEEPALIVEs arrive while the endpoint is in the middle of sending a fragmented payload on a slow link
                        'busy': rng.choice([0, 0, 150, 400])})
        return out

    def run_impl(self, case):
        if case['kind'] == 'echo':
            return detloop.run(self._echo, case)
        return detloop.run(self._timing, case)

    async def _echo(self, loop, case):
        busy = case.get('busy', 0)
        H = engine.EngineRun(loop, case['role'], fragment=64 if busy else None)
        await H.start()
        if busy:
            await H.apply_async({'op': 'gate', 'on': True})
            H.apply({'op': 'RR', 'data': [7] * busy})
            await loop.settle()
        for f in case['frames']:
            H.apply({'op': 'recv', 'frame': {'ty': 'KEEPALIVE', 'sid': 0, 'respond': f['respond'], 'data': f['data']}})
            await loop.settle()
            if busy:
                await H.apply_async({'op': 'release', 'n': 1})
                await loop.settle()
        if busy:
            await H.apply_async({'op': 'gate', 'on': False})
            await loop.settle()
        res = await H.finish()
        return {'steps': H.steps(), 'wire': res['wire']}

    async def _timing(self, loop, case):
        from rsocket import frame as F
        import asyncio
        busy = case.get('busy')
        R = clientrun.ClientRun(loop, n_transports=2 if case.get('again') else 1, ka_ms=case['P'], life_ms=case['L'], **({'fragment_size_bytes': 64} if busy else {}))
        R.adapter = case.get('adapter')
        c = R.build()
        await c.connect()
        await loop.settle()
        t = R.transports[0]

        async def uploader():
            from rsocket.payload import Payload
            await asyncio.sleep(busy['at'] / 1000)
            t.gated = True
            c.fire_and_forget(Payload(b'u' * busy['size']))
            for _ in range(400):
                await asyncio.sleep(busy['gap'] / 1000)
                if not t.release() and c._send_queue.empty():
                    break
            t.gated = False
            while t.release():
                pass
        up = asyncio.ensure_future(uploader()) if busy else None
        for a in case['arr']:
            await loop.advance(a - loop.now_ms())
            if R.timeouts:
                break
            t.deliver(F.KeepAliveFrame().serialize())
            await loop.settle()
        if not R.timeouts:
            await loop.advance(case['h'] - loop.now_ms())
        first = R.timeouts[0][0] if R.timeouts else None
        if up is not None:
            up.cancel()
            t.gated = False
            while t.release():
                pass
            await loop.settle()
        # the moment a KEEPALIVE is handed to the send queue (= the moment it is written, unless the link is busy)
        sends = [round(tm) for e, tm in zip(R.log, R.times) if e == 'K' and (first is None or tm <= first)]
        respond_flags = [bool(e[2].flags_respond) for e in t.sent if isinstance(e[2], F.KeepAliveFrame)]
        again = None
        if (case.get('again') == 'timeout' and first is not None) or (case.get('again') == 'on_close' and first is None):
            n_to = len(R.timeouts)
            if case['again'] == 'on_close':
                from harness import simnet
                R.reconnect_in_on_close = True
                t.deliver(simnet.EOF_MARK)
                await loop.settle()
                R.reconnect_in_on_close = False
            else:
                await c.reconnect()
            await loop.settle()
            t2 = R.transports[1]
            t0 = loop.now_ms()
            await loop.advance(2 * case['P'] + 10)
            ka = len([e for e in t2.sent if isinstance(e[2], F.KeepAliveFrame)])
            await loop.advance(max(0, 3 * case['L'] + case['P'] + 10 - (loop.now_ms() - t0)))
            again = {'first': t2.sent[0][1].split(' ')[0] if t2.sent else None, 'ka_in_2_periods': ka, 'timeouts': len(R.timeouts) - n_to}
        try:
            await c.close()
        except Exception:
            pass
        return {'sends': sends, 'fire': round(first) if first is not None else None, 'all_respond': all(respond_flags), 'n_timeouts': len(R.timeouts), 'again': again}

    def model_lines(self, case, obs):
        if case['kind'] == 'echo':
            first = 2 if case['role'] == 'server' else 1
            return ['eng %d 0 %s' % (first, ' '.join(m for m, _ in obs['steps']))]
        h = obs['fire'] if obs['fire'] is not None else case['h']
        return ['ka P=%d L=%d t0=0 c0=0 r0=0 h=%d a=%s' % (case['P'], case['L'], max(h, case['h']), ','.join(map(str, case['arr'])) or '-')]

    def compare(self, case, obs, answers):
        a = answers[0]
        if case['kind'] == 'echo':
            body = a.split(' || ')[0]
            msteps = body.split(' | ')
            for (m, outs), ms in zip(obs['steps'], msteps):
                if outs != engine.canon_model_step(ms):
                    return 'echo: step %s impl %s / model %s' % (m, outs, ms)
            return None
        ms, mf = a.split(' ')
        msends = [int(x) for x in ms[6:].split(',')] if ms[6:] != '-' else []
        mfire = None if mf[5:] == '-' else int(mf[5:])
        if mfire is not None:
            msends = [x for x in msends if x <= mfire]
        else:
            msends = [x for x in msends if x <= case['h']]
        if obs['fire'] != mfire:
            return 'first timeout: impl %s / model %s' % (obs['fire'], mfire)
        if obs['sends'] != msends:
            return 'keepalive send times: impl %s / model %s' % (obs['sends'][:12], msends[:12])

    def oracle(self, case, obs):
        fails = []
        if case['kind'] == 'echo':
            wire = obs['wire']
            exp = ['S:KEEPALIVE:0:0000:0:0:%s' % (','.join(map(str, f['data'])) or '-') for f in case['frames'] if f['respond']]
            got = [w for w in wire if w.startswith('S:KEEPALIVE')]
            if got != exp:
                fails.append({'signature': 'keepalive-echo-wrong', 'what': 'received %s, replied %s, expected %s' % (case['frames'], got, exp)})
            return fails
        P, L = case['P'], case['L']
        if obs.get('again'):
            g = obs['again']
            if g['ka_in_2_periods'] < 1:
                fails.append({'signature': 'second-connection-sends-no-keepalive', 'what': 'the client reconnected (%s; first frame on the new transport: %s) and sent no KEEPALIVE within two periods' % ('from inside on_close after the server ended the connection' if case.get('again') == 'on_close' else 'after the keepalive timeout', g['first'])})
            if g['timeouts'] < 1:
                fails.append({'signature': 'second-connection-no-timeout', 'what': 'the server stayed silent for three lifetimes on the second connection and the timeout callback was not invoked'})
        s = obs['sends']
        if s and (s[0] != P or any(b - a != P for a, b in zip(s, s[1:]))):
            fails.append({'signature': 'keepalive-not-periodic', 'what': 'P=%d but KEEPALIVEs sent at %s' % (P, s[:10])})
        if not obs['all_respond']:
            fails.append({'signature': 'keepalive-without-respond-flag', 'what': 'a client KEEPALIVE lacks the respond flag'})
        # no false timeout while arrivals keep coming at intervals <= L
        prev, ok_until = 0, 0
        for a in case['arr']:
            if a - prev > L:
                break
            prev = a
        ok_until = prev + L
        if obs['fire'] is not None and obs['fire'] < ok_until and obs['fire'] % L == 0:
            fails.append({'signature': 'false-keepalive-timeout', 'what': 'timeout at %d although KEEPALIVEs arrived at intervals <= %d until %d' % (obs['fire'], L, prev)})
        # silent for more than two lifetimes => detected
        times = [0] + case['arr']
        for i, r in enumerate(times):
            nxt = times[i + 1] if i + 1 < len(times) else case['h']
            if nxt - r > 2 * L:
                if obs['fire'] is None or not (r + L < obs['fire'] <= r + 2 * L) and obs['fire'] > r + 2 * L:
                    fails.append({'signature': 'silence-not-detected', 'what': 'server silent from %d for more than 2x%d ms, timeout at %s' % (r, L, obs['fire'])})
                break
        return fails

    def nontrivial(self, case, obs):
        if case['kind'] == 'echo':
            return json.dumps(case['frames'])
        if len(obs['sends']) >= 3 and (case['arr'] or obs['fire'] is not None):
            return json.dumps([case['P'], case['L'], case['arr']])
        return None

    def stats(self, case, obs):
        yield 'kind=' + case['kind']
        if case['kind'] == 'timing':
            yield 'pattern=' + case['pat']
            yield 'timeout=' + ('yes' if obs['fire'] is not None else 'no')

    def shrink_candidates(self, case):
        if case['kind'] == 'timing':
            for i in range(len(case['arr'])):
                yield dict(case, arr=case['arr'][:i] + case['arr'][i + 1:])


PROP = C15()
