"""C05 — per-stream wire order and fragment contiguity. A real RSocketServer with a gated transport: the
harness queues frames of all kinds on several streams at arbitrary moments relative to the sender's progress
and releases the blocked sender one write at a time; the wire is compared with `RSocketModel.SendQueue`
and judged per stream."""
import json

from harness.core import Prop
from harness import detloop, simnet


def frag_count(md, d, F, lp, hdr=6):
    # number of fragments per the (C03-verified) budget rule, computed independently of the sender
    if F is None or (md == 0 and d == 0):
        return 1
    first = F - hdr - (3 if lp else 0)
    nxt = F - 6 - (3 if lp else 0)
    n, size, m, dd = 0, first, md, d
    while m > 0 or dd > 0:
        tm = min(m, size)
        td = min(dd, size - tm) if tm < size else 0
        m -= tm
        dd -= td
        n += 1
        size = nxt
    return n


class C05(Prop):
    id = 'C05'
    lean_modules = ['RSocketModel.Props.C05', 'RSocketModel.Props.C05Sites']
    technique = 'Lean 4 proof (invariant over all enqueue/step interleavings; measure for drain) + differential correspondence with the real sender task'
    level_text = ('c05_only_setup_jumps_the_queue / c05_stream_helpers_queue_at_the_back (Props/C05Sites.lean), over the table of every call that queues a frame - which of send_frame / send_priority_frame / send_request each call site uses, read from the source with ast on every run: only connect() with the SETUP frame uses the priority path, the helpers of the stream handlers all queue at the back. c05_stream_order / c05_wire_is_prefix / c05_every_prefix (per-stream order and contiguity at every moment, all interleavings of queueing and '
                  'sender steps), c05_drains and c05_drained_exact (no starvation, everything sent once) are kernel-checked on a model of the send queue; '
                  'c05_counterexample_head_only pins the pre-fix defect. The model is run against a real RSocketServer whose transport blocks in send until released.')
    level_note = ('Trusted: Lean kernel + standard axioms; asyncio.Queue FIFO and the order of put_nowait calls; model fidelity as far as the correspondence reaches '
                  '(wire order is compared, not the internal order of the queue).')
    design_ref = '§5 C05'
    rule = ('random histories of enqueue (payload of 1..5 fragments, bare complete, error, cancel, request-n, keepalive on stream 0, priority frame) on 1..4 streams '
            'and sender releases, fragment size in {none,64,80}, both framings; what a reassembly cache fed with the observed wire puts together per stream; the fragmented full-stack runs of C01 (two real endpoints) judged for the receiver-side consequence; frames the library queues itself (ERROR[REJECTED] for a duplicate request, the request of a requester it opens - 1..5 fragments -, its REQUEST_N and its CANCEL, possibly while the request is still being sent); non-trivial = at least two frames of one stream queued while an earlier fragmented frame '
            'of that stream is in flight; distinct = distinct history')
    assumptions = ['the sender task is the only consumer of the send queue']

    def cases(self, rng, tier):
        out = []
        n = 1500 if tier == 'quick' else 40000
        for _ in range(n):
            F = rng.choice([None, 64, 64, 64, 80])
            lp = rng.random() < 0.5
            nstreams = rng.randint(1, 4)
            acts = []
            for _ in range(rng.randint(3, 40 if tier == 'quick' else 90)):
                x = rng.random()
                sid = 2 * rng.randint(1, nstreams)
                if x < 0.45:
                    kind = rng.choice(['payload', 'payload', 'payload', 'complete', 'error', 'cancel', 'request_n'])
                    md, d = 0, 0
                    if kind == 'payload':
                        md = rng.choice([0, 0, 5, 70, 130])
                        d = rng.choice([0, 10, 60, 120, 200, 260])
                        if md == 0 and d == 0:
                            d = 1
                    acts.append(['enq', sid, kind, md, d, rng.random() < 0.3])
                elif x < 0.5:
                    acts.append(['enq', 0, 'keepalive', 0, 3, False])
                elif x < 0.53:
                    acts.append(['front', 0, 'keepalive', 0, 3, False])
                elif x < 0.61 and x >= 0.58:
                    # a requester the library opens itself (its request may need several fragments), later its REQUEST_N
                    acts.append(['libreqn', sid, rng.choice([0, 0, 150, 260])])
                elif x < 0.62 and x >= 0.61:
                    # ... and its CANCEL, possibly while the request is still being sent
                    acts.append(['libcancel', sid])
                elif x < 0.58:
                    # the peer re-uses a stream id that is open: the library itself queues ERROR[REJECTED] on that stream
                    acts.append(['peerdup', sid])
                else:
                    acts.append(['release'])
            out.append({'F': F, 'lp': lp, 'acts': acts, 'drain': rng.random() < 0.7})
        # the consequence at a *real* receiving endpoint (not a bare reassembly cache): the full-stack runs of C01 with fragmentation -
        # interleaved fragmented payloads, requests, completions, errors and cancels of many streams between two real endpoints - judged
        # here for "never merged, truncated or reordered at the receiver"
        from harness.props import c01
        k = 0
        for c in c01.PROP.cases(rng, 'quick' if tier == 'quick' else 'thorough'):
            if c.get('kind') != 'reconnect' and c.get('frag') and not c.get('lease') and k < (80 if tier == 'quick' else 1500):
                out.append({'kind': 'pair', 'c01': c})
                k += 1
            elif c.get('kind') == 'reconnect':
                # (also across reconnects: what a previous connection left half-received must not be merged into the frames of the next)
                out.append({'kind': 'pair', 'c01': c})
        return out

    # ---------------------------------------------------------------------------------------
    def run_impl(self, case):
        if case.get('kind') == 'pair':
            from harness.props import c01
            return c01.PROP.run_impl(case['c01'])
        return detloop.run(self._scenario, case)

    async def _scenario(self, loop, case):
        from rsocket.rsocket_server import RSocketServer
        from rsocket.payload import Payload
        from rsocket import frame_builders as B
        from rsocket.frame import ErrorFrame, KeepAliveFrame
        from rsocket.error_codes import ErrorCode
        from rsocket.request_handler import BaseRequestHandler
        from rsocket.helpers import DefaultPublisherSubscription
        from harness import engine

        class Quiet(BaseRequestHandler):
            async def request_stream(self, payload):
                return DefaultPublisherSubscription()       # a publisher that never emits: the stream stays open
        t = simnet.ScriptedTransport(loop, gated=True, length_header=case['lp'])
        server = RSocketServer(t, fragment_size_bytes=case['F'], handler_factory=Quiet)
        await loop.settle()
        opened = set()
        lib_subs = {}        # sid -> subscriber of a request-stream the library itself opened (REQUEST_N goes through StreamHandler.send_request_n)
        events = []       # model events
        sources = []      # (tag, sid, kind, k)
        seen = 0
        front_pending0 = 0

        def note_steps():
            nonlocal seen
            while seen < len(t.sent):
                events.append('s')
                seen += 1

        class LSub:
            subscription = None
            def on_subscribe(self, s): self.subscription = s
            def on_next(self, v, is_complete=False): pass
            def on_complete(self): pass
            def on_error(self, e): pass
        for a in case['acts']:
            if a[0] == 'libreqn':
                # frames the library queues through its own helpers: the REQUEST_STREAM of a requester it opens, later its REQUEST_N
                _, want_sid, n = a
                sub = lib_subs.get(want_sid)
                if sub is None:
                    if not any(x['kind'] == 'lib-request' for x in sources):
                        server._stream_control._current_stream_id = 98      # ids the library allocates: 100, 102, ... (apart from the harness's 2..8)
                    tag = len(sources) + 1
                    body = bytes([tag % 251]) * n if n else b'lib'
                    req = server.request_stream(Payload(body))
                    sid = req.stream_id
                    sub = lib_subs[want_sid] = LSub()
                    sub.sid = sid
                    sources.append({'tag': tag, 'sid': sid, 'kind': 'lib-request', 'k': frag_count(0, len(body), case['F'], case['lp'], hdr=10), 'frame': None, 'body': tag % 251 if n else None, 'nbytes': len(body)})
                    events.append('e%d:%s' % (sid, ','.join(str(tag * 100 + i) for i in range(sources[-1]['k']))))
                    req.initial_request_n(1).subscribe(sub)
                else:
                    tag = len(sources) + 1
                    sources.append({'tag': tag, 'sid': sub.sid, 'kind': 'lib-request-n', 'k': 1, 'frame': None, 'n': 1000 + tag})
                    events.append('e%d:%d' % (sub.sid, tag * 100))
                    sub.subscription.request(1000 + tag)
            elif a[0] == 'libcancel':
                sub = lib_subs.pop(a[1], None)
                if sub is not None and sub.subscription is not None:
                    tag = len(sources) + 1
                    sources.append({'tag': tag, 'sid': sub.sid, 'kind': 'lib-cancel', 'k': 1, 'frame': None})
                    events.append('e%d:%d' % (sub.sid, tag * 100))
                    sub.subscription.cancel()
            elif a[0] == 'peerdup':
                sid = a[1]
                if sid not in opened:
                    opened.add(sid)
                    t.deliver(engine.build_frame({'ty': 'REQUEST_STREAM', 'sid': sid, 'n': 1, 'data': [1]}).serialize())
                    await loop.settle()
                t.deliver(engine.build_frame({'ty': 'REQUEST_STREAM', 'sid': sid, 'n': 1, 'data': [2]}).serialize())
                tag = len(sources) + 1
                sources.append({'tag': tag, 'sid': sid, 'kind': 'lib-error', 'k': 1, 'frame': None})
                events.append('e%d:%d' % (sid, tag * 100))
            elif a[0] in ('enq', 'front'):
                _, sid, kind, md, d, cflag = a
                tag = len(sources) + 1
                if a[0] == 'front':
                    # legality of the priority frame: nothing of stream 0 queued (as for SETUP on connect)
                    if any(getattr(f, 'stream_id', None) == 0 for f in server._send_queue._queue):
                        continue
                body = bytes([tag % 251]) * d
                meta = bytes([tag % 251]) * md
                k = 1
                if kind == 'payload':
                    fr = B.to_payload_frame(sid, Payload(body, meta), complete=cflag, fragment_size_bytes=case['F'])
                    k = frag_count(md, d, case['F'], case['lp'])
                elif kind == 'complete':
                    fr = B.to_payload_frame(sid, Payload(), complete=True, is_next=False, fragment_size_bytes=case['F'])
                elif kind == 'error':
                    fr = ErrorFrame()
                    fr.stream_id = sid
                    fr.error_code = ErrorCode.APPLICATION_ERROR
                    fr.data = b'tag%d' % tag
                elif kind == 'cancel':
                    fr = B.to_cancel_frame(sid)
                elif kind == 'request_n':
                    fr = B.to_request_n_frame(sid, tag)
                else:
                    fr = KeepAliveFrame(bytes([tag % 251]) * 3)
                sources.append({'tag': tag, 'sid': sid, 'kind': kind, 'k': k, 'frame': fr})
                labels = ','.join(str(tag * 100 + i) for i in range(k))
                if a[0] == 'enq':
                    # half of the elements / completions go the way the handlers send them - RSocketBase.send_payload / send_complete
                    # (the frame built above then only serves to recognise what appears on the wire) - the rest straight into send_frame
                    helper = kind in ('payload', 'complete') and (tag + len(case['acts'])) % 2 == 0
                    if helper and kind == 'payload':
                        server.send_payload(sid, Payload(body, meta), complete=cflag)
                    elif helper:
                        server.send_complete(sid)
                    else:
                        server.send_frame(fr)
                    events.append('e%d:%s' % (sid, labels))
                else:
                    server.send_priority_frame(fr)
                    events.append('p%d:%s' % (sid, labels))
            else:
                t.release()
            await loop.settle()
            note_steps()
        if case['drain']:
            for _ in range(2000):
                if not t.blocked():
                    break
                t.release()
                await loop.settle()
                note_steps()
        # identify every sent frame with its source
        by_frame = {}
        wire = []
        counters = {}
        for (_, dump, fr, raw) in t.sent:
            src = self._identify(fr, sources)
            idx = counters.get(src, 0)
            counters[src] = idx + 1
            wire.append([fr.stream_id, src * 100 + idx])
        # the receiver's side of the same wire: every fragment is decoded and handed to a real FrameFragmentCache in wire order; what it
        # puts together per stream must be the frames that were queued, whole ("never merged, truncated or reordered at the receiver")
        from rsocket.frame_fragment_cache import FrameFragmentCache
        from rsocket import frame as F
        cache = FrameFragmentCache()
        reassembled = {}
        for (_, dump, fr, raw) in t.sent:
            try:
                g = F.parse_or_ignore(fr.serialize())
                if g is None or not F.is_fragmentable_frame(g):
                    continue
                whole = cache.append(g)
            except Exception as e:
                reassembled.setdefault(fr.stream_id, []).append(['RAISED:' + type(e).__name__])
                continue
            if whole is not None:
                d, m = bytes(whole.data or b''), bytes(whole.metadata or b'')
                reassembled.setdefault(whole.stream_id, []).append([len(m), len(d), sorted(set(d + m))[:3]])
        want_whole = {}
        for s0 in sources:
            if s0['kind'] in ('payload', 'complete') and s0['frame'] is not None:
                d, m = bytes(s0['frame'].data or b''), bytes(s0['frame'].metadata or b'')
                want_whole.setdefault(s0['sid'], []).append([len(m), len(d), sorted(set(d + m))[:3]])
            elif s0['kind'] == 'lib-request':
                n = s0.get('nbytes', 3)
                want_whole.setdefault(s0['sid'], []).append([0, n, [s0['body']] if s0.get('body') is not None else sorted(set(b'lib'))])
        alive = server._sender_task is not None and not server._sender_task.done()
        qlen = server._send_queue.qsize()
        await server.close()
        return {'events': events, 'wire': wire, 'sources': [{k: v for k, v in s.items() if k != 'frame'} for s in sources],
                'reassembled': {str(k): v for k, v in reassembled.items()}, 'want_whole': {str(k): v for k, v in want_whole.items()},
                'sender_alive': alive, 'queue_left': qlen, 'blocked': t.blocked()}

    @staticmethod
    def _identify(fr, sources):
        from rsocket.frame import PayloadFrame, ErrorFrame, CancelFrame, RequestNFrame, KeepAliveFrame
        for s in sources:
            f0 = s['frame']
            if f0 is None and s['kind'] == 'lib-request':
                from rsocket.frame import RequestStreamFrame
                if isinstance(fr, RequestStreamFrame) and fr.stream_id == s['sid'] and not s.get('_used'):
                    s['_used'] = True
                    return s['tag']
                if isinstance(fr, PayloadFrame) and fr.stream_id == s['sid'] and s.get('body') is not None and fr.data and set(fr.data) == {s['body']}:
                    return s['tag']      # a continuation fragment of the library's own request
                continue
            if f0 is None and s['kind'] == 'lib-cancel':
                if isinstance(fr, CancelFrame) and fr.stream_id == s['sid'] and not s.get('_used'):
                    s['_used'] = True
                    return s['tag']
                continue
            if f0 is None and s['kind'] == 'lib-request-n':
                if isinstance(fr, RequestNFrame) and fr.stream_id == s['sid'] and fr.request_n == s['n']:
                    return s['tag']
                continue
            if f0 is None:
                # queued by the library itself: ERROR[REJECTED] for a request on an open stream id (the harness's own errors are APPLICATION_ERROR)
                if isinstance(fr, ErrorFrame) and fr.stream_id == s['sid'] and int(fr.error_code) == 0x202 and not s.get('_used'):
                    s['_used'] = True
                    return s['tag']
                continue
            if type(fr) is not type(f0) and not (isinstance(fr, PayloadFrame) and isinstance(f0, PayloadFrame)):
                continue
            if fr.stream_id != s['sid']:
                continue
            if isinstance(fr, PayloadFrame):
                content = (fr.data or b'') + (fr.metadata or b'')
                c0 = (f0.data or b'') + (f0.metadata or b'')
                if (content and c0 and content[0] == c0[0] and set(content) == {c0[0]}) or (not content and not c0):
                    if not content and s.get('_used'):
                        continue
                    if not content:
                        s['_used'] = True
                    return s['tag']
            elif isinstance(fr, ErrorFrame):
                if fr.data == f0.data:
                    return s['tag']
            elif isinstance(fr, RequestNFrame):
                if fr.request_n == f0.request_n:
                    return s['tag']
            elif isinstance(fr, KeepAliveFrame):
                if fr.data == f0.data:
                    return s['tag']
            elif isinstance(fr, CancelFrame):
                if not s.get('_used'):
                    s['_used'] = True
                    return s['tag']
        return 0

    def model_lines(self, case, obs):
        if case.get('kind') == 'pair':
            return []
        return ['sq ' + ' '.join(obs['events'])]

    def compare(self, case, obs, answers):
        if case.get('kind') == 'pair':
            return None
        impl = ' '.join('%d:%d' % (s, l) for s, l in obs['wire'])
        model = answers[0].split(' | ')[0].strip()
        if impl != model:
            return 'wire differs: impl %s / model %s' % (impl[:300], model[:300])

    def oracle(self, case, obs):
        fails = []
        if case.get('kind') == 'pair':
            from harness.props import c01
            return [{'signature': 'at-the-receiving-endpoint:' + f['signature'], 'what': f['what']} for f in c01.PROP.oracle(case['c01'], obs)]
        expected = {}
        for s in obs['sources']:
            expected.setdefault(s['sid'], []).extend(s['tag'] * 100 + i for i in range(s['k']))
        # priority frames (stream 0) are legal only with nothing queued for stream 0, so queue order = tag order there too
        got = {}
        for sid, label in obs['wire']:
            got.setdefault(sid, []).append(label)
        for sid, labels in got.items():
            exp = expected.get(sid, [])
            if labels != exp[:len(labels)]:
                i = next((j for j, (a, b) in enumerate(zip(labels, exp)) if a != b), min(len(labels), len(exp)))
                fails.append({'signature': 'same-stream-frames-reordered-or-interleaved',
                              'what': 'stream %d: wire order %s is not a prefix of queued order %s (first difference at position %d); '
                                      'labels are 100*frame+fragment' % (sid, labels[:12], exp[:12], i)})
        if case['drain'] and not obs['blocked'] and obs['sender_alive']:
            for sid, exp in expected.items():
                if got.get(sid, []) != exp and not any(f['signature'].startswith('same-stream') for f in fails):
                    fails.append({'signature': 'queued-frame-not-sent', 'what': 'stream %d: after draining, sent %d of %d queued fragments' % (sid, len(got.get(sid, [])), len(exp))})
        if not any(f['signature'].startswith('same-stream') for f in fails):
            for sid, got_whole in (obs.get('reassembled') or {}).items():
                want = (obs.get('want_whole') or {}).get(sid, [])
                if got_whole != want[:len(got_whole)]:
                    i = next((j for j, (a, b) in enumerate(zip(got_whole, want)) if a != b), min(len(got_whole), len(want)))
                    fails.append({'signature': 'frames-merged-or-truncated-at-receiver',
                                  'what': 'stream %s: a reassembly cache fed with the wire puts together %s, queued were %s (as [metadata bytes, data bytes, byte values]; first difference at frame %d)' % (
                                      sid, got_whole[i:i + 2], want[i:i + 2], i)})
        if not obs['sender_alive']:
            fails.append({'signature': 'sender-died', 'what': 'the sender task ended during the history'})
        return fails

    def nontrivial(self, case, obs):
        if case.get('kind') == 'pair':
            return json.dumps(case, sort_keys=True)
        # two frames of one stream queued while a fragmented one of that stream is partly sent
        multi = {s['sid'] for s in obs['sources'] if s['k'] > 1}
        per = {}
        for s in obs['sources']:
            per[s['sid']] = per.get(s['sid'], 0) + 1
        if any(per.get(sid, 0) >= 2 for sid in multi) and len(obs['wire']) >= 3:
            return json.dumps(case, sort_keys=True)
        return None

    def stats(self, case, obs):
        if case.get('kind') == 'pair':
            yield 'kind=two-real-endpoints'
            return
        yield 'F=%s' % case['F']
        yield 'lp=%s' % case['lp']
        for k in {s['kind'] for s in obs['sources']}:
            yield 'kind=' + k
        if any(s['k'] > 2 for s in obs['sources']):
            yield 'has-3plus-fragments'
        if any(e.startswith('p') for e in obs['events']):
            yield 'priority-frame'

    def shrink_candidates(self, case):
        if case.get('kind') == 'pair':
            return
        acts = case['acts']
        for i in range(len(acts)):
            yield dict(case, acts=acts[:i] + acts[i + 1:])


PROP = C05()
