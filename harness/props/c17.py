"""C17 — reconnect yields a fresh, working connection."""
import asyncio
import json

from harness.core import Prop
from harness import detloop, clientrun, simnet


class C17(Prop):
    id = 'C17'
    lean_modules = ['RSocketModel.Props.C17']
    technique = 'Lean 4 proof (client life-cycle model, any prior state, any number of reconnects) + differential correspondence under a virtual clock'
    level_text = ('c17_fresh_connection (for every state the previous connection was left in), c17_served(_early_request), c17_keepalives_restart, c17_any_number, c17_old_transport_closed and c17_every_old_transport_closed (over every life-cycle history each transport obtained from the provider is the one in use or has been closed) are kernel-checked on the '
                  'client life-cycle model shared with C16; the model is replayed on the entry-point sequence observed from a real RSocketClient that is reconnected after server EOF, transport '
                  'error, keepalive timeout or while healthy, with interactions pending, 1..4 times in a row; frames per transport and the transports closed are compared.')
    level_note = 'Trusted: Lean kernel + standard axioms; provider generators are application code; transport.close() may raise (scripted); virtual clock.'
    design_ref = '§5 C17'
    rule = ('cause of the previous connection\'s end (server EOF, transport error, keepalive timeout, healthy) x pending request-responses/streams/channels with a live local publisher at that moment x 1..4 consecutive '
            'reconnects x provider/connect suspensions x reconnect() called by the harness or from inside on_close (which then returns, or stays suspended while the reconnect is carried out) x an on_close handler that raises an exception of its own, or takes 40 ms while a healthy or timed-out connection is being replaced, with a request issued meanwhile (it must be failed or served, not left hanging) x close() of the old transport raising ConnectionResetError or not x a link that had stopped draining writes (requests still queued) or not; after each reconnect a request is issued and answered by the harness on the new transport and the clock is advanced by two '
            'keep-alive periods; non-trivial = something was pending or the cause was a timeout; distinct = distinct case')
    assumptions = ['the transport provider yields a fresh transport for every reconnect']

    def cases(self, rng, tier):
        out = []
        n = 600 if tier == 'quick' else 6000
        for _ in range(n):
            k = rng.randint(1, 4)
            out.append({'rounds': [{'cause': rng.choice(['eof', 'error', 'timeout', 'healthy']), 'pending_rr': rng.randint(0, 2), 'pending_stream': rng.randint(0, 1),
                                    'early_request': rng.random() < 0.4, 'close_raises': rng.random() < 0.35, 'stalled': rng.random() < 0.25,
                                    'pending_channel': rng.random() < 0.35, 'via_on_close': rng.choice([None, None, 'plain', 'suspend']),
                                    # the application's on_close takes its time (examples/client_reconnect.py sleeps there) and a request is issued meanwhile
                                    'slow_on_close': rng.random() < 0.3, 'mid_request': rng.random() < 0.6,
                                    # ... or fails with an exception of its own
                                    'on_close_raises': rng.random() < 0.2} for _ in range(k)],
                        'p': rng.randint(0, 2), 'c': rng.randint(0, 2)})
        return out

    def run_impl(self, case):
        return detloop.run(self._scenario, case)

    async def _scenario(self, loop, case):
        from rsocket.payload import Payload
        from rsocket import frame as F
        from rsocket.exceptions import RSocketTransportError
        KA, LIFE = 200, 1000
        R = clientrun.ClientRun(loop, n_transports=len(case['rounds']) + 1, provider_ticks=case['p'], connect_ticks=case['c'], ka_ms=KA, life_ms=LIFE)
        c = R.build()
        await c.connect()
        await loop.settle()
        rounds = []

        class Sub:
            def __init__(self):
                self.events = []

            def on_subscribe(self, s): self.events.append('sub')
            def on_next(self, v, is_complete=False): self.events.append('next')
            def on_complete(self): self.events.append('complete')
            def on_error(self, e): self.events.append('error:' + type(e).__name__)

        async def serve_one(ti):
            """issue a request-response on the current connection and answer it as the server"""
            t = R.transports[ti]
            n0 = len(t.sent)
            fut = c.request_response(Payload(b'ping'))
            await loop.settle()
            req = [e for e in t.sent[n0:] if isinstance(e[2], F.RequestResponseFrame)]
            sid = req[0][2].stream_id if req else None
            if sid is not None:
                resp = F.PayloadFrame()
                resp.stream_id, resp.data, resp.flags_complete = sid, b'pong', True
                t.deliver(resp.serialize())
                R.ev('P%d' % sid)
                await loop.settle()
            ok = fut.done() and not fut.cancelled() and fut.exception() is None and fut.result().data == b'pong'
            return sid, ok

        class Pub:
            """the application's publisher behind a request-channel: emits only while its subscription has not been cancelled"""
            def __init__(self):
                self.subscriber, self.cancelled, self.requested = None, False, 0

            def subscribe(self, subscriber):
                self.subscriber = subscriber
                pub = self

                class S:
                    def request(self, n): pub.requested += n
                    def cancel(self): pub.cancelled = True
                subscriber.on_subscribe(S())

        ti = 0
        sid0, ok0 = await serve_one(0)
        for r in case['rounds']:
            t = R.transports[ti]
            if r.get('close_raises'):
                # closing the old transport fails (as closing a reset TCP connection does): the reconnect must go on regardless
                t.close_error = ConnectionResetError(104, 'Connection reset by peer')
            if r.get('stalled'):
                # the link stops draining writes: requests issued now stay in the send queue (the first one inside send_frame)
                t.gated = True
            pend = [c.request_response(Payload(b'p%d' % i)) for i in range(r['pending_rr'] + (2 if r.get('stalled') else 0))]
            subs = []
            for _ in range(r['pending_stream']):
                s = Sub()
                c.request_stream(Payload(b's')).subscribe(s)
                subs.append(s)
            pubs = []
            if r.get('pending_channel'):
                p = Pub()
                s = Sub()
                c.request_channel(Payload(b'ch'), publisher=p).subscribe(s)
                subs.append(s)
                pubs.append(p)
            await loop.settle()
            sent_before = len(t.sent)
            # the application may ask for the reconnect from inside its on_close handler, and stay suspended there while it is carried out
            via = r.get('via_on_close') if r['cause'] in ('eof', 'error') else None
            if via:
                R.reconnect_in_on_close = True
                R.on_close_sleep_ms = 50 if via == 'suspend' else 0
            if r['cause'] == 'eof':
                t.deliver(simnet.EOF_MARK)
                await loop.settle()
            elif r['cause'] == 'error':
                t.deliver(RSocketTransportError())
                await loop.settle()
            elif r['cause'] == 'timeout':
                await loop.advance(2 * LIFE + 50)
            timeouts = len(R.timeouts)
            nconnects = R.log.count('C')
            mid = None
            R.on_close_raises = bool(r.get('on_close_raises')) and not via
            if via:
                R.reconnect_in_on_close = False
            else:
                slow = r.get('slow_on_close') and r['cause'] in ('healthy', 'timeout')
                if slow:
                    R.slow_on_close_ms = 40
                await c.reconnect()
                if slow:
                    # the reconnect is under way: the old receiver has been ended, on_close is taking its time; the application asks now
                    await loop.advance(10)
                    if r.get('mid_request') and R.log.count('C') == nconnects:
                        try:
                            mid = c.request_response(Payload(b'mid'))
                        except Exception as e:
                            mid = 'raised:' + type(e).__name__
                    await loop.advance(60)
                    R.slow_on_close_ms = 0
            for _ in range(200):
                await asyncio.sleep(0)
                if R.log.count('C') > nconnects:
                    break
            R.on_close_raises = False
            early = None
            if r['early_request'] and R.log.count('C') > nconnects and not c._next_transport.done():
                try:
                    early = c.request_response(Payload(b'early'))
                except Exception as e:
                    early = 'raised:' + type(e).__name__
            await loop.settle()
            ti += 1
            nt = R.transports[ti]
            first = nt.sent[0][1].split(' ')[0] if nt.sent else None
            early_sid = None
            if early is not None and not isinstance(early, str):
                reqs = [e[2].stream_id for e in nt.sent if isinstance(e[2], F.RequestResponseFrame)]
                early_sid = reqs[0] if reqs else None
            sid, ok = await serve_one(ti)
            # a publisher of the previous connection that was not told to stop goes on emitting
            for p in pubs:
                if p.subscriber is not None and not p.cancelled:
                    try:
                        p.subscriber.on_next(Payload(b'p-stale'), False)
                    except Exception:
                        pass
            await loop.settle()
            ka0 = len([e for e in nt.sent if isinstance(e[2], F.KeepAliveFrame)])
            await loop.advance(2 * KA + 10)
            ka1 = len([e for e in nt.sent if isinstance(e[2], F.KeepAliveFrame)])
            rounds.append({
                'old_closed': t.closed, 'old_sent_after': len(t.sent) - sent_before if r['cause'] != 'timeout' else None,
                'pending_failed': [f.done() and not f.cancelled() and f.exception() is not None for f in pend],
                'subs_failed': [any(e.startswith('error') for e in s.events) for s in subs],
                'first_frame': first, 'served_sid': sid, 'served': ok, 'early_sid': early_sid, 'early': None if early is None else (early if isinstance(early, str) else 'future'),
                'keepalives_in_2_periods': ka1 - ka0, 'timeouts': timeouts, 'setups': sum(1 for e in nt.sent if e[1].startswith('SETUP')),
                'stale': [e[1][:60] for e in nt.sent if isinstance(e[2], (F.RequestResponseFrame, F.PayloadFrame)) and bytes(e[2].data or b'').startswith(b'p') and bytes(e[2].data) not in (b'ping', b'pong')],
                'pubs_cancelled': [p.cancelled for p in pubs if p.subscriber is not None],
                'mid': None if mid is None else (mid if isinstance(mid, str) else ('pending' if not mid.done() else ('cancelled' if mid.cancelled() else ('failed' if mid.exception() is not None else 'served')))),
            })
        evs, sends, anomalies = R.model_events()
        closed = [int(e.split(':')[1]) for e in R.log if e.startswith('TC:')]      # transports closed so far (the final close() comes below)
        try:
            await c.close()
        except Exception:
            pass
        return {'rounds': rounds, 'events': evs, 'sends': sends, 'anomalies': anomalies, 'first_ok': ok0, 'closed': closed}

    def model_lines(self, case, obs):
        return ['cli ' + ' '.join(e for e in obs['events'] if e != 'QS-LATE')]

    def compare(self, case, obs, answers):
        if any(r.get('stalled') for r in case['rounds']):
            return None      # a link that stops draining is outside the life-cycle model's event alphabet: judged by the oracle only
        if obs['anomalies']:
            return 'life-cycle: %s' % obs['anomalies']
        sent = answers[0].split(' | ')[0].split(' ') if answers[0].split(' | ')[0] else []
        if sent != obs['sends']:
            i = next((k for k, (a, b) in enumerate(zip(sent, obs['sends'])) if a != b), min(len(sent), len(obs['sends'])))
            return 'frames handed to transports differ at send %d: impl %s / model %s' % (i, obs['sends'][max(0, i - 2):i + 3], sent[max(0, i - 2):i + 3])
        fields = dict(x.split('=', 1) for x in answers[0].split(' | ')[1].split(' ') if '=' in x)
        mclosed = [] if fields.get('closed', '-') == '-' else [int(x) for x in fields['closed'].split(',')]
        if 'closed' in obs and mclosed != obs['closed']:
            return 'transports closed by the reconnects: impl %s / model %s' % (obs['closed'], mclosed)

    def oracle(self, case, obs):
        fails = []
        for k, (r, c) in enumerate(zip(obs['rounds'], case['rounds'])):
            ctx = 'reconnect %d after %s' % (k + 1, c['cause'])
            if not r['old_closed']:
                fails.append({'signature': 'old-transport-not-closed', 'what': ctx})
            if not all(r['pending_failed']):
                fails.append({'signature': 'pending-request-not-failed-on-reconnect', 'what': '%s: %s' % (ctx, r['pending_failed'])})
            if not all(r['subs_failed']):
                fails.append({'signature': 'pending-stream-not-failed-on-reconnect', 'what': '%s: %s' % (ctx, r['subs_failed'])})
            if not all(r.get('pubs_cancelled', [])):
                fails.append({'signature': 'pending-channel-publisher-not-cancelled-on-reconnect', 'what': '%s: the local publisher of a pending request-channel was not cancelled' % ctx})
            if r['first_frame'] != 'SETUP' or r['setups'] != 1:
                fails.append({'signature': 'no-fresh-setup-after-reconnect:' + c['cause'], 'what': '%s: first frame on the new transport is %s (%d SETUP frames)' % (ctx, r['first_frame'], r['setups'])})
            exp_sid = 3 if r['early'] == 'future' else 1
            if r['served_sid'] != exp_sid or (r['early'] == 'future' and r['early_sid'] != 1):
                fails.append({'signature': 'stream-ids-not-restarted:' + c['cause'], 'what': '%s: first request id %s / %s, expected to restart from 1' % (ctx, r['early_sid'], r['served_sid'])})
            if r.get('mid') == 'pending':
                fails.append({'signature': 'request-issued-during-reconnect-left-hanging', 'what': '%s: a request issued while the old connection was being torn down (on_close still running) was neither failed nor served' % ctx})
            if r.get('stale'):
                fails.append({'signature': 'stale-frames-on-new-connection', 'what': '%s: requests queued on the previous connection were sent on the new one: %s' % (ctx, r['stale'])})
            if not r['served']:
                fails.append({'signature': 'request-after-reconnect-not-served:' + c['cause'], 'what': '%s: a request issued afterwards was not served' % ctx})
            if r['keepalives_in_2_periods'] < 1:
                fails.append({'signature': 'keepalives-not-restarted:' + c['cause'], 'what': '%s: no KEEPALIVE within two periods on the new connection' % ctx})
        # former known finding F19 (repaired by /repo 5534e40, listed under `fixed:`; nothing is suppressed any more): once a reconnect has been requested from inside on_close, the clean-up of that earlier connection
        # (_on_connection_closed -> _stop_tasks, still unwinding) can reset / cancel the tasks of a *later* connection. Failures in rounds
        # that come after such a round get their own signatures, so that the same symptoms in any other history are still reported.
        out = []
        for f in fails:
            k = int(f['what'].split(' ')[1]) - 1 if f['what'].startswith('reconnect ') else None
            if k is not None and any(r.get('via_on_close') and r['cause'] in ('eof', 'error') for r in case['rounds'][:k]):
                f = dict(f, signature='after-earlier-on_close-reconnect', what='%s [%s]' % (f['what'], f['signature']))
            out.append(f)
        return out

    def nontrivial(self, case, obs):
        if any(r['cause'] == 'timeout' or r['pending_rr'] or r['pending_stream'] or r.get('pending_channel') for r in case['rounds']):
            return json.dumps(case, sort_keys=True)
        return None

    def stats(self, case, obs):
        yield 'reconnects=%d' % len(case['rounds'])
        for r in case['rounds']:
            yield 'cause=' + r['cause']

    def shrink_candidates(self, case):
        rs = case['rounds']
        for i in range(len(rs)):
            if len(rs) > 1:
                yield dict(case, rounds=rs[:i] + rs[i + 1:])
        for i, r in enumerate(rs):
            for k in ('pending_rr', 'pending_stream'):
                if r[k]:
                    yield dict(case, rounds=rs[:i] + [dict(r, **{k: 0})] + rs[i + 1:])
            if r['early_request']:
                yield dict(case, rounds=rs[:i] + [dict(r, early_request=False)] + rs[i + 1:])
        if case['p']:
            yield dict(case, p=0)
        if case['c']:
            yield dict(case, c=0)


PROP = C17()
