"""C18 — extension metadata codecs. Correspondence of CompositeMetadata / TaggingMetadata / StreamDataMimetype(s) /
AuthenticationContent / serialize_well_known_encoding with `RSocketModel.Composite` (tables regenerated from the
source), on entry lists of every kind at boundary lengths, and on malformed composites."""
import json
import os
import subprocess
import sys

from harness.core import Prop, REPO, VERIF


def hx(b):
    b = bytes(b) if b is not None else b''
    return b.hex() if b else '-'


def name_of(enc):
    # canonical MIME name of whatever the library keeps as an "encoding"
    from rsocket.extensions.mimetypes import WellKnownMimeTypes
    if isinstance(enc, WellKnownMimeTypes):
        return bytes(enc.value.name)
    if hasattr(enc, 'name') and hasattr(enc, 'id'):
        return bytes(enc.name)
    return bytes(enc)


def dump_items(items):
    from rsocket.extensions.routing import RoutingMetadata
    from rsocket.extensions.tagging import TaggingMetadata
    from rsocket.extensions.stream_data_mimetype import StreamDataMimetype, StreamDataMimetypes
    from rsocket.extensions.authentication_content import AuthenticationContent
    from rsocket.extensions.authentication import AuthenticationSimple, AuthenticationBearer
    out = []
    for it in items:
        if isinstance(it, TaggingMetadata):
            out.append('route:' + ','.join(hx(t) for t in it.tags))
        elif isinstance(it, StreamDataMimetypes):
            out.append('accept:' + ','.join(hx(name_of(m)) for m in it.data_encodings))
        elif isinstance(it, StreamDataMimetype):
            out.append('mime:' + hx(name_of(it.data_encoding)))
        elif isinstance(it, AuthenticationContent):
            a = it.authentication
            if isinstance(a, AuthenticationSimple):
                out.append('simple:%s:%s' % (hx(a.username), hx(a.password)))
            elif isinstance(a, AuthenticationBearer):
                out.append('bearer:' + hx(a.token))
            else:
                out.append('auth?')
        else:
            out.append('raw:%s:%s' % (hx(name_of(it.encoding)), hx(it.content)))
    return out


def build_items(spec, rng_choice=None, helpers=False):
    """`helpers`: build each item through the convenience functions of rsocket/extensions/helpers.py where its content can be passed that way"""
    from rsocket.extensions import helpers as HP
    from rsocket.extensions.routing import RoutingMetadata
    from rsocket.extensions.stream_data_mimetype import StreamDataMimetype, StreamDataMimetypes
    from rsocket.extensions.authentication_content import AuthenticationContent
    from rsocket.extensions.authentication import AuthenticationSimple, AuthenticationBearer
    from rsocket.extensions.composite_metadata_item import CompositeMetadataItem
    from rsocket.extensions.mimetypes import WellKnownMimeTypes
    by_name = {bytes(m.value.name): m for m in WellKnownMimeTypes if m.value.id >= 0}

    def mime(h, as_enum):
        b = bytes.fromhex(h)
        if as_enum and b in by_name:
            return by_name[b]
        return b
    def text(h):
        try:
            return bytes.fromhex(h).decode('utf-8')
        except UnicodeDecodeError:
            return None
    items = []
    for s in spec:
        k = s['k']
        if helpers and not s.get('tagging'):
            if k == 'raw':
                items.append(HP.metadata_item(bytes.fromhex(s['c']), mime(s['m'], s.get('enum'))))
                continue
            if k == 'route' and all(text(t) is not None for t in s['tags']):
                items.append(HP.route(*[text(t) for t in s['tags']]))
                continue
            if k == 'mime':
                items.append(HP.data_mime_type(mime(s['m'], s.get('enum'))))
                continue
            if k == 'accept':
                items.append(HP.data_mime_types(*[mime(m, s.get('enum')) for m in s['ms']]))
                continue
            if k == 'simple' and text(s['u']) is not None and text(s['p']) is not None:
                items.append(HP.authenticate_simple(text(s['u']), text(s['p'])))
                continue
            if k == 'bearer' and text(s['t']) is not None:
                items.append(HP.authenticate_bearer(text(s['t'])))
                continue
        if k in ('raw', 'route') and s.get('tagging'):
            # the same entry built as a TaggingMetadata (the base class of RoutingMetadata), its MIME type given as bytes, as a
            # WellKnownMimeType value or as the enum member (the way the library's own tests name the routing type)
            from rsocket.extensions.tagging import TaggingMetadata
            name = bytes.fromhex(s['m']) if k == 'raw' else b'message/x.rsocket.routing.v0'
            rep = {'bytes': name, 'value': by_name[name].value if name in by_name else name, 'enum': by_name.get(name, name)}[s['tagging']]
            items.append(TaggingMetadata(rep, [bytes.fromhex(t) for t in s['tags']]))
        elif k == 'raw':
            items.append(CompositeMetadataItem(mime(s['m'], s.get('enum')), bytes.fromhex(s['c'])))
        elif k == 'route':
            items.append(RoutingMetadata([bytes.fromhex(t) for t in s['tags']]))
        elif k == 'mime':
            items.append(StreamDataMimetype(mime(s['m'], s.get('enum'))))
        elif k == 'accept':
            items.append(StreamDataMimetypes([mime(m, s.get('enum')) for m in s['ms']]))
        elif k == 'simple':
            items.append(AuthenticationContent(AuthenticationSimple(bytes.fromhex(s['u']), bytes.fromhex(s['p']))))
        elif k == 'bearer':
            items.append(AuthenticationContent(AuthenticationBearer(bytes.fromhex(s['t']))))
    return items


def spec_tokens(spec):
    out = []
    for s in spec:
        k = s['k']
        h = lambda x: x or '-'
        if k == 'raw':
            out.append('raw:%s:%s' % (h(s['m']), h(s['c'])))
        elif k == 'route':
            out.append('route:' + ','.join(h(t) for t in s['tags']))
        elif k == 'mime':
            out.append('mime:' + h(s['m']))
        elif k == 'accept':
            out.append('accept:' + ','.join(h(m) for m in s['ms']))
        elif k == 'simple':
            out.append('simple:%s:%s' % (h(s['u']), h(s['p'])))
        else:
            out.append('bearer:' + h(s['t']))
    return out


_CHILD = r'''
import sys, json
sys.modules['cbitstruct'] = None
sys.path.insert(0, %r); sys.path.insert(0, %r)
import logging; logging.disable(logging.CRITICAL)
from harness.props import c18
import rsocket.frame_helpers as fh
assert 'cbitstruct' not in dir(fh), 'cbitstruct still importable'
req = json.load(sys.stdin)
out = [c18.PROP.run_impl(c) for c in req['cases']]
json.dump(out, sys.stdout)
'''


class C18(Prop):
    id = 'C18'
    lean_modules = ['RSocketModel.Props.C18']
    technique = 'Lean 4 proof (round-trip by induction over entry lists; tables decided with decide +kernel over the regenerated rows) + differential correspondence'
    level_text = ('c18_composite_roundtrip / c18_reencode (all entry lists within limits), c18_item_roundtrip, c18_mime_roundtrip, c18_tags_roundtrip, '
                  'c18_overlong_mime_rejected, c18_overlong_tag_rejected are kernel-checked; c18_tables_bijective, c18_sentinels_excluded and c18_item_classes are decided '
                  'over the tables regenerated from the enums and lookup dictionaries on every run. The model is run against the real codec classes on valid and malformed input.')
    level_note = ('Trusted: Lean kernel + standard axioms; translator for the tables; the two sentinel rows (negative ids) are excluded from "well-known"; user name < 2^16 and '
                  'entry < 2^24 are part of the limits (the code truncates silently beyond).')
    design_ref = '§5 C18'
    rule = ('lists of 0..6 entries of all six kinds, MIME names well-known (every table row is used, as enum and as bytes), near misses of well-known names (other case, white space, one character off) or custom at lengths 1,2,127,128 and out-of-limit '
            '0,129,200; tags at 0,1,254,255 and out-of-limit 256,300, text tags outside ASCII given as str (up to 255 bytes of 2- and 3-byte characters); credentials 0..70 bytes and at the byte boundaries of their length fields (user names of 255..65535 bytes, tokens and item contents of 255..70000 bytes); a third of the lists built through rsocket/extensions/helpers.py; routing item objects that were encoded before with other tags and then given new ones (by assignment, in place, by parse()); routing entries and tag lists under other MIME types also built as TaggingMetadata with the type given as bytes, as a WellKnownMimeType value or as the enum member; batches re-run in a sub-process with cbitstruct blocked (struct fallbacks of frame_helpers.py); plus truncations / bit flips / random bytes of valid composites; '
            'non-trivial = at least two entries or a boundary length; distinct = distinct entry list / blob')
    assumptions = ['entries are built through the repo classes; a str-typed encoding is not generated (bytes and enum values are)']

    def _mime(self, rng, table, allow_bad=False):
        x = rng.random()
        if x < 0.45:
            return rng.choice(table).hex()
        if x < 0.55:
            # a custom name that is a near miss of a well-known one: other case, white space, one character off (it must stay custom)
            b = rng.choice(table)
            v = rng.choice([b.upper(), b.title(), b.swapcase(), b + b' ', b' ' + b, b[:-1], b + b'x'])
            if v not in table and 1 <= len(v) <= 128:
                return v.hex()
        n = rng.choice([1, 2, 3, 20, 127, 128] + ([0, 129, 200] if allow_bad else []))
        return bytes(97 + rng.randrange(26) for _ in range(n)).hex()

    def cases(self, rng, tier):
        from rsocket.extensions.mimetypes import WellKnownMimeTypes
        table = [bytes(m.value.name) for m in WellKnownMimeTypes if m.value.id >= 0]
        out = []
        # every well-known type once, both ways of naming it
        special = (b'message/x.rsocket.routing.v0', b'message/x.rsocket.mime-type.v0',
                   b'message/x.rsocket.accept-mime-types.v0', b'message/x.rsocket.authentication.v0')
        for name in table:
            items = [{'k': 'mime', 'm': name.hex(), 'enum': True}, {'k': 'accept', 'ms': [name.hex(), name.hex()], 'enum': False}]
            if name not in special:
                items.append({'k': 'raw', 'm': name.hex(), 'c': '01', 'enum': False})
            out.append({'kind': 'enc', 'items': items, 'helpers': rng.random() < 0.35})
        # length fields at their byte boundaries: the 16-bit user-name length of simple authentication, the 24-bit content length of an item
        for _ in range(30 if tier == 'quick' else 300):
            fill = lambda k: (bytes([rng.randint(1, 255)]) * k).hex()
            x = rng.random()
            if x < 0.5:
                it = {'k': 'simple', 'u': fill(rng.choice([255, 256, 32767, 32768, 40000, 65535])), 'p': fill(rng.choice([0, 1, 300]))}
            elif x < 0.75:
                it = {'k': 'bearer', 't': fill(rng.choice([255, 256, 65535, 65536, 70000]))}
            else:
                it = {'k': 'raw', 'm': b'application/x.big'.hex(), 'c': fill(rng.choice([255, 256, 65535, 65536, 70000])), 'enum': False}
            items = [it] + ([{'k': 'route', 'tags': [b'after'.hex()]}] if rng.random() < 0.5 else [])
            out.append({'kind': 'enc', 'items': items, 'helpers': False})
        n = 4000 if tier == 'quick' else 120000
        for _ in range(n):
            bad = rng.random() < 0.12
            items = []
            for _ in range(rng.choice([0, 1, 1, 2, 3, 4, 6])):
                k = rng.choice(['raw', 'route', 'mime', 'accept', 'simple', 'bearer'])
                en = rng.random() < 0.5
                if k == 'raw':
                    m = self._mime(rng, table, bad)
                    while bytes.fromhex(m) in (b'message/x.rsocket.routing.v0', b'message/x.rsocket.mime-type.v0',
                                               b'message/x.rsocket.accept-mime-types.v0', b'message/x.rsocket.authentication.v0'):
                        m = self._mime(rng, table, bad)
                    items.append({'k': 'raw', 'm': m, 'c': bytes(rng.getrandbits(8) for _ in range(rng.choice([0, 1, 5, 300]))).hex(), 'enum': en})
                    if rng.random() < 0.15:
                        # a tag list under this MIME type: on the wire an ordinary entry whose content is the length-prefixed tags
                        tags = [bytes(rng.getrandbits(8) for _ in range(rng.choice([1, 5, 255]))) for _ in range(rng.choice([1, 2, 3]))]
                        items[-1].update(tags=[t.hex() for t in tags], c=b''.join(bytes([len(t)]) + t for t in tags).hex(), tagging=rng.choice(['bytes', 'value', 'enum']))
                elif k == 'route':
                    lens = [0, 1, 5, 254, 255] + ([256, 300] if bad else [])
                    items.append({'k': 'route', 'tags': [bytes(rng.getrandbits(8) for _ in range(rng.choice(lens))).hex() for _ in range(rng.choice([0, 1, 1, 2, 4]))]})
                    if rng.random() < 0.2:
                        # text tags outside ASCII (UTF-8 longer than the character count), incl. 255 bytes made of 2- and 3-byte characters
                        items[-1]['tags'] = [rng.choice(['señal', 'café.menu', 'ü' * 127 + 'a', '€' * 85, 'ß', '日本語']).encode('utf-8').hex() for _ in range(rng.choice([1, 2]))]
                    if rng.random() < 0.25:
                        items[-1]['tagging'] = rng.choice(['bytes', 'value', 'enum'])
                elif k == 'mime':
                    items.append({'k': 'mime', 'm': self._mime(rng, table, bad), 'enum': en})
                elif k == 'accept':
                    items.append({'k': 'accept', 'ms': [self._mime(rng, table, bad) for _ in range(rng.choice([0, 1, 2, 5]))], 'enum': en})
                elif k == 'simple':
                    items.append({'k': 'simple', 'u': bytes(rng.getrandbits(8) for _ in range(rng.choice([0, 1, 8, 70]))).hex(),
                                  'p': bytes(rng.getrandbits(8) for _ in range(rng.choice([0, 1, 8, 70]))).hex()})
                else:
                    items.append({'k': 'bearer', 't': bytes(rng.getrandbits(8) for _ in range(rng.choice([0, 1, 30, 300]))).hex()})
            out.append({'kind': 'enc', 'items': items, 'helpers': rng.random() < 0.35})
        # tagging item objects with a history (encoded once with other tags, then given new ones by assignment, in place, or by parse())
        for _ in range(150 if tier == 'quick' else 4000):
            tg = lambda: [bytes(rng.getrandbits(8) for _ in range(rng.choice([1, 5, 12, 255]))).hex() for _ in range(rng.choice([1, 1, 2, 3]))]
            out.append({'kind': 'enc', 'items': [{'k': 'route', 'tags': tg()}], 'helpers': False, 'history': {'first': tg(), 'how': rng.choice(['assign', 'extend', 'parse'])}})
        pool = [x for x in out[len(table):] if not x.get('history')]
        for _ in range(n // 2):
            c = rng.choice(pool)
            try:
                blob = self._encode(c['items'])
            except Exception:
                continue
            b = bytearray(blob)
            m = rng.choice(['trunc', 'flip', 'rand', 'splice'])
            if m == 'trunc' and b:
                b = b[:rng.randint(0, len(b))]
            elif m == 'flip' and b:
                b[rng.randrange(len(b))] ^= 1 << rng.randrange(8)
            elif m == 'splice' and b:
                i = rng.randrange(len(b))
                b = b[:i] + bytes([rng.getrandbits(8)]) + b[i:]
            else:
                b = bytearray(rng.getrandbits(8) for _ in range(rng.choice([1, 2, 4, 5, 9, 20])))
            out.append({'kind': 'dec', 'blob': bytes(b).hex()})
        # both bit-packing backends: batches of the cases above, run again with cbitstruct blocked
        small = [c for c in out if len(json.dumps(c)) < 4000]
        for _ in range(8 if tier == 'quick' else 60):
            out.append({'kind': 'backend', 'cases': [rng.choice(small) for _ in range(150)]})
        return out

    @staticmethod
    def _encode(items, helpers=False):
        from rsocket.extensions.composite_metadata import CompositeMetadata
        if helpers:
            from rsocket.extensions.helpers import composite
            return composite(*build_items(items, helpers=True))
        return CompositeMetadata(build_items(items)).serialize()

    def run_impl(self, case):
        from rsocket.extensions.composite_metadata import CompositeMetadata
        from rsocket.exceptions import RSocketMimetypeTooLong, RSocketError
        if case['kind'] == 'backend':
            # the same batch with the optional cbitstruct extension present (this process) and blocked (a sub-process):
            # frame_helpers.py falls back to struct-based parse_type / unpack_24bit / ...
            here = [self.run_impl(c) for c in case['cases']]
            p = subprocess.run([sys.executable, '-c', _CHILD % (REPO, VERIF)], input=json.dumps({'cases': case['cases']}),
                               stdout=subprocess.PIPE, stderr=subprocess.PIPE, text=True, timeout=600, env=dict(os.environ, PYTHONPATH=VERIF))
            if p.returncode != 0:
                return {'diffs': [{'child-failed': p.stderr[-600:]}], 'n': len(here)}
            other = json.loads(p.stdout)
            def canon(o):
                # which exception a malformed blob fails with is not part of the contract (TypeError from cbitstruct, struct.error from struct)
                return {k: ('FAIL' if isinstance(v, str) and v.startswith('FAIL:') else v) for k, v in o.items()}
            diffs = [{'case': c, 'cbitstruct': a, 'native': b} for c, a, b in zip(case['cases'], here, other) if canon(a) != canon(b)]
            return {'diffs': diffs[:5], 'n': len(here)}
        if case['kind'] == 'enc' and case.get('history'):
            # a tagging item *object* that was encoded before with other tags and then changed: its encoding is that of the tags it holds now
            from rsocket.extensions.routing import RoutingMetadata
            h = case['history']
            want = [bytes.fromhex(t) for t in case['items'][0]['tags']]
            it = RoutingMetadata([bytes.fromhex(t) for t in h['first']])
            first = CompositeMetadata()
            first.append(it)
            first.serialize()
            if h['how'] == 'assign':
                it.tags = list(want)
            elif h['how'] == 'extend':
                it.tags = list(it.tags)
                del it.tags[:]
                it.tags.extend(want)
            else:
                it.parse(b''.join(bytes([len(t)]) + t for t in want))
            cm = CompositeMetadata()
            cm.append(it)
            blob = bytes(cm.serialize())
            back = CompositeMetadata().parse(blob)
            return {'enc': blob.hex(), 'dec': dump_items(back.items), 're': bytes(back.serialize()).hex()}
        if case['kind'] == 'enc':
            try:
                blob = bytes(self._encode(case['items'], case.get('helpers', False)))
            except RSocketMimetypeTooLong:
                return {'enc': 'ERR', 'why': 'mime-too-long'}
            except RSocketError as e:
                return {'enc': 'ERR', 'why': 'tag-too-long'}
            try:
                back = CompositeMetadata().parse(blob)
                dec = dump_items(back.items)
                re = bytes(back.serialize()).hex()
            except Exception as e:
                dec, re = 'FAIL:' + type(e).__name__, None
            return {'enc': blob.hex(), 'dec': dec, 're': re}
        try:
            back = CompositeMetadata().parse(bytes.fromhex(case['blob']))
            return {'dec': dump_items(back.items)}
        except Exception as e:
            return {'dec': 'FAIL:' + type(e).__name__}

    def model_lines(self, case, obs):
        if case['kind'] == 'backend':
            return []
        if case['kind'] == 'enc':
            return ['comp ' + ' '.join(spec_tokens(case['items']))]
        return ['cdec ' + (case['blob'] or '-')]

    @staticmethod
    def _fmt(dec):
        if isinstance(dec, str):
            return 'FAIL'
        return ('ok ' + ' '.join(dec)).strip() if dec else 'ok '

    def compare(self, case, obs, answers):
        if case['kind'] == 'backend':
            return None
        a = answers[0]
        if case['kind'] == 'enc':
            if obs['enc'] == 'ERR' or a == 'ERR':
                return None if obs['enc'] == a else 'encode: impl %s / model %s' % (obs['enc'][:60], a[:60])
            hexs, dec = a.split(' | ')
            if (obs['enc'] or '-') != hexs:
                return 'bytes differ: impl %s / model %s' % (obs['enc'][:200], hexs[:200])
            if self._fmt(obs['dec']).strip() != dec.strip():
                return 'decoded differ: impl %s / model %s' % (self._fmt(obs['dec'])[:300], dec[:300])
        else:
            if self._fmt(obs['dec']).strip() != a.strip():
                return 'decode of %s: impl %s / model %s' % (case['blob'][:60], self._fmt(obs['dec'])[:300], a[:300])

    def _limits(self, items):
        """None if within the format's limits, else which limit is exceeded"""
        from rsocket.extensions.mimetypes import WellKnownMimeTypes
        table = {bytes(m.value.name) for m in WellKnownMimeTypes if m.value.id >= 0}

        def bad_name(h):
            b = bytes.fromhex(h)
            return b not in table and not (1 <= len(b) <= 128)
        for s in items:
            if s['k'] in ('raw', 'mime') and bad_name(s['m']):
                return 'mime'
            if s['k'] == 'accept' and any(bad_name(m) for m in s['ms']):
                return 'mime'
            if s['k'] == 'route' and any(len(bytes.fromhex(t)) > 255 for t in s['tags']):
                return 'tag'
        return None

    def oracle(self, case, obs):
        fails = []
        if case['kind'] == 'backend':
            for d in obs['diffs']:
                fails.append({'signature': 'backend-dependent-result', 'what': 'with and without cbitstruct the composite codec disagrees: %s' % json.dumps(d)[:500]})
            return fails
        if case['kind'] != 'enc':
            return fails
        lim = self._limits(case['items'])
        want = spec_tokens(case['items'])
        if lim is None:
            if obs['enc'] == 'ERR':
                fails.append({'signature': 'in-range-value-rejected', 'what': 'encoding %s raised (%s)' % (want[:3], obs.get('why'))})
            elif obs['dec'] != want:
                fails.append({'signature': 'composite-roundtrip-differs', 'what': 'decode(encode(v)) = %s, v = %s' % (str(obs['dec'])[:300], str(want)[:300])})
            elif obs['re'] != obs['enc']:
                fails.append({'signature': 'composite-reencode-differs', 'what': 're-encoding the decoded composite gives different bytes'})
        else:
            # over-long names / tags must be rejected at encode time (names of length 0 are outside the stated limits either way)
            over = any((s['k'] in ('raw', 'mime') and len(bytes.fromhex(s['m'])) > 128) or
                       (s['k'] == 'accept' and any(len(bytes.fromhex(m)) > 128 for m in s['ms'])) or
                       (s['k'] == 'route' and any(len(bytes.fromhex(t)) > 255 for t in s['tags'])) for s in case['items'])
            if over and obs['enc'] != 'ERR':
                fails.append({'signature': 'overlong-not-rejected', 'what': 'an over-long %s was encoded instead of rejected: %s' % (lim, want[:3])})
        return fails

    def nontrivial(self, case, obs):
        if case['kind'] == 'backend':
            return json.dumps(case, sort_keys=True)[:200] + str(len(json.dumps(case)))
        if case['kind'] == 'enc':
            if len(case['items']) >= 2:
                return json.dumps(case['items'], sort_keys=True)
            return None
        return case['blob'] if len(case['blob']) >= 8 else None

    def stats(self, case, obs):
        yield 'kind=' + case['kind']
        if case['kind'] == 'backend':
            return
        if case['kind'] == 'enc':
            for s in case['items']:
                yield 'entry=' + s['k']
            if obs['enc'] == 'ERR':
                yield 'rejected=' + obs.get('why', '?')
        else:
            yield 'decoded=' + ('fail' if isinstance(obs['dec'], str) else 'ok')

    def shrink_candidates(self, case):
        if case['kind'] == 'backend':
            cs = case['cases']
            if len(cs) > 1:
                yield dict(case, cases=cs[:len(cs) // 2])
                yield dict(case, cases=cs[len(cs) // 2:])
            return
        if case['kind'] == 'enc':
            it = case['items']
            for i in range(len(it)):
                yield dict(case, items=it[:i] + it[i + 1:])


PROP = C18()
