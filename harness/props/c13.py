"""C13 — stream ids. Correspondence of `StreamControl` with `RSocketModel.StreamId` on random and
exhaustive histories at reduced widths and at full width near the wrap; direct oracle on every allocation."""
import itertools

from harness.core import Prop


def _ops_str(ops):
    return ' '.join(ops)


class C13(Prop):
    id = 'C13'
    lean_modules = ['RSocketModel.Props.C13', 'RSocketModel.Props.C13Endpoints', 'RSocketModel.Props.C13Source', 'RSocketModel.Props.C12Source']
    technique = 'Lean 4 proof (induction over allocate/register/finish histories, parametric id width) + differential correspondence with StreamControl'
    level_text = ('c13_increment_matches_source / c13_initial_matches_source (Props/C13Source.lean): the id arithmetic of the model at 31 bits is proved equal to StreamControl._increment_stream_id and the initial id of StreamControl.__init__ as compiled from stream_control.py on every run; c13_client_ids_odd / c13_server_ids_even / c13_endpoints_never_collide (Props/C13Endpoints.lean) instantiate c13_history with the first stream ids read from RSocketClient / RSocketServer. c13_registered_during_sweep_stays_reserved (stop_all_streams with owners that open a new stream at once: every stream registered during the walk is still reserved afterwards, for every table, allocator position and set of retrying owners), c13_request_on_active_id_rejected (engine model: for every state, stream-opening frame type and handler behaviour, a request on an id that is still active yields exactly one ERROR[REJECTED] and changes nothing), Theorems c13_alloc_sound, c13_fails_iff_full, c13_history (all id widths k>=1, all active sets, all histories) are kernel-checked on a model '
                  'of StreamControl; the model is tied to the code by the regenerated constant (2^31-1) and by running the real StreamControl and the compiled '
                  'Lean model on the same histories (exhaustive short histories on a 3-bit space, random on 3/4/7 bits, full width near the wrap).')
    level_note = ('Trusted: Lean kernel, axioms propext/Classical.choice/Quot.sound, the hand-written model as far as the correspondence reaches, harness; '
                  'dict semantics of CPython.')
    design_ref = '§5 C13'
    rule = ('a real endpoint (either role) with a stream opened by either side, then a request of any of the four types on that same id, replayed on the engine model; histories of allocate(+register) / allocate-only / register(id) / finish(id) / query(id) on the real StreamControl with '
            '_maximum_stream_id = 2^k-1 (k in 3,4,7 random; k=3 exhaustive up to length 5; k=31 starting near the wrap); '
            'histories in which stop_all_streams() runs over streams whose owners register a new stream at once (the ids registered during the sweep stay reserved); a case is non-trivial when at least one allocation skipped a live id or 0, wrapped, or failed; distinct = distinct (k, first, ops, start)')
    assumptions = ['ids are handed out only by StreamControl.allocate_stream', 'dict membership is the liveness test']

    def cases(self, rng, tier):
        out = []
        # exhaustive small histories on the 3-bit space
        alphabet = ['a', 'o', 'f1', 'f2', 'f3', 'r2', 'r5', 'q3']
        depth = 4 if tier == 'quick' else 5
        for first in (1, 2):
            for n in range(1, depth + 1):
                for ops in itertools.product(alphabet, repeat=n):
                    out.append({'k': 3, 'first': first, 'start': None, 'ops': list(ops)})
        nrand = 3000 if tier == 'quick' else 60000
        for _ in range(nrand):
            k = rng.choice([3, 3, 4, 4, 7])
            first = rng.choice([1, 2])
            n = rng.randint(1, 3 * (1 << (k - 1)) if k < 7 else 150)
            ops = []
            for _ in range(n):
                x = rng.random()
                if x < 0.55:
                    ops.append('a')
                elif x < 0.62:
                    ops.append('o')
                elif x < 0.85:
                    ops.append('f%d' % rng.randint(0, (1 << k)))
                elif x < 0.93:
                    ops.append('r%d' % rng.randint(0, (1 << k) + 1))
                else:
                    ops.append('q%d' % rng.randint(0, (1 << k)))
            out.append({'k': k, 'first': first, 'start': None, 'ops': ops})
        # full width, current position placed near the wrap, some ids after the wrap live
        for _ in range(300 if tier == 'quick' else 5000):
            first = rng.choice([1, 2])
            top = (1 << 31) - 1
            cur = top - rng.randint(0, 12)
            if cur % 2 != first % 2:
                cur -= 1
            live = sorted({rng.randint(0, 20) for _ in range(rng.randint(0, 8))} - {0})
            live += sorted({top - rng.randint(0, 12) for _ in range(rng.randint(0, 4))})
            ops = [rng.choice(['a', 'a', 'a', 'o', 'f%d' % rng.randint(1, 20), 'q%d' % rng.randint(0, 20)]) for _ in range(rng.randint(1, 25))]
            out.append({'k': 31, 'first': first, 'start': {'cur': cur, 'live': sorted(set(live))}, 'ops': ops})
        # at the endpoint: an incoming request on an id that is still active (opened by either side) is rejected and the existing stream is untouched
        for _ in range(40 if tier == 'quick' else 2000):
            out.append({'mode': 'endpoint', 'role': rng.choice(['client', 'server']), 'first_by': rng.choice(['peer', 'peer', 'local']),
                        'first_ty': rng.choice(['stream', 'channel', 'rr']), 'second_ty': rng.choice(['REQUEST_RESPONSE', 'REQUEST_STREAM', 'REQUEST_CHANNEL', 'REQUEST_FNF']),
                        'between': rng.randint(0, 2)})
        # "stop everything in flight" with applications that retry at once: streams allocated and registered while stop_all_streams() is walking
        # over the old ones are active, so their ids stay reserved afterwards
        for _ in range(300 if tier == 'quick' else 6000):
            k = rng.choice([3, 3, 4])
            pre = rng.randint(1, (1 << (k - 1)) - 1)
            out.append({'mode': 'sweep', 'k': k, 'first': rng.choice([1, 2]), 'pre': pre, 'retry': [rng.random() < 0.6 for _ in range(pre)],
                        'ops': [rng.choice(['a', 'a', 'a', 'o', 'f%d' % rng.randint(1, 1 << k), 'q%d' % rng.randint(1, (1 << k) - 1)]) for _ in range(rng.randint(1, 10))]})
        return out

    def _sweep(self, case):
        from rsocket.stream_control import StreamControl
        from rsocket.handlers.interfaces import Requester
        from rsocket.disposable import Disposable
        from rsocket.exceptions import RSocketStreamAllocationFailure, RSocketStreamIdInUse
        sc = StreamControl(case['first'])
        sc._maximum_stream_id = (1 << case['k']) - 1
        sc._current_stream_id &= sc._maximum_stream_id
        swept, errors = [], []

        class Plain(Requester, Disposable):
            def frame_received(self, frame):
                pass

            def dispose(self):
                pass

        class Retrying(Plain):
            def frame_received(self, frame):
                # the application's subscriber reacts to the error by issuing its retry: a new stream
                try:
                    i = sc.allocate_stream()
                    sc.register_stream(i, Plain())
                    swept.append(i)
                except RSocketStreamAllocationFailure:
                    errors.append('X')
        pre_ids = []
        for r in case['retry']:
            i = sc.allocate_stream()
            sc.register_stream(i, Retrying() if r else Plain())
            pre_ids.append(i)
        cur_before = sc._current_stream_id
        sc.stop_all_streams()
        cur_after, active_after = sc._current_stream_id, sorted(sc._streams)
        outs = []
        for op in case['ops']:
            if op in ('a', 'o'):
                try:
                    i = sc.allocate_stream()
                    if op == 'a':
                        sc.register_stream(i, Plain())
                    outs.append('A%d' % i)
                except RSocketStreamAllocationFailure:
                    outs.append('X')
            elif op[0] == 'f':
                sc.finish_stream(int(op[1:]))
                outs.append('F')
            else:
                try:
                    sc.assert_stream_id_available(int(op[1:]))
                    outs.append('Q1')
                except RSocketStreamIdInUse:
                    outs.append('Q0')
        return {'mode': 'sweep', 'pre_ids': pre_ids, 'swept': swept, 'outs': outs, 'active': sorted(sc._streams), 'cur_before': cur_before, 'cur_after': cur_after,
                'active_after': active_after}

    def run_impl(self, case):
        if case.get('mode') == 'endpoint':
            from harness import detloop
            return detloop.run(self._endpoint, case)
        if case.get('mode') == 'sweep':
            return self._sweep(case)
        from rsocket.stream_control import StreamControl
        from rsocket.exceptions import RSocketStreamAllocationFailure, RSocketStreamIdInUse
        k = case['k']
        mask = (1 << k) - 1
        sc = StreamControl(case['first'])
        sc._maximum_stream_id = mask
        sc._current_stream_id &= mask
        if case['start']:
            sc._current_stream_id = case['start']['cur']
            for i in case['start']['live']:
                sc._streams[i] = object()
        cur0 = sc._current_stream_id
        live0 = sorted(sc._streams)
        outs = []
        pre = []   # active set before each op (for the oracle)
        for op in case['ops']:
            pre.append((sc._current_stream_id, sorted(sc._streams) if k <= 7 else None))
            if op in ('a', 'o'):
                try:
                    i = sc.allocate_stream()
                    if op == 'a':
                        sc.register_stream(i, object())
                    outs.append('A%d' % i)
                except RSocketStreamAllocationFailure:
                    outs.append('X')
            elif op[0] == 'r':
                try:
                    sc.register_stream(int(op[1:]), object())
                    outs.append('R')
                except RuntimeError:
                    outs.append('E')
            elif op[0] == 'f':
                sc.finish_stream(int(op[1:]))
                outs.append('F')
            elif op[0] == 'q':
                try:
                    sc.assert_stream_id_available(int(op[1:]))
                    outs.append('Q1')
                except RSocketStreamIdInUse as e:
                    from rsocket.error_codes import ErrorCode
                    outs.append('Q0' if e.error_code == ErrorCode.REJECTED else 'Q?')
        return {'cur0': cur0, 'live0': live0, 'outs': outs, 'cur': sc._current_stream_id,
                'active': sorted(sc._streams), 'pre': pre}

    async def _endpoint(self, loop, case):
        from harness import engine
        H = engine.EngineRun(loop, case['role'])
        await H.start()
        script = []
        if case['role'] == 'server':
            script.append([{'op': 'recv', 'frame': {'ty': 'SETUP', 'sid': 0, 'data': [1]}, 'beh': 'k'}])
        peer_id = 1 if case['role'] == 'server' else 2
        if case['first_by'] == 'peer':
            sid = peer_id
            ty, beh = {'stream': ('REQUEST_STREAM', 'pb'), 'channel': ('REQUEST_CHANNEL', 'ch11'), 'rr': ('REQUEST_RESPONSE', 'fp')}[case['first_ty']]
            script.append([{'op': 'recv', 'frame': {'ty': ty, 'sid': sid, 'data': [2], 'n': 3}, 'beh': beh}])
        else:
            sid = 2 if case['role'] == 'server' else 1
            op = {'stream': {'op': 'RS', 'data': [2], 'n': 3, 'sub': True}, 'channel': {'op': 'RC', 'data': [2], 'n': 3, 'pub': True, 'sub': True},
                  'rr': {'op': 'RR', 'data': [2]}}[case['first_ty']]
            script.append([op])
        for i in range(case['between']):
            script.append([{'op': 'recv', 'frame': {'ty': 'REQUEST_FNF', 'sid': peer_id + 2 * (i + 1), 'data': [3]}, 'beh': 'k'}])
        script.append([{'op': 'recv', 'frame': {'ty': case['second_ty'], 'sid': sid, 'data': [4], 'n': 2}, 'beh': {'REQUEST_RESPONSE': 'fp', 'REQUEST_STREAM': 'pb', 'REQUEST_CHANNEL': 'ch11', 'REQUEST_FNF': 'k'}[case['second_ty']]}])
        await H.run_script(script)
        steps = H.steps()
        table = sorted(H.ep._stream_control._streams.keys())
        await H.finish()
        return {'mode': 'endpoint', 'sid': sid, 'steps': steps, 'table': table}

    def model_lines(self, case, obs):
        if case.get('mode') == 'sweep':
            retry = [i for i, r in zip(obs['pre_ids'], case['retry']) if r]
            return ['sweep %d %d %s %s' % (case['k'], obs['cur_before'], ','.join(map(str, obs['pre_ids'])) or '-', ','.join(map(str, retry)) or '-')]
        if case.get('mode') == 'endpoint':
            first = 2 if case['role'] == 'server' else 1
            return ['eng %d 0 %s' % (first, ' '.join(m for m, _ in obs['steps']))]
        live = ','.join(map(str, obs['live0'])) or '-'
        return ['sid %d %d %s %s' % (case['k'], obs['cur0'], live, _ops_str(case['ops']))]

    def compare(self, case, obs, answers):
        if case.get('mode') == 'sweep':
            impl = 'new=%s | cur=%d active=%s' % (','.join(map(str, obs['swept'])) or '-', obs['cur_after'], ','.join(map(str, obs['active_after'])) or '-')
            return None if impl == answers[0] else 'stop_all_streams: impl %s / model %s' % (impl, answers[0])
        if case.get('mode') == 'endpoint':
            from harness import engine
            body = answers[0].split(' || ')[0]
            msteps = body.split(' | ')
            for idx, ((marker, outs), ms) in enumerate(zip(obs['steps'], msteps)):
                mo = engine.canon_model_step(ms)
                if outs != mo:
                    return 'step %d (%s): impl %s / model %s' % (idx, marker, ' '.join(outs)[:200], ' '.join(mo)[:200])
            return None
        impl = '%s | cur=%d active=%s' % (' '.join(obs['outs']), obs['cur'], ','.join(map(str, obs['active'])) or '-')
        if impl != answers[0]:
            return 'impl: %s / model: %s' % (impl, answers[0])

    def oracle(self, case, obs):
        if case.get('mode') == 'endpoint':
            fails = []
            sid = obs['sid']
            marker, outs = obs['steps'][-1]
            rejected = [t for t in outs if t.startswith('S:ERROR:%d:' % sid) and t.split(':')[5] == '514']
            if len(rejected) != 1 or any(t.startswith('HC:') or t.startswith('CR:') or t.startswith('PS:') for t in outs):
                fails.append({'signature': 'request-on-active-id-not-rejected',
                              'what': 'stream %d was active (opened by the %s as %s); incoming %s on it produced %s instead of one ERROR[REJECTED]' % (
                                  sid, case['first_by'], case['first_ty'], case['second_ty'], outs)})
            if sid not in obs['table']:
                fails.append({'signature': 'existing-stream-replaced-or-dropped', 'what': 'stream %d is no longer registered after the rejected request (table %s)' % (sid, obs['table'])})
            return fails
        if case.get('mode') == 'sweep':
            fails = []
            active = set(obs['swept'])
            mod = 1 << case['k']
            par = case['first'] % 2
            for op, out in zip(case['ops'], obs['outs']):
                if op in ('a', 'o'):
                    if out.startswith('A'):
                        i = int(out[1:])
                        if i in active:
                            fails.append({'signature': 'allocated-live-id', 'what': 'streams %s were registered while stop_all_streams() was walking over %s and are active; a later allocation handed out %d again' % (obs['swept'], obs['pre_ids'], i)})
                        if i == 0 or i % 2 != par or i >= mod:
                            fails.append({'signature': 'wrong-parity', 'what': 'allocated id %d (first id %d, %d-bit space)' % (i, case['first'], case['k'])})
                        if op == 'a':
                            active.add(i)
                    elif [x for x in range(par if par else 2, mod, 2) if x not in active]:
                        fails.append({'signature': 'spurious-allocation-failure', 'what': 'allocation failed although an id is free (active %s)' % sorted(active)})
                elif op[0] == 'f':
                    active.discard(int(op[1:]))
                else:
                    i = int(op[1:])
                    if (out == 'Q1') != (i not in active):
                        fails.append({'signature': 'availability-wrong', 'what': 'streams %s were registered while stop_all_streams() was walking over %s; afterwards assert_stream_id_available(%d) answered %s with active=%s' % (
                            obs['swept'], obs['pre_ids'], i, out, sorted(active))})
            if sorted(active) != obs['active']:
                fails.append({'signature': 'active-stream-dropped-from-table', 'what': 'streams %s were registered while stop_all_streams() was walking over %s; the table holds %s at the end, the active streams are %s' % (
                    obs['swept'], obs['pre_ids'], obs['active'], sorted(active))})
            return fails[:2]
        fails = []
        k = case['k']
        mod = 1 << k
        par = case['first'] % 2
        # replay the table alongside the outputs
        active = set(obs['live0'])
        cur = obs['cur0']
        for op, out in zip(case['ops'], obs['outs']):
            if op in ('a', 'o'):
                if out.startswith('A'):
                    i = int(out[1:])
                    if i == 0:
                        fails.append({'signature': 'allocated-zero', 'what': 'allocate_stream returned 0'})
                    if i % 2 != par:
                        fails.append({'signature': 'wrong-parity', 'what': 'allocated id %d has the wrong parity for first id %d' % (i, case['first'])})
                    if i in active:
                        fails.append({'signature': 'allocated-live-id', 'what': 'allocated id %d is still active' % i})
                    if i >= mod:
                        fails.append({'signature': 'out-of-range', 'what': 'allocated id %d beyond the %d-bit space' % (i, k)})
                    # first free cyclic
                    c = cur
                    exp = None
                    for _ in range(mod // 2 if k <= 7 else 64):
                        c = (c + 2) % mod
                        if c != 0 and c not in active:
                            exp = c
                            break
                    if exp is not None and exp != i and i % 2 == par and i not in active and i != 0:
                        fails.append({'signature': 'not-next-free', 'what': 'allocated %d but next free id after %d (step 2, cyclic) is %d' % (i, cur, exp)})
                    cur = i
                    if op == 'a':
                        active.add(i)
                elif out == 'X':
                    free = [x for x in range(par if par else 2, mod, 2) if x not in active] if k <= 7 else [1]
                    if free:
                        fails.append({'signature': 'spurious-allocation-failure', 'what': 'allocation failed although id %d is free' % free[0]})
            elif op[0] == 'r':
                if out == 'R':
                    active.add(int(op[1:]))
            elif op[0] == 'f':
                active.discard(int(op[1:]))
            elif op[0] == 'q':
                i = int(op[1:])
                if (out == 'Q1') != (i not in active):
                    fails.append({'signature': 'availability-wrong', 'what': 'assert_stream_id_available(%d) answered %s with active=%s' % (i, out, sorted(active))})
        return fails

    def nontrivial(self, case, obs):
        import json
        if case.get('mode') == 'endpoint':
            return json.dumps(case, sort_keys=True)
        if case.get('mode') == 'sweep':
            return json.dumps(case, sort_keys=True) if obs['swept'] else None
        interesting = False
        prev = obs['cur0']
        for op, out in zip(case['ops'], obs['outs']):
            if out == 'X':
                interesting = True
            if out.startswith('A'):
                i = int(out[1:])
                if i != prev + 2:
                    interesting = True
                prev = i
        return json.dumps([case['k'], case['first'], case['start'], case['ops']]) if interesting else None

    def stats(self, case, obs):
        if case.get('mode') == 'endpoint':
            yield 'mode=endpoint'
            yield 'first_by=' + case['first_by']
            return
        if case.get('mode') == 'sweep':
            yield 'mode=sweep'
            yield 'registered-during-sweep=%d' % len(obs['swept'])
            return
        yield 'k=%d' % case['k']
        yield 'first=%d' % case['first']
        if 'X' in obs['outs']:
            yield 'allocation-failure'
        if 'Q0' in obs['outs']:
            yield 'query-in-use'
        if 'E' in obs['outs']:
            yield 'register-rejected'
        prev = obs['cur0']
        for out in obs['outs']:
            if out.startswith('A'):
                i = int(out[1:])
                if i < prev:
                    yield 'wrapped'
                    break
                prev = i

    def shrink_candidates(self, case):
        if case.get('mode') == 'endpoint':
            if case['between']:
                yield dict(case, between=case['between'] - 1)
            return
        if case.get('mode') == 'sweep':
            for i in range(len(case['ops'])):
                yield dict(case, ops=case['ops'][:i] + case['ops'][i + 1:])
            return
        ops = case['ops']
        for i in range(len(ops)):
            yield dict(case, ops=ops[:i] + ops[i + 1:])


PROP = C13()
