"""C10 — no per-stream state survives a terminated interaction."""
from harness.engineprop import EngineProp, flat
from harness.props.c11 import histories


def terminated(obs, oid, kind, h, stim):
    steps = obs['steps']
    ev = h.get(oid, [])
    st = stim.get(oid, [])
    toks = [t for _, _, t in ev]
    sid = obs['sids'][oid]
    created = [i for i, m, t in ev if t.startswith('CR:')]
    if not created:
        return False
    c = created[0]
    lost = any(m in ('LOST', 'STOP') for m, _ in steps[c:])
    if lost:
        return 'lost'     # ended with the connection: the stream table is judged (C11 clears it), the reassembly cache of the dead connection is not
    recv = [(i, m) for i, (m, _) in enumerate(steps) if m.startswith('RECV:') and int(m.split(':')[2]) == sid and i > c or (i == c and False)]
    peer_cancel = any(m.startswith('RECV:CANCEL:') for _, m in recv)
    peer_term = any((m.startswith('RECV:PAYLOAD:') and m.split(':')[3][1] == '1') or m.startswith('RECV:ERROR:') for _, m in recv)
    our_cancel = any(m.startswith('SCN') or m.startswith('FCN') for _, m in st)
    pub_term = any(m.startswith('PC') or m.startswith('PE') or (m.startswith('PN') and m.endswith(':1')) for _, m in st)
    cb_ran = lambda p: any(m.startswith(p) for _, m in st)
    if kind == 'rrReq':
        return any(t.startswith('FR') or t.startswith('FE') for t in toks) or (our_cancel and cb_ran('CBQ'))
    if kind == 'rrResp':
        return peer_cancel or cb_ran('CBP')
    if kind == 'stReq':
        return our_cancel or any(t.startswith('OC') or t.startswith('OE') or (t.startswith('ON') and t.endswith(':1')) for t in toks)
    if kind == 'stResp':
        return peer_cancel or pub_term
    has_pub = any(t.startswith('PS') for t in toks)
    subscribed = any(t.startswith('OS') for t in toks)
    if kind == 'chReq' and not subscribed:
        return False
    # the request frame (or, for a fragmented request, its last fragment: the step in which the responder came to life) carried COMPLETE
    req_complete = steps[c][0].startswith('RECV:') and steps[c][0].split(':')[1] in ('REQUEST_CHANNEL', 'PAYLOAD') and steps[c][0].split(':')[3][1] == '1'
    recv_closed = our_cancel or any(t.startswith('OC') or t.startswith('OE') or (t.startswith('ON') and t.endswith(':1')) for t in toks) or \
        (kind == 'chResp' and (not subscribed or req_complete or peer_term))
    # the library itself cancelled the application's publisher (PX): that direction will never produce anything again, so it is over - on the
    # unchanged tree this happens only together with the end of the sending direction (peer CANCEL) or of the connection
    lib_cancelled_pub = any(t.startswith('PX') for t in toks)
    send_closed = (not has_pub) or pub_term or peer_cancel or lib_cancelled_pub
    return recv_closed and send_closed


def abandoned_after_cancel(obs, sid):
    """True when the partial frame left for `sid` at the end of the script is one the peer had begun *before* a local cancellation of that
    stream and then abandoned: the only way a legal peer leaves a frame unfinished. (A script that simply ends inside a frame, or a frame
    begun after the stream was already cancelled, says nothing about the library.)"""
    start = None
    for i, (m, _) in enumerate(obs['steps']):
        if not m.startswith('RECV:'):
            continue
        f = m.split(':')
        if f[1] not in ('PAYLOAD', 'REQUEST_RESPONSE', 'REQUEST_FNF', 'REQUEST_STREAM', 'REQUEST_CHANNEL') or int(f[2]) != sid:
            continue
        if f[3][0] == '1':
            if start is None:
                start = i
        else:
            start = None
    if start is None:
        return False
    oids = [oid for oid, s in enumerate(obs['sids']) if s == sid]
    cancels = [i for i, (m, _) in enumerate(obs['steps']) if m.split(':')[0] in ('SCN', 'FCN') and len(m.split(':')) > 1 and m.split(':')[1].isdigit() and int(m.split(':')[1]) in oids]
    return bool(cancels) and min(cancels) > start


async def pair_scenario(loop, case):
    """two real endpoints joined by a link the harness drives; every interaction the client starts ends by completion or by a
    cancellation at a chosen moment; at quiescence both stream tables and both reassembly caches must be empty"""
    import random
    from datetime import timedelta
    from rsocket.rsocket_client import RSocketClient
    from rsocket.rsocket_server import RSocketServer
    from rsocket.helpers import single_transport_provider
    from rsocket.request_handler import BaseRequestHandler
    from rsocket.payload import Payload
    from harness import link as L
    rng = random.Random(case['seed'])
    pubs, futs = [], []
    futs_all = []

    class Pub:
        def __init__(self, items):
            self.items, self.sub, self.credit, self.cancelled, self.done = items, None, 0, False, False

        def subscribe(self, subscriber):
            self.sub = subscriber
            pub = self

            class S:
                def request(self, n): pub.credit += n
                def cancel(self): pub.cancelled = True
            subscriber.on_subscribe(S())

        def pump(self):
            if self.sub is None or self.done or self.cancelled or self.credit <= 0:
                return False
            self.credit -= 1
            if self.items > 0:
                self.items -= 1
                self.sub.on_next(Payload(b'i'), self.items == 0)
                self.done = self.items == 0
            else:
                self.sub.on_complete()
                self.done = True
            return True

    class Sub:
        def __init__(self, grant=None): self.subscription, self.events, self.cancelled, self.grant = None, [], False, grant

        def on_subscribe(self, s):
            self.subscription = s
            if self.grant:
                s.request(self.grant)      # the responder side of a channel grants its first credit here (the requester's is the initial request-n)

        def on_next(self, v, is_complete=False):
            self.events.append('n')
            if not is_complete and not self.cancelled:
                self.subscription.request(1)       # keeps the stream flowing while the application wants it
        def on_complete(self): self.events.append('c')
        def on_error(self, e): self.events.append('e')

    class H(BaseRequestHandler):
        async def request_response(self, payload):
            f = asyncio.get_event_loop().create_future()
            futs.append(f)
            futs_all.append(f)
            return f

        async def request_stream(self, payload):
            p = Pub(6)         # more than a small initial request-n covers: it ends by completion only if the requester keeps asking
            pubs.append(p)
            return p

        async def request_channel(self, payload):
            p = Pub(1)
            pubs.append(p)
            return p, Sub(grant=3)
    import asyncio
    lk = L.Link(loop, case['tcp'])
    server = RSocketServer(lk.ends[1], handler_factory=H, fragment_size_bytes=case['frag'])
    client = RSocketClient(single_transport_provider(lk.ends[0]), fragment_size_bytes=case['frag'],
                           keep_alive_period=timedelta(seconds=100000), max_lifetime_period=timedelta(seconds=1000000))
    await client.connect()
    await loop.settle()
    while await lk.deliver(0, rng):
        await loop.settle()
    started = []       # (plan, handle, deliveries seen at start)
    deliveries = 0
    todo = list(case['plans'])
    idle = 0
    for rnd in range(3000):
        did = False
        if todo and rng.random() < 0.5:
            pl = todo.pop(0)
            payload = Payload(b'q' * pl['size'])
            if pl['kind'] == 'rr':
                h = client.request_response(payload)
            elif pl['kind'] == 'stream':
                h = Sub()
                client.request_stream(payload).initial_request_n(pl['n0']).subscribe(h)
            else:
                h = Sub()
                cp = Pub(1)
                pubs.append(cp)
                client.request_channel(payload, publisher=cp).initial_request_n(pl['n0']).subscribe(h)
            started.append([pl, h, deliveries, False])
            did = True
        for st in started:
            pl, h, d0, fired = st
            if not fired and pl['cancel'] is not None and deliveries - d0 >= pl['cancel']:
                st[3] = True
                if pl['kind'] == 'rr':
                    h.cancel()
                elif h.subscription is not None:
                    h.cancelled = True
                    h.subscription.cancel()
                did = True
        for _ in range(2):
            if rng.random() < 0.7 and await lk.deliver(rng.randint(0, 1), rng):
                deliveries += 1
                did = True
        for p in list(pubs):
            if rng.random() < 0.6 and p.pump():
                did = True
        if futs and rng.random() < 0.3:
            f = futs.pop(rng.randrange(len(futs)))
            if not f.done():
                f.set_result(Payload(b'r'))
            did = True
        await loop.settle()
        if not did and not todo and not lk.pending(0) and not lk.pending(1) and not [f for f in futs if not f.done()]:
            idle += 1
            if idle > 3 and all(p.done or p.cancelled or p.credit == 0 or p.sub is None for p in pubs):
                break
        else:
            idle = 0
    res = {'tables': [sorted(client._stream_control._streams), sorted(server._stream_control._streams)],
           'caches': [sorted(client._frame_fragment_cache._frames_by_stream_id), sorted(server._frame_fragment_cache._frames_by_stream_id)],
           'stuck_publishers': len([p for p in pubs if p.sub is not None and not p.done and not p.cancelled]), 'rounds': rnd,
           'unfinished': len([1 for pl, h, d0, fired in started if pl['cancel'] is not None and not fired]),
           'pending_handler_futures': len([f for f in futs_all if not f.done()]),
           # what the client put on the wire, in order (message framing only): [stream id, frame type, FOLLOWS]
           'client_wire': [[f.stream_id, type(f).__name__, bool(getattr(f, 'flags_follows', False))] for f in lk.sent_frames[0]] if not case['tcp'] else None}
    try:
        await client.close()
        await server.close()
    except Exception:
        pass
    return res


class C10(EngineProp):
    id = 'C10'
    lean_modules = ['RSocketModel.Props.C10', 'RSocketModel.Props.C12Source']
    profiles = ['legal', 'cancel', 'quiesce']
    technique = 'Lean 4 proof (table/cache membership invariant of the engine model) + event-level differential correspondence incl. final table and fragment cache'
    level_text = ('c10_channel_both_closed_not_registered (state invariant over every reachable state: a registered handler never has both directions closed), c10_channel_second_direction, c10_rr_requester_response, c10_stream_requester_terminal, c10_responder_cancelled, c10_local_endings, c10_lost_clears and c10_id_reusable are kernel-checked on the engine model; the model is replayed on the entry-point sequence observed from a real endpoint and its final stream table and fragment cache are compared; the direct oracle computes which interactions terminated and requires them absent from the real table/cache, then re-uses their ids.')
    level_note = 'Trusted: as C07. A channel is terminated when both directions are closed (the library\'s half-close semantics, pinned by the suite).'
    design_ref = '§5 C10'
    rule = ('as C07; at quiescence the stream table and fragment cache of the endpoint are read and every interaction that terminated (by the definition in DESIGN §5 C10) must be '
            'absent; terminated peer-opened ids are then re-used by a probe request; up to two request-responses / streams still being served are then cancelled by the peer and their ids re-used right behind the CANCEL, in the same read (the interaction ends when the CANCEL is processed, not when a later callback runs); plus two real endpoints on a driven link (pair mode); plus a reconnecting client (the scenarios of C01): once the new connection stands and before any traffic on it, the stream table and the reassembly cache must be empty')
    assumptions = ['quiescence = the deterministic loop is idle']

    def cases(self, rng, tier):
        out = super().cases(rng, tier)
        for _ in range(250 if tier == 'quick' else 5000):
            plans = [{'kind': rng.choice(['rr', 'stream', 'stream', 'channel']), 'size': rng.choice([0, 30, 200, 400]), 'n0': rng.choice([1, 2, 2, 2 ** 31 - 1]),
                      'cancel': rng.choice([None, 0, 0, 1, 2, 3, 5])} for _ in range(rng.randint(1, 4))]
            out.append({'mode': 'pair', 'role': 'both', 'profile': 'pair', 'seed': rng.getrandbits(32), 'tcp': rng.random() < 0.4, 'frag': rng.choice([None, 64, 64]), 'plans': plans})
        # a reconnecting client: once the new connection stands, nothing of the old one's interactions (all ended: answered, cancelled or
        # failed with the connection) may be left in the stream table or the reassembly cache - the scenarios of C01, read at that moment
        from harness.props import c01
        k = 0
        for c in c01.PROP.cases(rng, 'quick' if tier == 'quick' else 'thorough'):
            if c.get('kind') == 'reconnect':
                out.append({'mode': 'reconnect', 'role': 'client', 'profile': 'reconnect', 'c01': c})
                k += 1
                if k >= (60 if tier == 'quick' else 1500):
                    break
        return out

    def run_impl(self, case):
        if case.get('mode') == 'pair':
            from harness import detloop
            return detloop.run(pair_scenario, case)
        if case.get('mode') == 'reconnect':
            from harness.props import c01
            return c01.PROP.run_impl(case['c01'])
        return super().run_impl(case)

    def model_lines(self, case, obs):
        return [] if case.get('mode') in ('pair', 'reconnect') else super().model_lines(case, obs)

    def compare(self, case, obs, answers):
        return None if case.get('mode') in ('pair', 'reconnect') else super().compare(case, obs, answers)

    def nontrivial(self, case, obs):
        if case.get('mode') in ('pair', 'reconnect'):
            import json
            return json.dumps(case, sort_keys=True)
        return super().nontrivial(case, obs)

    def stats(self, case, obs):
        if case.get('mode') in ('pair', 'reconnect'):
            yield 'mode=' + case['mode']
            return
        yield from super().stats(case, obs)

    def shrink_candidates(self, case):
        if case.get('mode') == 'reconnect':
            return
        if case.get('mode') == 'pair':
            pl = case['plans']
            for i in range(len(pl)):
                if len(pl) > 1:
                    yield dict(case, plans=pl[:i] + pl[i + 1:])
            return
        yield from super().shrink_candidates(case)

    def explicit(self, case, obs):
        if case.get('mode') in ('pair', 'reconnect'):
            return case
        return super().explicit(case, obs)

    async def epilogue(self, loop, H, case):
        # re-use the id of every terminated peer-opened stream: a fresh fire-and-forget on it must be accepted
        if H.closed_seen:
            return None
        probes = []
        table = set(H.ep._stream_control._streams.keys())
        for oid, o in enumerate(H.objs):
            if o['kind'] in ('rrResp', 'stResp', 'chResp') and o['sid'] not in table and o['sid'] not in probes:
                probes.append(o['sid'])
        for sid in probes[:4]:
            H.apply({'op': 'recv', 'frame': {'ty': 'REQUEST_FNF', 'sid': sid, 'data': [251]}, 'beh': 'k'})
        await loop.settle()
        H.poll_futures()
        # ... and at once: the peer cancels a request-response / stream that is still being served and uses the id again in the same read,
        # before the event loop has run any callback (the interaction ended when its CANCEL was processed)
        at_once = []
        table = set(H.ep._stream_control._streams.keys())
        for oid, o in enumerate(H.objs):
            if o['sid'] in table and o['sid'] not in at_once and o['sid'] not in probes and len([1 for x in H.objs if x.get('sid') == o['sid']]) == 1:
                if (o['kind'] == 'rrResp' and not o['fut'].done()) or o['kind'] == 'stResp':
                    at_once.append(o['sid'])
        for sid in at_once[:2]:
            H.apply({'op': 'recv', 'frame': {'ty': 'CANCEL', 'sid': sid}, 'beh': 'k'})
            H.apply({'op': 'recv', 'frame': {'ty': 'REQUEST_FNF', 'sid': sid, 'data': [252]}, 'beh': 'k'})
        await loop.settle()
        H.poll_futures()
        return {'probes': probes[:4] + at_once[:2], 'at_once': at_once[:2]}

    def oracle(self, case, obs):
        fails = []
        if case.get('mode') == 'reconnect':
            for i, (cache, table) in enumerate(obs.get('leftovers', [])):
                if cache:
                    fails.append({'signature': 'partial-frame-survives-reconnect', 'what': 'after reconnect %d, before any traffic on the new connection, the client holds partially reassembled frames for streams %s' % (i + 1, cache)})
                if table:
                    fails.append({'signature': 'stream-survives-reconnect', 'what': 'after reconnect %d, before any traffic on the new connection, the client has streams %s registered' % (i + 1, table)})
            return fails
        if case.get('mode') == 'pair':
            if obs['unfinished'] or obs['stuck_publishers'] and not (obs['tables'][0] or obs['tables'][1]):
                return fails
            for side, name in ((0, 'client'), (1, 'server')):
                if obs['tables'][side]:
                    fails.append({'signature': 'pair:stream-left-registered:' + name, 'what': 'at quiescence the %s still has streams %s registered (every interaction was completed or cancelled)' % (name, obs['tables'][side])})
                if obs['caches'][side]:
                    fails.append({'signature': 'pair:partial-frame-left:' + name, 'what': 'at quiescence the %s still holds partial frames for streams %s' % (name, obs['caches'][side])})
            return fails
        h, stim = histories(obs)
        table, cache = set(obs['final']['table']), set(obs['final']['cache'])
        live = {}
        for oid, kind in enumerate(obs['kinds']):
            live.setdefault(obs['sids'][oid], []).append(oid)
        for oid, kind in enumerate(obs['kinds']):
            sid = obs['sids'][oid]
            if len(live[sid]) > 1:
                continue
            how = terminated(obs, oid, kind, h, stim)
            if how:
                if sid in table:
                    fails.append({'signature': 'terminated-stream-still-registered:' + kind, 'what': '%s %d (stream %d) terminated but is still in the stream table' % (kind, oid, sid)})
                if sid in cache and how != 'lost' and abandoned_after_cancel(obs, sid):
                    fails.append({'signature': 'terminated-stream-has-partial-frame:' + kind, 'what': '%s %d (stream %d) terminated but a partial frame remains cached' % (kind, oid, sid)})
        if obs['final'].get('oneway_pending_settled'):
            fails.append({'signature': 'one-way-request-not-finished-after-send', 'what': 'the frames of %s have been written, the send queue is empty, and the awaitable is still pending (the interaction never finishes)' % obs['final']['oneway_pending_settled']})
        if obs.get('extra'):
            for sid in obs['extra']['probes']:
                ok = any(m.startswith('RECV:REQUEST_FNF:%d:' % sid) and any(t.startswith('HC:REQUEST_FNF') for t in outs) for m, outs in obs['steps'])
                if not ok:
                    fails.append({'signature': 'terminated-id-not-reusable', 'what': 'a new request on the terminated stream id %d was not accepted%s' % (
                        sid, ' (sent right behind the CANCEL that ended the previous interaction, in the same read)' if sid in obs['extra'].get('at_once', []) else '')})
        return fails


PROP = C10()
