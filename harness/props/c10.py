"""C10 — no per-stream state survives a terminated interaction."""
from harness.engineprop import EngineProp, flat
from harness.props.c11 import histories


def terminated(obs, oid, kind, h, stim):
    steps = obs['steps']
    ev = h.get(oid, [])
    st = stim.get(oid, [])
    toks = [t for _, _, t in ev]
    sid = obs['sids'][oid]
    created = [i for i, m, t in ev if t.startswith('CR:')]
    if not created:
        return False
    c = created[0]
    lost = any(m in ('LOST', 'STOP') for m, _ in steps[c:])
    if lost:
        return 'lost'     # ended with the connection: the stream table is judged (C11 clears it), the reassembly cache of the dead connection is not
    recv = [(i, m) for i, (m, _) in enumerate(steps) if m.startswith('RECV:') and int(m.split(':')[2]) == sid and i > c or (i == c and False)]
    peer_cancel = any(m.startswith('RECV:CANCEL:') for _, m in recv)
    peer_term = any((m.startswith('RECV:PAYLOAD:') and m.split(':')[3][1] == '1') or m.startswith('RECV:ERROR:') for _, m in recv)
    our_cancel = any(m.startswith('SCN') or m.startswith('FCN') for _, m in st)
    pub_term = any(m.startswith('PC') or m.startswith('PE') or (m.startswith('PN') and m.endswith(':1')) for _, m in st)
    cb_ran = lambda p: any(m.startswith(p) for _, m in st)
    if kind == 'rrReq':
        return any(t.startswith('FR') or t.startswith('FE') for t in toks) or (our_cancel and cb_ran('CBQ'))
    if kind == 'rrResp':
        return peer_cancel or cb_ran('CBP')
    if kind == 'stReq':
        return our_cancel or any(t.startswith('OC') or t.startswith('OE') or (t.startswith('ON') and t.endswith(':1')) for t in toks)
    if kind == 'stResp':
        return peer_cancel or pub_term
    has_pub = any(t.startswith('PS') for t in toks)
    subscribed = any(t.startswith('OS') for t in toks)
    if kind == 'chReq' and not subscribed:
        return False
    # the request frame (or, for a fragmented request, its last fragment: the step in which the responder came to life) carried COMPLETE
    req_complete = steps[c][0].startswith('RECV:') and steps[c][0].split(':')[1] in ('REQUEST_CHANNEL', 'PAYLOAD') and steps[c][0].split(':')[3][1] == '1'
    recv_closed = our_cancel or any(t.startswith('OC') or t.startswith('OE') or (t.startswith('ON') and t.endswith(':1')) for t in toks) or \
        (kind == 'chResp' and (not subscribed or req_complete or peer_term))
    send_closed = (not has_pub) or pub_term or peer_cancel
    return recv_closed and send_closed


def abandoned_after_cancel(obs, sid):
    """True when the partial frame left for `sid` at the end of the script is one the peer had begun *before* a local cancellation of that
    stream and then abandoned: the only way a legal peer leaves a frame unfinished. (A script that simply ends inside a frame, or a frame
    begun after the stream was already cancelled, says nothing about the library.)"""
    start = None
    for i, (m, _) in enumerate(obs['steps']):
        if not m.startswith('RECV:'):
            continue
        f = m.split(':')
        if f[1] not in ('PAYLOAD', 'REQUEST_RESPONSE', 'REQUEST_FNF', 'REQUEST_STREAM', 'REQUEST_CHANNEL') or int(f[2]) != sid:
            continue
        if f[3][0] == '1':
            if start is None:
                start = i
        else:
            start = None
    if start is None:
        return False
    oids = [oid for oid, s in enumerate(obs['sids']) if s == sid]
    cancels = [i for i, (m, _) in enumerate(obs['steps']) if m.split(':')[0] in ('SCN', 'FCN') and len(m.split(':')) > 1 and m.split(':')[1].isdigit() and int(m.split(':')[1]) in oids]
    return bool(cancels) and min(cancels) > start


class C10(EngineProp):
    id = 'C10'
    lean_modules = ['RSocketModel.Props.C10']
    profiles = ['legal', 'cancel', 'quiesce']
    technique = 'Lean 4 proof (table/cache membership invariant of the engine model) + event-level differential correspondence incl. final table and fragment cache'
    level_text = ('c10_channel_both_closed_not_registered (state invariant over every reachable state: a registered handler never has both directions closed), c10_channel_second_direction, c10_rr_requester_response, c10_stream_requester_terminal, c10_responder_cancelled, c10_local_endings, c10_lost_clears and c10_id_reusable are kernel-checked on the engine model; the model is replayed on the entry-point sequence observed from a real endpoint and its final stream table and fragment cache are compared; the direct oracle computes which interactions terminated and requires them absent from the real table/cache, then re-uses their ids.')
    level_note = 'Trusted: as C07. A channel is terminated when both directions are closed (the library\'s half-close semantics, pinned by the suite).'
    design_ref = '§5 C10'
    rule = ('as C07; at quiescence the stream table and fragment cache of the endpoint are read and every interaction that terminated (by the definition in DESIGN §5 C10) must be '
            'absent; terminated peer-opened ids are then re-used by a probe request')
    assumptions = ['quiescence = the deterministic loop is idle']

    async def epilogue(self, loop, H, case):
        # re-use the id of every terminated peer-opened stream: a fresh fire-and-forget on it must be accepted
        if H.closed_seen:
            return None
        probes = []
        table = set(H.ep._stream_control._streams.keys())
        for oid, o in enumerate(H.objs):
            if o['kind'] in ('rrResp', 'stResp', 'chResp') and o['sid'] not in table and o['sid'] not in probes:
                probes.append(o['sid'])
        for sid in probes[:4]:
            H.apply({'op': 'recv', 'frame': {'ty': 'REQUEST_FNF', 'sid': sid, 'data': [251]}, 'beh': 'k'})
        await loop.settle()
        H.poll_futures()
        return {'probes': probes[:4]}

    def oracle(self, case, obs):
        fails = []
        h, stim = histories(obs)
        table, cache = set(obs['final']['table']), set(obs['final']['cache'])
        live = {}
        for oid, kind in enumerate(obs['kinds']):
            live.setdefault(obs['sids'][oid], []).append(oid)
        for oid, kind in enumerate(obs['kinds']):
            sid = obs['sids'][oid]
            if len(live[sid]) > 1:
                continue
            how = terminated(obs, oid, kind, h, stim)
            if how:
                if sid in table:
                    fails.append({'signature': 'terminated-stream-still-registered:' + kind, 'what': '%s %d (stream %d) terminated but is still in the stream table' % (kind, oid, sid)})
                if sid in cache and how != 'lost' and abandoned_after_cancel(obs, sid):
                    fails.append({'signature': 'terminated-stream-has-partial-frame:' + kind, 'what': '%s %d (stream %d) terminated but a partial frame remains cached' % (kind, oid, sid)})
        if obs['final'].get('oneway_pending_settled'):
            fails.append({'signature': 'one-way-request-not-finished-after-send', 'what': 'the frames of %s have been written, the send queue is empty, and the awaitable is still pending (the interaction never finishes)' % obs['final']['oneway_pending_settled']})
        if obs.get('extra'):
            for sid in obs['extra']['probes']:
                ok = any(m.startswith('RECV:REQUEST_FNF:%d:' % sid) and any(t.startswith('HC:REQUEST_FNF') for t in outs) for m, outs in obs['steps'])
                if not ok:
                    fails.append({'signature': 'terminated-id-not-reusable', 'what': 'a new request on the terminated stream id %d was not accepted' % sid})
        return fails


PROP = C10()
