"""C03 — fragmentation / reassembly. Correspondence of the real fragmenter (get_next_fragment →
serialize → parse_or_ignore → FrameFragmentCache) with `RSocketModel.Fragment`, on boundary grids
and dense windows of (metadata length, data length) for all five types, both framings and several
fragment sizes; direct oracle for every clause of the property."""
import json

from harness.core import Prop
from harness import detloop, simnet

TYPES = {'PAYLOAD': 10, 'REQUEST_RESPONSE': 4, 'REQUEST_FNF': 5, 'REQUEST_STREAM': 6, 'REQUEST_CHANNEL': 7}
HDR = {10: 6, 4: 6, 5: 6, 6: 10, 7: 10}


def pattern(n, salt):
    return bytes((i * 7 + salt) % 251 for i in range(n))


def boundary_values(F, hdr, lp):
    first = F - hdr - (3 if lp else 0)
    nxt = F - 6 - (3 if lp else 0)
    vals = {0, 1, 2, 3}
    for base in (first, first + nxt, first + 2 * nxt, nxt, 2 * nxt):
        for d in range(-4, 5):
            if base + d >= 0:
                vals.add(base + d)
    return sorted(vals)


class C03(Prop):
    id = 'C03'
    lean_modules = ['RSocketModel.Props.C03', 'RSocketModel.Props.C03Source']
    technique = 'Lean 4 proof (refinement of the three-phase loop to a uniform recursion, induction; cache fold) + differential correspondence through the wire'
    level_text = ('c03_fragment_frames_match_source (Props/C03Source.lean): the step from a fragment to a wire frame (Fragment.toFrame: type of first / later fragments, FOLLOWS on all but the last, COMPLETE only on the last, request-n only on the first) is proved to be the meaning of rsocket/frame.py: new_frame_fragment as translated from its AST on every run (Gen/Fragments.lean). c03_first_type_and_n, c03_follows_all_but_last, c03_complete_only_last, c03_metadata_before_data, c03_concat, c03_progress, '
                  'c03_fits_single and c03_reassemble_exact are kernel-checked for all metadata/data, all F >= the regenerated minimum, both framings and the '
                  'five types of the regenerated table; the size clause is proved as c03_size_partial (<= F+3; <= F without metadata) and its full-strength '
                  'form is refuted by c03_size_counterexample, replayed on the implementation as a recorded finding. The model is a transcription of '
                  'FrameFragmenter.__iter__, new_frame_fragment and FrameFragmentCache and is run against them through serialize/parse, a share of the cases through the real sender task of an endpoint (transport with and without the length prefix). c03_engine_reassembles: on the engine model (tied to the code by the C07/C09-C12 correspondence runs, which feed fragmented frames), a frame arriving as first / continuation / last fragments has exactly the effect of the whole frame, for every state, frame type, split and handler behaviour.')
    level_note = ('Trusted: Lean kernel + standard axioms; regenerated header table and minimum size (side conditions c03_header_table, c03_min_fragment_room '
                  'are decided on every build); model fidelity as far as the correspondence reaches; BytesIO.read = List.take/drop.')
    design_ref = '§5 C03'
    rule = ('(type, framing, F, metadata length, data length, complete flag, request-n): boundary grid around every multiple of the first/next budgets '
            '(+-4) for F in {64,65,70,127,128,1000} and a dense window 0..W x 0..W at F=64 (W=40 quick, 160 thorough) plus large sizes; each case goes (a quarter of them with the frame made by the library itself: send_payload / request_response / fire_and_forget / request_stream / request_channel on a real endpoint, read off its transport) '
            'fragmenter -> serialize -> parse_or_ignore -> FrameFragmentCache; non-trivial = more than one fragment; distinct = distinct parameter tuple; plus the reconnecting-client scenarios of C01 (a fragmented frame left half-received when the connection goes away, the same stream id used again on the next connection): what is reassembled on the next connection must be exactly what was sent on it')
    assumptions = ['fragments are obtained through Frame.get_next_fragment as the sender does']

    def cases(self, rng, tier):
        out = []
        Fs = [64, 65, 70] if tier == 'quick' else [64, 65, 66, 70, 127, 128, 1000]
        for tname, ty in TYPES.items():
            for lp in (False, True):
                for F in Fs:
                    vals = boundary_values(F, HDR[ty], lp)
                    if tier == 'quick':
                        vals = vals[:: 2] if F != 64 else vals
                    for md in vals:
                        for d in vals:
                            out.append({'t': tname, 'lp': lp, 'F': F, 'md': md, 'd': d, 'C': (md + d) % 2 == 1, 'n': 1 + (md * 31 + d) % 1000,
                                        'via': 'sender' if (md * 7 + d) % 4 == 0 else ('api' if (md * 7 + d) % 4 == 1 and (md or d) else 'direct')})
        W = 40 if tier == 'quick' else 160
        for tname in TYPES:
            for lp in (False, True):
                for md in range(0, W + 1, 1 if tier == 'thorough' or tname in ('PAYLOAD', 'REQUEST_CHANNEL') else 3):
                    for d in range(0, W + 1, 1 if tier == 'thorough' else 2):
                        out.append({'t': tname, 'lp': lp, 'F': 64, 'md': md, 'd': d, 'C': d % 2 == 0, 'n': 7})
        for _ in range(300 if tier == 'quick' else 3000):
            out.append({'t': rng.choice(list(TYPES)), 'lp': rng.random() < 0.5, 'F': rng.choice([64, 64, 100, 1024, 4096, 65536]),
                        'md': rng.choice([0, 0, rng.randint(0, 3000), rng.randint(0, 200000)]),
                        'd': rng.choice([0, rng.randint(0, 3000), rng.randint(0, 400000 if tier == 'thorough' else 60000)]),
                        'C': rng.random() < 0.5, 'n': rng.choice([1, 2 ** 31 - 1, rng.randint(1, 2 ** 31 - 1)]), 'via': rng.choice(['direct', 'direct', 'sender', 'api'])})
        # reassembly state must not outlive the connection it belongs to: the reconnecting-client scenarios of C01 (a fragmented frame left
        # half-received when the connection goes away, the same stream id used again on the next connection), judged here for "the receiver
        # reassembles exactly the original frame"
        from harness.props import c01
        nrec = npair = 0
        for c in c01.PROP.cases(rng, 'quick' if tier == 'quick' else 'thorough'):
            if c.get('kind') == 'reconnect' and nrec < (60 if tier == 'quick' else 1500):
                out.append({'kind': 'reconnect', 'c01': c})
                nrec += 1
            elif c.get('kind') != 'reconnect' and c.get('frag') and not c.get('lease') and not c.get('slow_ka') and npair < (60 if tier == 'quick' else 1500):
                # ... and what a real receiving endpoint (receive loop in front of the cache) hands to the application for every frame
                # type, requests included: the fragmented full-stack runs of C01
                out.append({'kind': 'pair', 'c01': c})
                npair += 1
        return out

    def run_impl(self, case):
        if case.get('kind') in ('reconnect', 'pair'):
            from harness.props import c01
            return c01.PROP.run_impl(case['c01'])
        from rsocket import frame as F
        from rsocket.frame_fragment_cache import FrameFragmentCache
        from rsocket.payload import Payload
        from rsocket import frame_builders as B
        t, lp, size = case['t'], case['lp'], case['F']
        md, d = pattern(case['md'], 3), pattern(case['d'], 101)
        sid = 5
        if t == 'PAYLOAD':
            base = B.to_payload_frame(sid, Payload(d, md), complete=case['C'], fragment_size_bytes=size)
        elif t == 'REQUEST_RESPONSE':
            base = B.to_request_response_frame(sid, Payload(d, md), size)
        elif t == 'REQUEST_FNF':
            base = B_fnf(sid, Payload(d, md), size)
        elif t == 'REQUEST_STREAM':
            base = B.to_request_stream_frame(sid, Payload(d, md), size, case['n'])
        else:
            base = B.to_request_channel_frame(sid, Payload(d, md), size, case['n'], case['C'])
        frags = []
        if case.get('via') in ('sender', 'api'):
            # the fragments as the endpoint's own sender task produces them for a transport with / without the length prefix
            frags = detloop.run(self._through_sender, dict(case, _base=base))
        else:
            while True:
                fr = base.get_next_fragment(lp)
                if fr is None or len(frags) > 20000:
                    break
                frags.append(fr)
        cache = FrameFragmentCache()
        rows, results = [], []
        final = None
        for fr in frags:
            wire = fr.serialize()
            wlen = len(wire) + (3 if lp else 0)
            back = F.parse_or_ignore(wire)
            ty = int(back.frame_type)
            n = getattr(back, 'initial_request_n', 0) if ty in (6, 7) else 0
            nx = getattr(back, 'flags_next', False) if ty == 10 else False
            cm = back.flags_complete if ty in (7, 10) else False
            rows.append({'ty': ty, 'F': bool(back.flags_follows), 'C': bool(cm), 'N': bool(nx), 'n': n,
                         'md': len(back.metadata or b''), 'd': len(back.data or b''), 'w': wlen})
            try:
                r = cache.append(back)
            except Exception as e:
                results.append('D')
                continue
            if r is None:
                results.append('P')
            else:
                final = r
                rty = int(r.frame_type)
                results.append({'ty': rty, 'F': bool(r.flags_follows), 'C': bool(r.flags_complete) if rty in (7, 10) else False,
                                'N': bool(getattr(r, 'flags_next', False)) if rty == 10 else False,
                                'n': getattr(r, 'initial_request_n', 0) if rty in (6, 7) else 0,
                                'md': len(r.metadata or b''), 'd': len(r.data or b'')})
        content_ok = final is not None and bytes(final.metadata or b'') == md and bytes(final.data or b'') == d
        whole = len(base.serialize()) + (3 if lp else 0) if False else None
        return {'rows': rows, 'results': results, 'content_ok': content_ok, 'cache': len(cache._frames_by_stream_id),
                'reasm_complete': bool(final.flags_complete) if final is not None else None}

    async def _through_sender(self, loop, case):
        from rsocket.rsocket_server import RSocketServer
        t = simnet.ScriptedTransport(loop, length_header=case['lp'])
        server = RSocketServer(t, fragment_size_bytes=case['F'])
        await loop.settle()
        if case.get('via') == 'api':
            # the frame is made by the library itself, through the entry points its handlers and the application use
            from rsocket.payload import Payload
            base = case['_base']
            pl = Payload(bytes(base.data or b'') or None, bytes(base.metadata or b'') or None)

            class S:
                def on_subscribe(self, s): pass
                def on_next(self, v, is_complete=False): pass
                def on_complete(self): pass
                def on_error(self, e): pass

            class P:
                def subscribe(self, subscriber): pass
            ty = case['t']
            if ty == 'PAYLOAD':
                server.send_payload(5, pl, complete=case['C'])
            elif ty == 'REQUEST_RESPONSE':
                server.request_response(pl)
            elif ty == 'REQUEST_FNF':
                server.fire_and_forget(pl)
            elif ty == 'REQUEST_STREAM':
                server.request_stream(pl).initial_request_n(case['n']).subscribe(S())
            else:
                server.request_channel(pl, None if case['C'] else P()).initial_request_n(case['n']).subscribe(S())
        else:
            server.send_frame(case['_base'])
        await loop.settle()
        out = [e[2] for e in t.sent]
        await server.close()
        return out

    def model_lines(self, case, obs):
        if case.get('kind') in ('reconnect', 'pair'):
            return []
        return ['frag ty=%d F=%d lp=%d sid=5 n=%d C=%d md=%d d=%d' % (
            TYPES[case['t']], case['F'], case['lp'], case['n'] if case['t'] in ('REQUEST_STREAM', 'REQUEST_CHANNEL') else 0,
            case['C'] if case['t'] in ('PAYLOAD', 'REQUEST_CHANNEL') else 0, case['md'], case['d'])]

    def compare(self, case, obs, answers):
        if case.get('kind') in ('reconnect', 'pair'):
            return None
        b = lambda x: '1' if x else '0'
        rows = ' '.join('%d:%s%s%s:n%d:%d:%d:w%d' % (r['ty'], b(r['F']), b(r['C']), b(r['N']), r['n'], r['md'], r['d'], r['w']) for r in obs['rows'])
        res = ' '.join(x if isinstance(x, str) else 'F%d:%s%s%s:n%d:%d:%d' % (x['ty'], b(x['F']), b(x['C']), b(x['N']), x['n'], x['md'], x['d'])
                       for x in obs['results'])
        impl = '%s | %s | content=%s cache=%d' % (rows, res, b(obs['content_ok']), obs['cache'])
        if impl != answers[0]:
            return 'impl: %s / model: %s' % (impl[:400], answers[0][:400])

    def oracle(self, case, obs):
        fails = []
        if case.get('kind') == 'pair':
            from harness.props import c01
            return [{'signature': 'reassembly-at-the-receiving-endpoint:' + f['signature'], 'what': f['what']} for f in c01.PROP.oracle(case['c01'], obs)]
        if case.get('kind') == 'reconnect':
            for who in ('req', 'resp'):
                if obs['got_' + who] != obs['want_' + who]:
                    short = lambda l: [[len(a) // 2, len(b) // 2] for a, b in l][:6]
                    fails.append({'signature': 'reassembly-content:after-reconnect',
                                  'what': 'fragmented %s sent over the successive connections had (data, metadata) sizes %s, reassembled %s' % (
                                      {'req': 'requests', 'resp': 'responses'}[who], short(obs['want_' + who]), short(obs['got_' + who]))})
            return fails
        rows = obs['rows']
        F, lp = case['F'], case['lp']
        ty = TYPES[case['t']]
        add = lambda sig, what: fails.append({'signature': sig, 'what': '%s [type=%s lp=%s F=%d md=%d d=%d]' % (what, case['t'], lp, F, case['md'], case['d'])})
        if not rows:
            add('no-fragments', 'no fragment emitted')
            return fails
        for i, r in enumerate(rows):
            if r['w'] > F:
                if r['md'] > 0 and r['w'] <= F + 3:
                    add('fragment-with-metadata-exceeds-size-by-le3', 'fragment %d is %d bytes on the wire, %d over the configured size (3-byte metadata length not budgeted)' % (i, r['w'], r['w'] - F))
                else:
                    add('fragment-exceeds-size', 'fragment %d is %d bytes on the wire, limit %d' % (i, r['w'], F))
            if i == 0:
                if r['ty'] != ty:
                    add('first-fragment-type', 'first fragment has type %d, original %d' % (r['ty'], ty))
                if ty in (6, 7) and r['n'] != case['n']:
                    add('first-fragment-request-n', 'first fragment carries n=%d, original %d' % (r['n'], case['n']))
            elif r['ty'] != 10:
                add('later-fragment-not-payload', 'fragment %d has type %d' % (i, r['ty']))
            last = i == len(rows) - 1
            if r['F'] != (not last):
                add('follows-flag', 'fragment %d of %d has follows=%s' % (i, len(rows), r['F']))
            if not last and r['C']:
                add('complete-before-last', 'fragment %d of %d carries complete' % (i, len(rows)))
            if len(rows) > 1 and r['md'] + r['d'] == 0:
                add('empty-fragment', 'fragment %d of %d is empty' % (i, len(rows)))
        seen_data = False
        for i, r in enumerate(rows):
            if seen_data and r['md'] > 0:
                add('metadata-after-data', 'fragment %d carries metadata after data started' % i)
            if r['d'] > 0:
                seen_data = True
        whole = HDR[ty] + (3 + case['md'] if case['md'] else 0) + case['d'] + (3 if lp else 0)
        if whole <= F and len(rows) != 1:
            add('fitting-frame-fragmented', 'frame of %d wire bytes fits %d but was sent as %d fragments' % (whole, F, len(rows)))
        res = obs['results']
        if any(x != 'P' for x in res[:-1]) or not isinstance(res[-1], dict):
            add('reassembly-sequence', 'cache answers %s' % [x if isinstance(x, str) else 'frame' for x in res][:6])
        else:
            fin = res[-1]
            if not obs['content_ok'] or fin['md'] != case['md'] or fin['d'] != case['d']:
                add('reassembly-content', 'reassembled metadata/data differ from the original')
            if fin['ty'] != ty:
                add('reassembly-type', 'reassembled type %d' % fin['ty'])
            if ty in (6, 7) and fin['n'] != case['n']:
                add('reassembly-request-n', 'reassembled n=%d' % fin['n'])
            want_c = case['C'] if ty in (7, 10) else False
            if fin['C'] != want_c:
                add('reassembly-complete-flag', 'reassembled frame has complete=%s, original %s (%d fragments)' % (fin['C'], want_c, len(rows)))
        if obs['cache'] != 0:
            add('cache-not-empty', 'fragment cache keeps %d entries after the last fragment' % obs['cache'])
        return fails

    def nontrivial(self, case, obs):
        if case.get('kind') == 'pair':
            return json.dumps(case, sort_keys=True)
        if case.get('kind') == 'reconnect':
            return json.dumps(case, sort_keys=True) if not case['c01']['whole'] else None
        if len(obs['rows']) > 1:
            return json.dumps(case, sort_keys=True)
        return None

    def stats(self, case, obs):
        if case.get('kind') in ('reconnect', 'pair'):
            yield 'kind=' + case['kind']
            return
        yield 'type=' + case['t']
        yield 'lp=%s' % case['lp']
        n = len(obs['rows'])
        yield 'fragments=' + ('1' if n == 1 else '2' if n == 2 else '3-5' if n <= 5 else '6+')
        if any(r['md'] and r['d'] for r in obs['rows']):
            yield 'has-mixed-fragment'
        if case['md'] == 0:
            yield 'no-metadata'
        if case['d'] == 0:
            yield 'no-data'

    def shrink_candidates(self, case):
        if case.get('kind') in ('reconnect', 'pair'):
            return
        for k in ('d', 'md'):
            v = case[k]
            for nv in (0, v // 2, v - 1):
                if 0 <= nv < v:
                    yield dict(case, **{k: nv})


def B_fnf(sid, payload, size):
    # to_fire_and_forget_frame creates a future (needs an event loop); build the same frame without it
    from rsocket.frame import RequestFireAndForgetFrame
    fr = RequestFireAndForgetFrame()
    fr.stream_id = sid
    fr.data = payload.data
    fr.metadata = payload.metadata
    fr.fragment_size_bytes = size
    return fr


PROP = C03()
