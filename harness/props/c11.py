"""C11 — connection loss or close fails everything pending, exactly once."""
from harness.engineprop import EngineProp, flat


def histories(obs):
    """per object id: list of (step index, marker, token) that mention it; plus stimuli addressed to it"""
    h = {}
    for i, m, t in flat(obs):
        p = t.split(':')
        if p[0] in ('OS', 'ON', 'OC', 'OE', 'FR', 'FE', 'PS', 'PR', 'PX', 'HX', 'CR'):
            h.setdefault(int(p[1]), []).append((i, m, t))
    stim = {}
    for i, (m, _) in enumerate(obs['steps']):
        p = m.split(':')
        if p[0] in ('SUB', 'SRQ', 'SCN', 'FCN', 'PN', 'PC', 'PE', 'HR', 'HF', 'CBQ', 'CBP'):
            stim.setdefault(int(p[1]), []).append((i, m))
    return h, stim


class C11(EngineProp):
    id = 'C11'
    lean_modules = ['RSocketModel.Props.C11']
    profiles = ['loss']
    length = (3, 22)
    technique = 'Lean 4 proof (stop_all over the stream table, any table content) + event-level differential correspondence with loss/close injected at any point'
    level_text = ('lost_spec (closed form of stop_all_streams + on_close for any well-formed state), c11_pending_request_response_failed, c11_pending_subscriber_failed, c11_producers_cancelled, c11_each_signal_once, c11_on_close_once and c11_silent_after are kernel-checked on the engine model, for every table content; loss by EOF, transport error or close() is injected at any point of generated scripts against a real endpoint and the model is replayed on the observed entry-point sequence.')
    level_note = 'Trusted: as C07; a cut while a user coroutine handler is suspended mid-await is represented only as "handler pending".'
    design_ref = '§5 C11'
    rule = ('as C07, with orderly EOF, transport error or explicit close() injected after 3..22 groups on any mix of pending interactions in both roles, followed by further '
            'application activity; non-trivial = at least one interaction pending at the moment of loss; distinct = distinct entry-point sequence')
    assumptions = ['application cancel()/on_close callbacks do not raise unless scripted to']

    def oracle(self, case, obs):
        fails = []
        steps = obs['steps']
        lost = [i for i, (m, _) in enumerate(steps) if m in ('LOST', 'STOP')]
        if not lost:
            return fails
        L = lost[0]
        h, stim = histories(obs)
        ncl = sum(1 for _, _, t in flat(obs) if t == 'CL')
        if ncl != 1:
            fails.append({'signature': 'close-notification-count', 'what': 'on_close was delivered %d times after the connection ended (%s)' % (ncl, steps[L][1][:8])})
        if obs['final']['sent_after_close']:
            fails.append({'signature': 'sends-after-close', 'what': '%d frames reached the transport after the close notification' % obs['final']['sent_after_close']})
        if obs['final'].get('oneway_pending'):
            fails.append({'signature': 'unsent-one-way-request-left-pending', 'what': 'the awaitable of %s whose frame had not left the endpoint is still pending after the connection ended' % obs['final']['oneway_pending']})
        if obs['final']['sender_alive']:
            fails.append({'signature': 'sender-still-running', 'what': 'the sender task is still running after the connection ended'})
        for oid, kind in enumerate(obs['kinds']):
            ev = h.get(oid, [])
            st = stim.get(oid, [])
            created = [i for i, m, t in ev if t.startswith('CR:')]
            if not created or created[0] > L:
                continue
            if any(t.startswith('RA:') for t in steps[created[0]][1]):
                continue      # the requester's creation was refused (initial_request_n <= 0): not an interaction
            before = [(i, m, t) for i, m, t in ev if i < L]
            sbefore = [(i, m) for i, m in st if i < L]
            after = [(i, m, t) for i, m, t in ev if i >= L]
            tok = lambda pre, seq: [t for _, _, t in seq if t.startswith(pre)]
            if kind == 'rrReq':
                pending = not tok('FR', before) and not tok('FE', before) and not any(m.startswith('FCN') for _, m in sbefore)
                if pending:
                    n = len(tok('FE:%d:257' % oid, after))
                    if n != 1:
                        fails.append({'signature': 'pending-request-response-not-failed', 'what': 'request-response %d pending at loss got %d connection errors' % (oid, n)})
            if kind in ('stReq', 'chReq'):
                subscribed = bool(tok('OS', before))
                term = bool(tok('OC', before) or tok('OE', before) or [t for t in tok('ON', before) if t.endswith(':1')])
                cancelled = any(m.startswith('SCN') for _, m in sbefore)
                if subscribed and not term and not cancelled:
                    n = len(tok('OE:%d:257' % oid, after))
                    if n != 1:
                        fails.append({'signature': 'pending-subscriber-not-failed:' + kind, 'what': '%s %d open at loss received %d connection errors' % (kind, oid, n)})
            if kind in ('stResp', 'chResp', 'chReq'):
                has_pub = bool(tok('PS', before))
                pub_done = any(m.startswith('PC') or m.startswith('PE') or (m.startswith('PN') and m.endswith(':1')) for _, m in sbefore)
                cancelled = bool(tok('PX', before))
                if has_pub and not pub_done and not cancelled:
                    n = len(tok('PX', after))
                    if n != 1:
                        fails.append({'signature': 'producer-not-cancelled:' + kind, 'what': 'publisher of %s %d still producing at loss was cancelled %d times' % (kind, oid, n)})
            if kind == 'rrResp':
                beh_done = any(m.startswith('HR') or m.startswith('HF') for _, m in sbefore)
                cancelled = bool(tok('HX', before))
                # a future that was already resolved when the handler returned it is not pending
                cr_step = created[0]
                ready = steps[cr_step][0].split(':')[-1].startswith('fr') or steps[cr_step][0].endswith(':ff')
                if not beh_done and not cancelled and not ready:
                    n = len(tok('HX', after))
                    if n != 1:
                        fails.append({'signature': 'handler-future-not-cancelled', 'what': 'handler future of request-response responder %d pending at loss was cancelled %d times' % (oid, n)})
        return fails

    def nontrivial(self, case, obs):
        import json
        steps = obs['steps']
        if any(m in ('LOST', 'STOP') for m, _ in steps) and obs['kinds']:
            return json.dumps([case['role'], [m for m, _ in steps]])
        return None


PROP = C11()
