"""C11 — connection loss or close fails everything pending, exactly once."""
from harness.engineprop import EngineProp, flat


def histories(obs):
    """per object id: list of (step index, marker, token) that mention it; plus stimuli addressed to it"""
    h = {}
    for i, m, t in flat(obs):
        p = t.split(':')
        if p[0] in ('OS', 'ON', 'OC', 'OE', 'FR', 'FE', 'PS', 'PR', 'PX', 'HX', 'CR'):
            h.setdefault(int(p[1]), []).append((i, m, t))
    stim = {}
    for i, (m, _) in enumerate(obs['steps']):
        p = m.split(':')
        if p[0] in ('SUB', 'SRQ', 'SCN', 'FCN', 'PN', 'PC', 'PE', 'HR', 'HF', 'CBQ', 'CBP'):
            stim.setdefault(int(p[1]), []).append((i, m))
    return h, stim


class C11(EngineProp):
    id = 'C11'
    lean_modules = ['RSocketModel.Props.C11', 'RSocketModel.Props.C11Source']
    profiles = ['loss']
    length = (3, 22)
    technique = 'Lean 4 proof (stop_all over the stream table, any table content) + event-level differential correspondence with loss/close injected at any point'
    level_text = ('c11_every_stream_unregistered_and_sweep_goes_on / c11_requester_gets_the_error / c11_disposable_is_disposed (Props/C11Source.lean) are read off the per-stream body of StreamControl.stop_all_streams as compiled from stream_control.py (with its try / except / finally) on every run. lost_spec (closed form of stop_all_streams + on_close for any well-formed state), c11_pending_request_response_failed, c11_pending_subscriber_failed, c11_producers_cancelled, c11_each_signal_once, c11_on_close_once, c11_silent_after and c11_close_stops_what_is_registered (close() - stop_all_streams alone, in any state, also after the loss - empties the table and fails every pending awaitable / subscriber: the repair of F20) are kernel-checked on the engine model, for every table content; loss by EOF, transport error or close() is injected at any point of generated scripts against a real endpoint and the model is replayed on the observed entry-point sequence.')
    level_note = 'Trusted: as C07; a cut while a user coroutine handler is suspended mid-await is represented only as "handler pending".'
    design_ref = '§5 C11'
    rule = ('as C07, with orderly EOF, transport error or explicit close() injected after 3..22 groups on any mix of pending interactions in both roles, followed by further '
            'application activity; plus a real TransportTCP endpoint (either role) with 0..2 pending request-responses, stream subscriptions and suspended incoming handlers whose byte stream is cut after 0..40 bytes of a frame by EOF, ConnectionResetError, TimeoutError, IncompleteReadError or RuntimeError from the stream reader, or by the application\'s own close() of the live connection, with an on_close handler that may issue one more request (it must be failed when close() returns); then 0..2 request-responses / streams issued on the dead endpoint before the application calls close() (close() must fail them); non-trivial = at least one interaction pending at the moment of loss; distinct = distinct entry-point sequence')
    assumptions = ['application cancel()/on_close callbacks do not raise unless scripted to']

    # -- the byte-stream transport: the link is cut between any two bytes, by EOF or by a read error -------------------------
    def cases(self, rng, tier):
        out = super().cases(rng, tier)
        for _ in range(240 if tier == 'quick' else 3000):
            out.append({'mode': 'tcp', 'role': rng.choice(['client', 'server']), 'profile': 'tcp-cut', 'cut': rng.choice(['eof', 'reset', 'timeout', 'close', 'incomplete', 'runtime', 'close-cancelled']),
                        # the application's close notification asks once more (a last request / a retry): the endpoint is going away, it must be failed
                        'ask_in_on_close': rng.random() < 0.4, 'ask_in_on_error': rng.random() < 0.3,
                        # ... or fails (a flush of application state that hits a full disk, say)
                        'on_close_raises': rng.choice([None, None, None, 'OSError', 'RuntimeError', 'ValueError']),
                        'partial': rng.randint(0, 40), 'rr': rng.randint(0, 2), 'streams': rng.randint(0, 2), 'incoming': rng.randint(0, 2),
                        'producers': rng.choice([0, 1, 1, 2]), 'producer_kind': rng.choice(['gen', 'agen']), 'producer_when': rng.choice(['early', 'same-read']),
                        'late_rr': rng.choice([0, 0, 1, 2]), 'late_streams': rng.choice([0, 0, 1])})
            if out[-1]['cut'] == 'close-cancelled':
                # a close() whose caller is being cancelled may end with that CancelledError wherever it next suspends: what is judged is
                # what was pending when it was called (requests, subscribers, handler futures, the one close notification), not how
                # close() itself ends nor requests that on_close / on_error issue while it runs
                out[-1].update(ask_in_on_close=False, ask_in_on_error=False, on_close_raises=None)
        # close() at any moment - also while a reconnect is under way (the reconnect listener is suspended closing the old transport or obtaining
        # the next one): after close() has returned the endpoint sends nothing, keepalives included, and none of its tasks is left
        for _ in range(60 if tier == 'quick' else 1500):
            out.append({'mode': 'rcclose', 'role': 'client', 'profile': 'reconnect-then-close', 'close_ticks': rng.choice([0, 1, 3, 8]), 'provider_ticks': rng.choice([0, 1, 4]),
                        'wait': rng.choice([0, 1, 2, 5, 12]), 'pending': rng.randint(0, 2), 'cause': rng.choice(['healthy', 'eof'])})
        return out

    def run_impl(self, case):
        if case.get('mode') == 'tcp':
            from harness import detloop
            return detloop.run(self._tcp_cut, case)
        if case.get('mode') == 'rcclose':
            from harness import detloop
            return detloop.run(self._rcclose, case)
        return super().run_impl(case)

    async def _rcclose(self, loop, case):
        import asyncio
        from harness import clientrun, simnet
        from rsocket.payload import Payload
        R = clientrun.ClientRun(loop, n_transports=3, ka_ms=40, life_ms=100_000_000)
        R.provider_ticks = case['provider_ticks']
        for t in R.transports:
            oc = t.close

            async def slow_close(oc=oc):
                for _ in range(case['close_ticks']):
                    await asyncio.sleep(0)
                await oc()
            t.close = slow_close
        c = R.build()
        await c.connect()
        await loop.settle()
        futs = [c.request_response(Payload(b'p%d' % i)) for i in range(case['pending'])]
        await loop.settle()
        if case['cause'] == 'eof':
            R.transports[0].deliver(simnet.EOF_MARK)
            await loop.settle()
        rt = asyncio.ensure_future(c.reconnect())
        for _ in range(case['wait']):
            await asyncio.sleep(0)
        ct = asyncio.ensure_future(c.close())
        for _ in range(3000):
            if ct.done():
                break
            await asyncio.sleep(0)
        if not ct.done():
            chain, co = [], ct.get_coro()
            while co is not None and len(chain) < 12:
                fr = getattr(co, 'cr_frame', None) or getattr(co, 'gi_frame', None)
                if fr is not None:
                    chain.append('%s:%d' % (fr.f_code.co_name, fr.f_lineno))
                nxt = getattr(co, 'cr_await', None) or getattr(co, 'gi_yieldfrom', None)
                if isinstance(nxt, asyncio.Task):
                    chain.append('<task %s>' % getattr(nxt.get_coro(), '__name__', '?'))
                    co = nxt.get_coro()
                else:
                    co = nxt if hasattr(nxt, 'cr_frame') or hasattr(nxt, 'gi_frame') else None
            close_result = 'hung:' + ' > '.join(chain)
            # close() was called and has not returned: what the endpoint does meanwhile is what counts
            mark = [len(t.sent) for t in R.transports]
            await loop.advance(400)
            await loop.settle()
            during = [[i, e[1][:40]] for i, t in enumerate(R.transports) for e in t.sent[mark[i]:]]
            close_result += ' ; frames written in the following 400 ms: %s' % during[:6]
            ct.cancel()
        elif ct.cancelled():
            close_result = 'cancelled'
        elif ct.exception() is not None:
            close_result = 'raised:' + type(ct.exception()).__name__ + ':' + str(ct.exception())[:80]
        else:
            close_result = 'returned'
        sent_at_close = [len(t.sent) for t in R.transports]
        await loop.settle()
        await loop.advance(400)          # ten keepalive periods of silence
        await loop.settle()
        after = [[i, e[1][:40]] for i, t in enumerate(R.transports) for e in t.sent[sent_at_close[i]:]]
        tasks = [n for n in ('_sender_task', '_receiver_task', '_keepalive_task', '_reconnect_task') if getattr(c, n, None) is not None and not getattr(c, n).done()]
        res = {'close': close_result, 'sent_after_close': after, 'tasks_alive': tasks, 'closes': R.closes,
               'pending': ['pending' if not f.done() else ('cancelled' if f.cancelled() else ('failed' if f.exception() is not None else 'result')) for f in futs],
               'open_transports': [i for i, t in enumerate(R.transports) if i <= R.current and not t.closed]}
        if not rt.done():
            rt.cancel()
        for n in ('_sender_task', '_receiver_task', '_keepalive_task', '_reconnect_task'):
            tk = getattr(c, n, None)
            if tk is not None and not tk.done():
                tk.cancel()
        return res

    async def _tcp_cut(self, loop, case):
        import asyncio
        from datetime import timedelta
        from rsocket.transports.tcp import TransportTCP
        from rsocket.rsocket_client import RSocketClient
        from rsocket.rsocket_server import RSocketServer
        from rsocket.helpers import single_transport_provider
        from rsocket.request_handler import BaseRequestHandler
        from rsocket.payload import Payload
        from harness import engine
        from harness.link import Writer
        log = {'on_close': 0, 'handler_futures': [], 'wire': bytearray(), 'pulls': [], 'pulls_at_close': None, 'asked': [], 'asked_in_final_sweep': []}

        class L:
            stream = [log['wire'], bytearray()]
        reader = asyncio.StreamReader()
        t = TransportTCP(reader, Writer(L, 0))

        class H(BaseRequestHandler):
            async def request_response(self, payload):
                f = asyncio.get_event_loop().create_future()
                log['handler_futures'].append(f)
                return f

            async def request_stream(self, payload):
                from harness import sources
                return sources.make_source(case.get('producer_kind', 'gen'), 40, False, False, pulls=log['pulls'])

            async def on_close(self, rsocket, exception=None):
                log['on_close'] += 1
                log['pulls_at_close'] = len(log['pulls'])
                if case.get('ask_in_on_close'):
                    log['asked'].append(rsocket.request_response(Payload(b'last')))
                if case.get('on_close_raises'):
                    raise {'OSError': OSError(28, 'No space left on device'), 'RuntimeError': RuntimeError('on_close failed'), 'ValueError': ValueError('on_close failed')}[case['on_close_raises']]
        if case['role'] == 'client':
            ep = RSocketClient(single_transport_provider(t), handler_factory=H, keep_alive_period=timedelta(seconds=100000), max_lifetime_period=timedelta(seconds=1000000))
            await ep.connect()
            peer_first = 2
        else:
            ep = RSocketServer(t, handler_factory=H)
            peer_first = 1
        await loop.settle()

        def feed(spec):
            b = engine.build_frame(spec).serialize()
            return len(b).to_bytes(3, 'big') + b
        if case['role'] == 'server':
            reader.feed_data(feed({'ty': 'SETUP', 'sid': 0, 'data': [1]}))
            await loop.settle()

        class Sub:
            def __init__(self): self.events = []
            def on_subscribe(self, s): self.events.append('subscribe')
            def on_next(self, v, is_complete=False): self.events.append('next')
            def on_complete(self): self.events.append('complete')
            def on_error(self, e):
                self.events.append('error:' + type(e).__name__)
                if case.get('ask_in_on_error'):
                    # the application reacts to the failure with a fallback request on the same endpoint, right inside on_error
                    log['asked'].append(ep.request_response(Payload(b'fallback')))
                    if log.get('final_close'):
                        log['asked_in_final_sweep'].append(len(log['asked']) - 1)
        futs = [ep.request_response(Payload(b'rr%d' % i)) for i in range(case['rr'])]
        subs = []
        for i in range(case['streams']):
            s = Sub()
            ep.request_stream(Payload(b'st%d' % i)).subscribe(s)
            subs.append(s)
        for i in range(case['incoming']):
            reader.feed_data(feed({'ty': 'REQUEST_RESPONSE', 'sid': peer_first + 2 * i, 'data': [9]}))
        await loop.settle()
        for i in range(case.get('producers', 0)):
            # the peer asks for a stream served by one of the library's own sources; 'same-read': the request is the last thing the peer
            # sends, the end of the connection is already in the reader when the receiver handles it
            reader.feed_data(feed({'ty': 'REQUEST_STREAM', 'sid': peer_first + 40 + 2 * i, 'n': 30, 'data': [8]}))
            if case.get('producer_when') != 'same-read':
                await loop.settle()
        # the cut: first `partial` bytes of one more frame, then the end
        tail = feed({'ty': 'REQUEST_FNF', 'sid': peer_first + 100, 'data': list(range(1, 60))})
        if case['partial']:
            reader.feed_data(tail[:case['partial']])
            if not (case.get('producers') and case.get('producer_when') == 'same-read'):
                await loop.settle()
        if case['cut'] == 'close':
            # the application closes a live connection itself
            try:
                await ep.close()
            except Exception as e:
                log['close_raised'] = type(e).__name__
            await loop.settle()
            log['asked_after_close'] = ['pending' if not f.done() else ('cancelled' if f.cancelled() else ('error:' + type(f.exception()).__name__ if f.exception() else 'result')) for f in log['asked']]
        elif case['cut'] == 'close-cancelled':
            # the application owns the endpoint in a task of its own (`try: ... finally: await endpoint.close()`, `async with endpoint:`) and
            # that task is cancelled - a time-out around the block, a failing sibling, shutdown: close() runs while its caller has a
            # cancellation outstanding
            async def owner():
                try:
                    await asyncio.Event().wait()
                finally:
                    try:
                        await ep.close()
                    except BaseException as e:
                        log['close_raised'] = type(e).__name__
            ot = asyncio.ensure_future(owner())
            await loop.settle()
            ot.cancel()
            await loop.settle()
            log['asked_after_close'] = ['pending' if not f.done() else ('cancelled' if f.cancelled() else ('error:' + type(f.exception()).__name__ if f.exception() else 'result')) for f in log['asked']]
        elif case['cut'] == 'eof':
            reader.feed_eof()
        elif case['cut'] == 'reset':
            reader.set_exception(ConnectionResetError(104, 'Connection reset by peer'))
        elif case['cut'] == 'incomplete':
            reader.set_exception(asyncio.IncompleteReadError(b'', 10))        # link failures are not all OSErrors
        elif case['cut'] == 'runtime':
            reader.set_exception(RuntimeError('the stream reader was closed under the transport'))
        else:
            reader.set_exception(TimeoutError(110, 'Connection timed out'))
        await loop.settle()
        n_wire = len(log['wire'])
        # a frame handed to the endpoint after the end must not be written
        try:
            ep.fire_and_forget(Payload(b'late'))
        except Exception:
            pass
        await loop.settle()
        # requests issued on the endpoint after the connection went away (the application has not noticed yet, or retries from on_close)
        # are pending when the application finally calls close(): they must be failed then
        table_at_loss = sorted(ep._stream_control._streams.keys())
        late_futs = [ep.request_response(Payload(b'late-rr%d' % i)) for i in range(case.get('late_rr', 0))]
        late_subs = []
        for i in range(case.get('late_streams', 0)):
            s = Sub()
            ep.request_stream(Payload(b'late-st%d' % i)).subscribe(s)
            late_subs.append(s)
        await loop.settle()
        res = {'mode': 'tcp', 'futures': ['pending' if not f.done() else ('cancelled' if f.cancelled() else ('error:' + type(f.exception()).__name__ if f.exception() else 'result')) for f in futs],
               'subs': [s.events for s in subs], 'handler_futures': ['cancelled' if f.cancelled() else ('pending' if not f.done() else 'done') for f in log['handler_futures']],
               'on_close': log['on_close'], 'sender_alive': ep._sender_task is not None and not ep._sender_task.done(),
               'receiver_alive': ep._receiver_task is not None and not ep._receiver_task.done(), 'written_after_end': len(log['wire']) - n_wire,
               'table': table_at_loss, 'incoming': len(log['handler_futures'])}
        log['final_close'] = True
        try:
            await ep.close()
        except Exception:
            pass
        await loop.settle()
        res['late_futures'] = ['pending' if not f.done() else ('cancelled' if f.cancelled() else ('error:' + type(f.exception()).__name__ if f.exception() else 'result')) for f in late_futs]
        res['late_subs'] = [s.events for s in late_subs]
        res['table_after_close'] = sorted(ep._stream_control._streams.keys())
        res['asked_after_explicit_close'] = log.get('asked_after_close')
        res['close_raised'] = log.get('close_raised')
        res['asked_in_final_sweep'] = log['asked_in_final_sweep']
        res['transport_closed'] = bool(getattr(t._writer, 'closed', None)) if hasattr(t, '_writer') else None
        res['asked_in_on_close'] = ['pending' if not f.done() else ('cancelled' if f.cancelled() else ('error:' + type(f.exception()).__name__ if f.exception() else 'result')) for f in log['asked']]
        res['pulled_after_close'] = (len(log['pulls']) - log['pulls_at_close']) if log['pulls_at_close'] is not None else 0
        res['source_tasks_alive'] = sorted({getattr(tk.get_coro(), '__qualname__', '?') for tk in asyncio.all_tasks()
                                            if tk is not asyncio.current_task() and not tk.done() and 'Stream' in getattr(tk.get_coro(), '__qualname__', '')})
        return res

    def model_lines(self, case, obs):
        if case.get('mode') in ('tcp', 'rcclose'):
            return []
        return super().model_lines(case, obs)

    def compare(self, case, obs, answers):
        if case.get('mode') in ('tcp', 'rcclose'):
            return None
        return super().compare(case, obs, answers)

    def stats(self, case, obs):
        if case.get('mode') == 'rcclose':
            yield 'mode=reconnect-then-close'
            return
        if case.get('mode') == 'tcp':
            yield 'mode=tcp'
            yield 'cut=' + case['cut']
            yield 'role=' + case['role']
            return
        yield from super().stats(case, obs)

    def shrink_candidates(self, case):
        if case.get('mode') == 'rcclose':
            if case['pending']:
                yield dict(case, pending=case['pending'] - 1)
            return
        if case.get('mode') == 'tcp':
            for k in ('rr', 'streams', 'incoming', 'partial'):
                if case[k]:
                    yield dict(case, **{k: case[k] - 1})
            return
        yield from super().shrink_candidates(case)

    def _tcp_oracle(self, case, obs):
        fails = []
        how = 'cut=%s after %d bytes of a frame' % (case['cut'], case['partial'])
        for i, f in enumerate(obs['futures']):
            if not f.startswith('error'):
                fails.append({'signature': 'pending-request-response-not-failed', 'what': 'TransportTCP, %s: request-response %d is %s' % (how, i, f)})
        for i, ev in enumerate(obs['subs']):
            if [e for e in ev if e.startswith('error')] == [] or ev[-1].split(':')[0] != 'error' or len([e for e in ev if e.startswith('error') or e == 'complete']) != 1:
                fails.append({'signature': 'pending-subscriber-not-failed:stReq', 'what': 'TransportTCP, %s: stream subscriber %d saw %s' % (how, i, ev)})
        for i, f in enumerate(obs['handler_futures']):
            if f != 'cancelled':
                fails.append({'signature': 'handler-future-not-cancelled', 'what': 'TransportTCP, %s: handler future %d is %s' % (how, i, f)})
        if obs['on_close'] != 1:
            fails.append({'signature': 'close-notification-count', 'what': 'TransportTCP, %s: on_close delivered %d times' % (how, obs['on_close'])})
        if obs['sender_alive']:
            fails.append({'signature': 'sender-still-running', 'what': 'TransportTCP, %s: the sender task is still running' % how})
        if obs['written_after_end']:
            fails.append({'signature': 'sends-after-close', 'what': 'TransportTCP, %s: %d bytes written after the connection ended' % (how, obs['written_after_end'])})
        # (a request the application issues inside on_close is registered until close(): the table is then read after close())
        left = obs.get('table_after_close', []) if (case.get('ask_in_on_close') or case.get('ask_in_on_error')) else obs['table']
        if obs.get('asked_in_final_sweep'):
            left = []          # (the streams of F22's requests: reported above)
        if left:
            fails.append({'signature': 'streams-left-registered', 'what': 'TransportTCP, %s: streams %s still registered' % (how, left)})
        for i, f in enumerate(obs.get('late_futures', [])):
            if not f.startswith('error'):
                fails.append({'signature': 'request-pending-at-close-not-failed:' + case['role'], 'what': 'TransportTCP, %s: request-response %d issued after the loss and before close() is %s after close()' % (how, i, f)})
        if obs.get('close_raised') and case['cut'] != 'close-cancelled':
            fails.append({'signature': 'close-raises-the-applications-on_close-exception', 'what': 'TransportTCP, %s: close() raised %s, the exception of the application\'s on_close handler: the rest of the shutdown was skipped' % (how, obs['close_raised'])})
        sweep = set(obs.get('asked_in_final_sweep') or [])
        for i, f in enumerate(obs.get('asked_after_explicit_close') or obs.get('asked_in_on_close', [])):
            if not f.startswith('error') and i in sweep and not obs.get('asked_after_explicit_close'):
                # known finding F22: issued from inside on_error while the last stop_all_streams() of a close() on an already lost
                # connection is running: it is registered behind the sweep's snapshot and nothing ever fails it
                fails.append({'signature': 'request-issued-inside-on_error-during-the-final-sweep-not-failed', 'what': 'TransportTCP, %s: a fallback request-response issued by a subscriber inside on_error, while close() was failing the streams of the already lost connection, is %s after close() returned' % (how, f)})
                continue
            if not f.startswith('error'):
                fails.append({'signature': 'request-issued-in-on_close-not-failed:' + case['role'], 'what': 'TransportTCP, %s: a request-response issued by the application inside on_close / on_error is %s after close() returned' % (how, f)})
        for i, ev in enumerate(obs.get('late_subs', [])):
            if not ev or ev[-1].split(':')[0] != 'error':
                fails.append({'signature': 'subscriber-pending-at-close-not-failed:' + case['role'], 'what': 'TransportTCP, %s: the subscriber of request-stream %d issued after the loss and before close() saw %s' % (how, i, ev)})
        if obs.get('pulled_after_close'):
            fails.append({'signature': 'publisher-produces-after-connection-loss', 'what': 'TransportTCP, %s: the application\'s generator behind a library stream source was advanced %d more times after the close notification' % (how, obs['pulled_after_close'])})
        if obs.get('source_tasks_alive'):
            fails.append({'signature': 'publisher-task-survives-connection-loss', 'what': 'TransportTCP, %s: tasks of a library stream source still running after connection loss and close(): %s' % (how, obs['source_tasks_alive'])})
        return fails

    def oracle(self, case, obs):
        if case.get('mode') == 'tcp':
            return self._tcp_oracle(case, obs)
        if case.get('mode') == 'rcclose':
            fails = []
            what = 'reconnect() (%s connection), %d loop iterations later close() [transport.close() takes %d iterations, the provider %d]' % (case['cause'], case['wait'], case['close_ticks'], case['provider_ticks'])
            if obs['close'].startswith('hung'):
                # (an exception out of close() is not judged: the property does not say how close() itself ends, only what the endpoint does)
                fails.append({'signature': 'close-never-completes:reconnect-under-way', 'what': '%s: close() never returns and the endpoint goes on: %s' % (what, obs['close'])})
            if obs['sent_after_close']:
                fails.append({'signature': 'sends-after-close:reconnect-under-way', 'what': '%s: after close() had returned the client wrote %s' % (what, obs['sent_after_close'][:6])})
            if obs['tasks_alive']:
                fails.append({'signature': 'tasks-left-after-close:reconnect-under-way', 'what': '%s: still running after close(): %s' % (what, obs['tasks_alive'])})
            if any(p == 'pending' for p in obs['pending']):
                fails.append({'signature': 'request-pending-after-close:reconnect-under-way', 'what': '%s: requests %s' % (what, obs['pending'])})
            return fails
        fails = []
        steps = obs['steps']
        lost = [i for i, (m, _) in enumerate(steps) if m in ('LOST', 'STOP')]
        if not lost:
            return fails
        L = lost[0]
        h, stim = histories(obs)
        ncl = sum(1 for _, _, t in flat(obs) if t == 'CL')
        if ncl != 1:
            fails.append({'signature': 'close-notification-count', 'what': 'on_close was delivered %d times after the connection ended (%s)' % (ncl, steps[L][1][:8])})
        if obs['final']['sent_after_close']:
            fails.append({'signature': 'sends-after-close', 'what': '%d frames reached the transport after the close notification' % obs['final']['sent_after_close']})
        if obs['final'].get('oneway_pending'):
            fails.append({'signature': 'unsent-one-way-request-left-pending', 'what': 'the awaitable of %s whose frame had not left the endpoint is still pending after the connection ended' % obs['final']['oneway_pending']})
        if obs['final'].get('write_failures', 0) > 1:
            fails.append({'signature': 'sending-continues-after-write-failure', 'what': 'send_frame was called %d times on a transport whose write side had failed (the first failure ends sending)' % obs['final']['write_failures']})
        if obs['final']['sender_alive']:
            fails.append({'signature': 'sender-still-running', 'what': 'the sender task is still running after the connection ended'})
        for oid, kind in enumerate(obs['kinds']):
            ev = h.get(oid, [])
            st = stim.get(oid, [])
            created = [i for i, m, t in ev if t.startswith('CR:')]
            if not created or created[0] > L:
                continue
            if any(t.startswith('RA:') for t in steps[created[0]][1]):
                continue      # the requester's creation was refused (initial_request_n <= 0): not an interaction
            before = [(i, m, t) for i, m, t in ev if i < L]
            sbefore = [(i, m) for i, m in st if i < L]
            after = [(i, m, t) for i, m, t in ev if i >= L]
            tok = lambda pre, seq: [t for _, _, t in seq if t.startswith(pre)]
            if kind == 'rrReq':
                pending = not tok('FR', before) and not tok('FE', before) and not any(m.startswith('FCN') for _, m in sbefore)
                if pending:
                    n = len(tok('FE:%d:257' % oid, after))
                    if n != 1:
                        fails.append({'signature': 'pending-request-response-not-failed', 'what': 'request-response %d pending at loss got %d connection errors' % (oid, n)})
            if kind in ('stReq', 'chReq'):
                subscribed = bool(tok('OS', before))
                term = bool(tok('OC', before) or tok('OE', before) or [t for t in tok('ON', before) if t.endswith(':1')])
                cancelled = any(m.startswith('SCN') for _, m in sbefore)
                if subscribed and not term and not cancelled:
                    n = len(tok('OE:%d:257' % oid, after))
                    if n != 1:
                        fails.append({'signature': 'pending-subscriber-not-failed:' + kind, 'what': '%s %d open at loss received %d connection errors' % (kind, oid, n)})
            if kind in ('stResp', 'chResp', 'chReq'):
                has_pub = bool(tok('PS', before))
                pub_done = any(m.startswith('PC') or m.startswith('PE') or (m.startswith('PN') and m.endswith(':1')) for _, m in sbefore)
                cancelled = bool(tok('PX', before))
                if has_pub and not pub_done and not cancelled:
                    n = len(tok('PX', after))
                    if n != 1:
                        fails.append({'signature': 'producer-not-cancelled:' + kind, 'what': 'publisher of %s %d still producing at loss was cancelled %d times' % (kind, oid, n)})
            if kind == 'rrResp':
                beh_done = any(m.startswith('HR') or m.startswith('HF') for _, m in sbefore)
                cancelled = bool(tok('HX', before))
                # a future that was already resolved when the handler returned it is not pending
                cr_step = created[0]
                ready = steps[cr_step][0].split(':')[-1].startswith('fr') or steps[cr_step][0].endswith(':ff')
                if not beh_done and not cancelled and not ready:
                    n = len(tok('HX', after))
                    if n != 1:
                        fails.append({'signature': 'handler-future-not-cancelled', 'what': 'handler future of request-response responder %d pending at loss was cancelled %d times' % (oid, n)})
        return fails

    def nontrivial(self, case, obs):
        import json
        if case.get('mode') == 'rcclose':
            return json.dumps(case, sort_keys=True)
        if case.get('mode') == 'tcp':
            return json.dumps(case, sort_keys=True) if (case['rr'] or case['streams'] or case['incoming']) else None
        steps = obs['steps']
        if any(m in ('LOST', 'STOP') for m, _ in steps) and obs['kinds']:
            return json.dumps([case['role'], [m for m, _ in steps]])
        return None


PROP = C11()
