"""C12 — hostile input and failing application code are contained (engine part: protocol-violating but decodable
frame sequences and raising handlers, followed by a probe request; undecodable bytes are covered by the byte-level part)."""
import json

from harness.engineprop import EngineProp, flat, parse_send


def malformed_request(b):
    """True when `b` claims to be a REQUEST_RESPONSE / FNF / STREAM / CHANNEL frame but is cut inside its fixed fields
    (header, initial request-n, the 24-bit metadata length)"""
    if len(b) < 6:
        return False            # not even a header: nothing claims to be a request
    ty = b[4] >> 2
    if ty not in (4, 5, 6, 7):
        return False
    fixed = 6 + (4 if ty in (6, 7) else 0)
    if len(b) < fixed:
        return True
    if b[4] & 0x01:             # metadata flag: a 24-bit length follows and must fit
        rest = len(b) - fixed
        if rest < 3:
            return True
        # (a metadata length larger than what follows is *accepted* by the library: slices clip, the handler sees the shorter
        #  metadata — lenient, contained, and indistinguishable from a shorter valid frame on a message transport; not judged here)
    return False


class C12(EngineProp):
    id = 'C12'
    lean_modules = ['RSocketModel.Props.C12', 'RSocketModel.Props.C12Source']
    profiles = ['hostile', 'hostile', 'legal']
    technique = 'Lean 4 proof (totality + locality of the engine step) + event-level differential correspondence on hostile frame sequences, and byte-level robustness runs'
    level_text = ('c12_invalid_marker_never_dispatched and the other rules of Props/C12Source.lean are read off the decision logic of RSocketBase._handle_next_frame as compiled from rsocket_base.py on every run. c12_dispatch_tables_match_source (the model\'s by-type dispatch, stream-opening and fragmentable frame types and its Requester / Disposable classification of the six handler classes equal the tables regenerated from rsocket_base.py / frame.py / handlers on every run), c12_sends_local, c12_other_streams_untouched and c12_other_partial_frames_untouched (for every well-formed state, received frame and handler behaviour: the registration and the half-reassembled frames of every other stream are exactly what they were), c12_handler_failure_contained, c12_probe_served and c12_total are kernel-checked on the engine model (the state invariant WF is proved preserved by every entry point); scripts mixing legal traffic with frames of any type on any stream, raw messages (serialised frames as is, truncated, IGNORE-flagged and truncated, bit-flipped, unknown type, random bytes, empty — decoded on the model side by the codec model of C02 and then dispatched by the engine model) and raising handlers are run against a real endpoint, replayed on the model, and followed by a probe request that must be answered; an independent structural check requires that no message cut inside a request frame\'s fixed fields reaches a request handler.')
    level_note = 'Trusted: as C07; out-of-domain regions of the decoder are robustness-checked only.'
    design_ref = '§5 C12'
    rule = ('scripts mixing legal traffic with frames of any type on any stream (unknown, finished, live, 0), wrong types for the role, duplicate ids, fragments of a different type, '
            'handlers/publishers/futures scripted to raise; in half of the scripts a well-formed fragmented request of the peer is begun before the script and finished after it (it must be served); after each script a probe request-response on a fresh stream must be answered, a request-response issued by the local application must reach the wire and its response the caller, and both tasks alive; '
            'plus raw messages on the message framing (serialised frames as is, truncated, IGNORE-flagged and truncated, bit-flipped, unknown type, random bytes, empty, the reserved top bit of the first field or of the stream id set - half of these as a KEEPALIVE that asks to be echoed), '
            'decoded by the codec model on the model side; text / ping / pong / empty websocket messages between two requests on the aiohttp server and client transports; malformed input on the byte-stream framing under arbitrary chunking is exercised by the C04 check')
    assumptions = []

    BYSTANDER = {'server': 1000003, 'client': 1000004}

    def cases(self, rng, tier):
        out = super().cases(rng, tier)
        for c in out:
            # a bystander: a well-formed fragmented request of the peer whose first fragment arrives before the script and whose last
            # fragment arrives after it ("requests on other streams - concurrent or subsequent - are still served correctly")
            c['bystander'] = rng.random() < 0.5
        for _ in range(40 if tier == 'quick' else 600):
            odd = [rng.choice([('text', b'hello'), ('text', b''), ('text', bytes(rng.getrandbits(8) for _ in range(12))), ('ping', b''), ('pong', b'x'), ('bin', b''), ('bin', b'\xee')])
                   for _ in range(rng.randint(1, 3))]
            out.append({'kind': 'ws', 'role': 'server', 'profile': 'ws', 'which': rng.choice(['aiohttp-server', 'aiohttp-client']), 'odd': [[k, d.hex()] for k, d in odd]})
        # peer-supplied composite / routing metadata of every shape, parsed by the routing layer inside the receiver task
        ROUTING = bytes([0x80 | 0x7e])        # well-known id of message/x.rsocket.routing.v0
        def entry(content):
            return ROUTING + len(content).to_bytes(3, 'big') + content
        for _ in range(80 if tier == 'quick' else 1500):
            hostile = []
            for _ in range(rng.randint(1, 3)):
                content = rng.choice([b'', b'\x00', b'\x09', b'\x05quick\x00', b'\x00\x05quick', b'\xff' + b'a' * 10, b'\x05quic', bytes(rng.getrandbits(8) for _ in range(rng.randint(1, 12)))])
                blob = rng.choice([entry(content), entry(content)[:-1], entry(content) + b'\x80', bytes(rng.getrandbits(8) for _ in range(rng.randint(0, 9))), b'\x7e' + entry(content)[1:]])
                hostile.append([rng.choice(['r', 'f', 's']), blob.hex()])
            out.append({'kind': 'routed', 'role': 'server', 'profile': 'routed', 'hostile': hostile})
        return out

    def run_impl(self, case):
        if case.get('kind') == 'ws':
            from harness import detloop
            return detloop.run(self._ws, case)
        if case.get('kind') == 'routed':
            from harness import detloop
            return detloop.run(self._routed, case)
        return super().run_impl(case)

    async def _routed(self, loop, case):
        # the routing layer parses peer-supplied composite metadata inside the receiver task: whatever the bytes, the request is answered
        # or rejected on its own stream, and a well-formed request behind it is served
        from harness import simnet
        from rsocket.rsocket_server import RSocketServer
        from rsocket.routing.request_router import RequestRouter
        from rsocket.routing.routing_request_handler import RoutingRequestHandler
        from rsocket.extensions.helpers import composite, route
        from rsocket.extensions.mimetypes import WellKnownMimeTypes
        from rsocket.helpers import create_future
        from rsocket.payload import Payload
        from rsocket import frame as F
        router = RequestRouter()

        @router.response('quick')
        async def quick(payload):
            return create_future(Payload(b'ok'))

        @router.fire_and_forget('note')
        async def note(payload):
            return None
        t = simnet.ScriptedTransport(loop)
        server = RSocketServer(t, handler_factory=lambda: RoutingRequestHandler(router))
        setup = F.SetupFrame()
        setup.stream_id, setup.keep_alive_milliseconds, setup.max_lifetime_milliseconds = 0, 100000, 1000000
        setup.metadata_encoding, setup.data_encoding = WellKnownMimeTypes.MESSAGE_RSOCKET_COMPOSITE_METADATA.value.name, b'application/octet-stream'
        setup.flags_lease = setup.flags_resume = False
        t.deliver(setup.serialize())
        await loop.settle()
        sid = 1
        for ty, hx in case['hostile']:
            fr = {'r': F.RequestResponseFrame, 'f': F.RequestFireAndForgetFrame, 's': F.RequestStreamFrame}[ty]()
            fr.stream_id, fr.data, fr.metadata = sid, b'x', bytes.fromhex(hx)
            if ty == 's':
                fr.initial_request_n = 1
            t.deliver(fr.serialize())
            sid += 2
        await loop.settle()
        probe = F.RequestResponseFrame()
        probe.stream_id, probe.data, probe.metadata = sid, b'p', bytes(composite(route('quick')))
        t.deliver(probe.serialize())
        await loop.settle()
        answered = sorted({e[2].stream_id for e in t.sent if isinstance(e[2], F.PayloadFrame)})
        errors_on = sorted({e[2].stream_id for e in t.sent if isinstance(e[2], F.ErrorFrame)})
        res = {'probe_sid': sid, 'answered': answered, 'errors_on': errors_on, 'receiver_alive': server._receiver_task is not None and not server._receiver_task.done(),
               'sender_alive': server._sender_task is not None and not server._sender_task.done()}
        try:
            await server.close()
        except Exception:
            pass
        return res

    async def _ws(self, loop, case):
        # a websocket peer is not bound to binary messages: text, ping / pong and close messages are peer input too. A real server on the
        # library's server-side websocket transports, fed by a fake websocket: requests before and after the odd message must be served
        import asyncio
        import aiohttp
        from rsocket.rsocket_server import RSocketServer
        from rsocket.request_handler import BaseRequestHandler
        from rsocket.helpers import create_future
        from rsocket.payload import Payload
        from rsocket import frame as F
        from harness.engine import build_frame
        sent = []

        class H(BaseRequestHandler):
            async def request_response(self, payload):
                return create_future(Payload(b'echo:' + bytes(payload.data or b'')))

        def req(sid, tag):
            return build_frame({'ty': 'REQUEST_RESPONSE', 'sid': sid, 'data': [tag]}).serialize()
        msgs = [('bin', build_frame({'ty': 'SETUP', 'sid': 0, 'data': [1]}).serialize()), ('bin', req(1, 11))]
        for kind, hx in case['odd']:
            msgs.append((kind, bytes.fromhex(hx)))
        msgs.append(('bin', req(3, 13)))
        gate = asyncio.Event()

        class Msg:
            def __init__(self, kind, data):
                self.type = {'bin': aiohttp.WSMsgType.BINARY, 'text': aiohttp.WSMsgType.TEXT, 'ping': aiohttp.WSMsgType.PING, 'pong': aiohttp.WSMsgType.PONG}[kind]
                self.data = data

        class WS:
            def __aiter__(self):
                async def it():
                    for kind, data in msgs:
                        yield Msg(kind, data.decode('latin-1') if kind == 'text' else data)
                    await gate.wait()          # the connection stays open
                return it()

            async def send_bytes(self, b):
                sent.append(bytes(b))

            async def close(self):
                gate.set()
        if case['which'] == 'aiohttp-server':
            from rsocket.transports.aiohttp_websocket import TransportAioHttpWebsocket
            t = TransportAioHttpWebsocket(WS())
            pump = asyncio.ensure_future(t.handle_incoming_ws_messages())
        else:
            from rsocket.transports.aiohttp_websocket import TransportAioHttpClient
            t = TransportAioHttpClient(websocket=WS())
            t._connection_ready.set()
            pump = asyncio.ensure_future(t.handle_incoming_ws_messages())
        server = RSocketServer(t, handler_factory=H)
        await loop.settle()
        await loop.advance(10)
        answered = {}
        for b in sent:
            fr = F.parse_or_ignore(b)
            if isinstance(fr, F.PayloadFrame):
                answered[fr.stream_id] = bytes(fr.data or b'').hex()
        res = {'answered': answered, 'pump_ended': pump.done(), 'pump_error': (type(pump.exception()).__name__ if pump.done() and not pump.cancelled() and pump.exception() else None),
               'receiver_alive': server._receiver_task is not None and not server._receiver_task.done()}
        gate.set()
        try:
            await server.close()
        except Exception:
            pass
        pump.cancel()
        return res

    def model_lines(self, case, obs):
        return [] if case.get('kind') in ('ws', 'routed') else super().model_lines(case, obs)

    def compare(self, case, obs, answers):
        return None if case.get('kind') in ('ws', 'routed') else super().compare(case, obs, answers)

    def nontrivial(self, case, obs):
        if case.get('kind') in ('ws', 'routed'):
            import json
            return json.dumps(case, sort_keys=True)
        return super().nontrivial(case, obs)

    def stats(self, case, obs):
        if case.get('kind') == 'ws':
            yield 'kind=websocket-non-binary-messages'
            return
        if case.get('kind') == 'routed':
            yield 'kind=hostile-routing-metadata'
            return
        yield from super().stats(case, obs)

    def shrink_candidates(self, case):
        if case.get('kind') == 'routed':
            for i in range(len(case['hostile'])):
                if len(case['hostile']) > 1:
                    yield dict(case, hostile=case['hostile'][:i] + case['hostile'][i + 1:])
            return
        if case.get('kind') == 'ws':
            for i in range(len(case['odd'])):
                if len(case['odd']) > 1:
                    yield dict(case, odd=case['odd'][:i] + case['odd'][i + 1:])
            return
        yield from super().shrink_candidates(case)

    def explicit(self, case, obs):
        if case.get('kind') in ('ws', 'routed'):
            return case
        return super().explicit(case, obs)

    async def prologue(self, loop, H, case):
        if case.get('bystander'):
            H.apply({'op': 'recv', 'frame': {'ty': 'REQUEST_RESPONSE', 'sid': self.BYSTANDER[case['role']], 'data': [240], 'follows': True}, 'beh': 'fr.239'})
            await loop.settle()

    async def epilogue(self, loop, H, case):
        if H.closed_seen:
            return {'closed': True}
        by = None
        if case.get('bystander'):
            n00 = len(H.t.sent)
            H.apply({'op': 'recv', 'frame': {'ty': 'PAYLOAD', 'sid': self.BYSTANDER[case['role']], 'data': [241], 'next': True, 'complete': True}, 'beh': 'fr.239'})
            await loop.settle()
            H.poll_futures()
            from harness.engine import simnet_tok as _tok
            by = [_tok(e) for e in H.t.sent[n00:]]
        if case['role'] == 'server':
            sid = 1000001
        else:
            sid = 1000002
        n0 = len(H.t.sent)
        H.apply({'op': 'recv', 'frame': {'ty': 'REQUEST_RESPONSE', 'sid': sid, 'data': [250]}, 'beh': 'fr.249'})
        await loop.settle()
        H.poll_futures()
        from harness.engine import simnet_tok
        got = [simnet_tok(e) for e in H.t.sent[n0:]]
        # ... and the endpoint's own requester half: a request the local application issues now is sent and its response delivered
        # (issued through the scripted entry points, so the model replays these steps too)
        from rsocket import frame as F
        n1 = len(H.t.sent)
        own = {'sent': False, 'result': None}
        if not getattr(H.ep, '_honor_lease', False):
            H.apply({'op': 'RR', 'data': [248]})
            await loop.settle()
            fut = H.objs[-1]['fut']
            req = [e for e in H.t.sent[n1:] if isinstance(e[2], F.RequestResponseFrame)]
            if req:
                own['sent'] = True
                own['sid'] = req[-1][2].stream_id
                H.apply({'op': 'recv', 'frame': {'ty': 'PAYLOAD', 'sid': req[-1][2].stream_id, 'data': [247], 'complete': True, 'next': True}, 'beh': 'k'})
                await loop.settle()
                if fut.done() and not fut.cancelled() and fut.exception() is None:
                    own['result'] = list(fut.result().data or b'')
            H.poll_futures()
        else:
            own = None
        return {'probe_sid': sid, 'probe_wire': got, 'closed': False, 'own_probe': own, 'bystander_wire': by,
                'sender_alive': H.ep._sender_task is not None and not H.ep._sender_task.done(),
                'receiver_alive': H.ep._receiver_task is not None and not H.ep._receiver_task.done()}

    def oracle(self, case, obs):
        fails = []
        if case.get('kind') == 'routed':
            if obs['probe_sid'] not in obs['answered']:
                fails.append({'signature': 'request-not-served-after-hostile-routing-metadata', 'what': 'routed requests with metadata %s, then a well-formed routed request on stream %d: it was not answered (answered %s, errors on %s, receiver alive %s, sender alive %s)' % (
                    case['hostile'], obs['probe_sid'], obs['answered'], obs['errors_on'], obs['receiver_alive'], obs['sender_alive'])})
            return fails
        if case.get('kind') == 'ws':
            want = {'1': '6563686f3a0b', '3': '6563686f3a0d'}
            got = {str(k): v for k, v in obs['answered'].items()}
            if got != want:
                fails.append({'signature': 'request-not-served-after-non-binary-websocket-message', 'what': '%s transport, messages %s between two requests: answered %s, expected both (pump ended: %s %s; receiver alive: %s)' % (
                    case['which'], case['odd'], got, obs['pump_ended'], obs['pump_error'], obs['receiver_alive'])})
            return fails
        ex = obs['extra']
        ended_by_script = any(s.get('op') in ('lost', 'close') for g in obs.get('script', []) for s in g)
        if ex and ex['closed'] and not ended_by_script:
            fails.append({'signature': 'connection-taken-down', 'what': 'nothing in the script ended the connection, yet the endpoint closed it (on_close was delivered): input or failing application code took it down'})
        if ex and not ex['closed']:
            want = 'S:PAYLOAD:%d:0110:0:0:249' % ex['probe_sid']
            if want not in ex['probe_wire']:
                fails.append({'signature': 'probe-not-served', 'what': 'after the script a fresh request-response on stream %d was not answered (wire: %s)' % (ex['probe_sid'], ex['probe_wire'][:4])})
            if ex.get('bystander_wire') is not None:
                bsid = self.BYSTANDER[case['role']]
                if bsid not in _peer_touched_sids(obs, skip_first=True) and ('S:PAYLOAD:%d:0110:0:0:239' % bsid) not in ex['bystander_wire']:
                    fails.append({'signature': 'concurrent-request-not-served', 'what': 'a fragmented request-response on stream %d was begun before the script and finished after it (240 + 241): it was not answered (wire: %s)' % (bsid, ex['bystander_wire'][:3])})
            own = ex.get('own_probe')
            if own is not None and own.get('sid') in _peer_touched_sids(obs):
                # the peer had already sent frames on the very id this request was later given (an id of the endpoint's own parity,
                # not yet allocated): whatever that does is confined to "the offending stream"; the property speaks of *other* streams
                own = None
            if own is not None and not own['sent']:
                fails.append({'signature': 'own-request-not-sent', 'what': 'after the script a request-response issued by the local application was never put on the wire: the requester half of the connection is wedged'})
            elif own is not None and own['result'] is None:
                fails.append({'signature': 'own-request-not-answered', 'what': 'after the script the response to a request-response issued by the local application was not delivered to the caller (got %s)' % own['result']})
            if not ex['sender_alive'] or not ex['receiver_alive']:
                fails.append({'signature': 'task-died', 'what': 'sender alive=%s receiver alive=%s after hostile input' % (ex['sender_alive'], ex['receiver_alive'])})
        # locality: an ERROR frame emitted while processing a received frame is on that frame's stream
        for idx, (m, outs) in enumerate(obs['steps']):
            if m.startswith('RECV:'):
                sid = int(m.split(':')[2])
                for t in outs:
                    if t.startswith('S:ERROR:'):
                        f = parse_send(t)
                        if f['sid'] != sid:
                            fails.append({'signature': 'error-on-other-stream', 'what': 'processing %s produced %s' % (m, t)})
        # a message that is not a well-formed request frame must not reach a request handler (independent structural check:
        # header, the type's fixed fields, and a metadata length that fits)
        for idx, (m, outs) in enumerate(obs['steps']):
            if m.startswith('RAW:'):
                h = m.split(':')[1]
                b = bytes.fromhex(h) if h != '-' else b''
                if malformed_request(b) and any(t.startswith('HC:REQUEST_') for t in outs):
                    fails.append({'signature': 'malformed-frame-dispatched', 'what': 'the undecodable message %s was handed to a request handler: %s' % (h, ' '.join(outs)[:120])})
        for i, m, t in flat(obs):
            if t.startswith('RA:EXC'):
                fails.append({'signature': 'exception-reached-caller', 'what': 'step %d %s: %s' % (i, m, t)})
        return fails


def _peer_touched_sids(obs, skip_first=False):
    out = set()
    for i, (m, _) in enumerate(obs['steps']):
        if m == 'RR:248':
            break
        if skip_first and (i == 0 or m.startswith('RECV:PAYLOAD:100000') and m.endswith(':241:fr.239')):
            continue
        if m.startswith('RECV:'):
            out.add(int(m.split(':')[2]))
        elif m.startswith('RAW:'):
            h = m.split(':')[1]
            b = bytes.fromhex(h) if h != '-' else b''
            if len(b) >= 4:
                out.add(int.from_bytes(b[:4], 'big') & 0x7fffffff)
    return out


PROP = C12()
