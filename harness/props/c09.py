"""C09 — cancellation stops the stream at both ends (engine part: requesters/responders with recording
application objects; the library stream sources are exercised by the C06/C09 source harness)."""
from harness.engineprop import EngineProp, flat, parse_send
from harness.props.c11 import histories


class C09(EngineProp):
    id = 'C09'
    lean_modules = ['RSocketModel.Props.C09']
    profiles = ['cancel', 'legal']
    claimed = False   # until the Lean theorems land
    technique = 'Lean 4 proof (invariants of the engine model around subCancel/futCancel/recv CANCEL) + event-level differential correspondence'
    level_text = 'see DESIGN.md §5 C09'
    level_note = 'Trusted: as C07; generator close() semantics of CPython for the library sources.'
    design_ref = '§5 C09'
    rule = 'as C07 with cancellation-heavy scripts: cancel injected at any position incl. "request and cancel in one read", "cancel racing completion", "response racing cancel"'
    assumptions = ['the peer is protocol-legal']

    def oracle(self, case, obs):
        fails = []
        steps = obs['steps']
        h, stim = histories(obs)
        sends = [(i, parse_send(t)) for i, m, t in flat(obs) if t.startswith('S:')]
        for oid, kind in enumerate(obs['kinds']):
            sid = obs['sids'][oid]
            ev = h.get(oid, [])
            st = stim.get(oid, [])
            cancels = [i for i, m in st if m.startswith('SCN') or m.startswith('FCN')]
            if not cancels:
                continue
            c0 = cancels[0]
            created = [i for i, m, t in ev if t.startswith('CR:')]
            if created and any(t.startswith('RA:') for t in steps[created[0]][1]):
                continue
            before = [t for i, m, t in ev if i < c0]
            after = [(i, t) for i, m, t in ev if i > c0 or (i == c0 and False)]
            lost_before = any(m in ('LOST', 'STOP') for m, _ in steps[:c0])
            if kind in ('stReq', 'chReq', 'chResp'):
                subscribed = any(t.startswith('OS') for t in before)
                term = any(t.startswith('OC') or t.startswith('OE') or (t.startswith('ON') and t.endswith(':1')) for t in before)
                if kind == 'chResp':
                    subscribed = any(t.startswith('OS') for t in before)
                if not subscribed or term or lost_before:
                    continue      # not pending any more: out of the property's scope
                n = len([1 for i, f in sends if f['ty'] == 'CANCEL' and f['sid'] == sid])
                if n != len(cancels) or (len(cancels) == 1 and n != 1):
                    if len(cancels) == 1:
                        fails.append({'signature': 'cancel-frame-count:' + kind, 'what': '%s %d cancelled once while pending, %d CANCEL frames on stream %d' % (kind, oid, n, sid)})
                late = [t for i, t in after if t[:2] in ('ON', 'OC', 'OE', 'OS')]
                if late:
                    fails.append({'signature': 'delivery-after-cancel:' + kind, 'what': '%s %d received %s after it cancelled' % (kind, oid, late[:3])})
            if kind == 'rrReq':
                done = any(t.startswith('FR') or t.startswith('FE') for t in before)
                if done or lost_before:
                    continue
                late = [t for i, t in after if t[:2] in ('FR', 'FE')]
                if late:
                    fails.append({'signature': 'delivery-after-cancel:rrReq', 'what': 'request-response %d resolved (%s) after the caller cancelled it' % (oid, late)})
                cb = [i for i, m in st if m.startswith('CBQ') and i > c0]
                n = len([1 for i, f in sends if f['ty'] == 'CANCEL' and f['sid'] == sid])
                if cb:
                    between = [m for m, _ in steps[c0:cb[0]]]
                    raced = any(m.startswith('RECV:PAYLOAD:%d:' % sid) or m.startswith('RECV:ERROR:%d:' % sid) or m in ('LOST', 'STOP') for m in between)
                    if n > 1 or (n != 1 and not raced):
                        fails.append({'signature': 'cancel-frame-count:rrReq', 'what': 'request-response %d cancelled while pending: %d CANCEL frames on stream %d' % (oid, n, sid)})
        # peer CANCEL stops the producer
        for idx, (m, outs) in enumerate(steps):
            if m.startswith('RECV:CANCEL:'):
                sid = int(m.split(':')[2])
                for oid, kind in enumerate(obs['kinds']):
                    if obs['sids'][oid] != sid or kind not in ('stResp', 'rrResp', 'chResp', 'chReq'):
                        continue
                    ev = h.get(oid, [])
                    st = stim.get(oid, [])
                    created = [i for i, mm, t in ev if t.startswith('CR:')]
                    if not created or created[0] >= idx:
                        continue
                    if any(mm in ('LOST', 'STOP') for mm, _ in steps[:idx]):
                        continue
                    already = any(t.startswith('PX') or t.startswith('HX') for i, mm, t in ev if i < idx)
                    if kind == 'rrResp':
                        ready = steps[created[0]][0].split(':')[-1].startswith('fr') or steps[created[0]][0].endswith(':ff')
                        resolved = ready or any(mm.startswith('HR') or mm.startswith('HF') for i, mm in st if i < idx)
                        if not resolved and not already and ('HX:%d' % oid) not in outs:
                            fails.append({'signature': 'producer-survives-peer-cancel:rrResp', 'what': 'CANCEL received for stream %d but the handler future of responder %d was not cancelled' % (sid, oid)})
                    else:
                        has_pub = any(t.startswith('PS') for i, mm, t in ev if i < idx)
                        pub_done = any(mm.startswith('PC') or mm.startswith('PE') or (mm.startswith('PN') and mm.endswith(':1')) for i, mm in st if i < idx)
                        if has_pub and not pub_done and not already and ('PX:%d' % oid) not in outs:
                            fails.append({'signature': 'producer-survives-peer-cancel:' + kind, 'what': 'CANCEL received for stream %d but the publisher of %s %d was not cancelled' % (sid, kind, oid)})
        return fails


PROP = C09()
