"""C09 — cancellation stops the stream at both ends (engine part: requesters/responders with recording
application objects; the library stream sources are exercised by the C06/C09 source harness)."""
from harness.engineprop import EngineProp, flat, parse_send
from harness.props.c11 import histories


class C09(EngineProp):
    id = 'C09'
    lean_modules = ['RSocketModel.Props.C09']
    profiles = ['cancel', 'legal']
    technique = 'Lean 4 proof (invariants of the engine model around subCancel/futCancel/recv CANCEL) + event-level differential correspondence'
    level_text = ('kernel-checked on the engine model: c09_subscription_cancel_sends_one_cancel, c09_future_cancel_sends_one_cancel (one CANCEL per cancellation, second callback run emits nothing), '
                  'c09_cancel_only_from_cancellation (no other entry point ever emits CANCEL), c09_nothing_after_subscription_cancel / c09_nothing_after_future_cancel (no signal to the canceller in any '
                  'continuation: in-flight frames, loss, anything), c09_peer_cancel_stops_producer (publisher subscription / handler future cancelled, stream unregistered), c09_late_frames_dropped, '
                  'c09_cancel_is_local, c09_peer_cancel_is_local; on the credit model of the library sources: c09_source_cancel_stops_production (nothing more delivered or taken from the generator '
                  'after cancel(), for every schedule). Correspondence: cancellation-heavy scripts against the real endpoint (event-level), the four library sources driven directly with cancel at any '
                  'point, CANCEL injected on the wire 0..5 ticks after the request, and Rx / ReactiveX result observables disposed at any moment incl. the subscribing loop iteration.')
    level_note = 'Trusted: as C07; generator close() semantics of CPython for the library sources.'
    design_ref = '§5 C09'
    rule = ('as C07 with cancellation-heavy scripts: cancel injected at any position incl. "request and cancel in one read", "cancel racing completion", "response racing cancel"; '
            'cancel() on each of the library\'s stream sources; CANCEL frames against a real server; disposal of Rx result observables; and the library\'s own canceller - a CollectorSubscriber '
            '(limit rate 1..5, limit count a multiple of it or not) on a real client against a real server serving a generator source, every frame delivered in a loop turn of its own: '
            'one CANCEL, nothing collected beyond the limit, ' +
            'plus the two-endpoint scenario of C10 with requests of 0..6 fragments cancelled at once or after a few deliveries (the CANCEL must reach the wire after the last fragment of its request; no producer left alive on the peer), ' +
            ' the application\'s generator not advanced after the source was cancelled')
    assumptions = ['the peer is protocol-legal']

    def cases(self, rng, tier):
        from harness import sources
        out = super().cases(rng, tier)
        n = 600 if tier == 'quick' else 8000
        for _ in range(n):
            kind = rng.choice(sources.KINDS)
            steps = []
            for _ in range(rng.randint(0, 3)):
                steps.append(['r', rng.choice([1, 2, 5])])
                steps.append(rng.choice([['t', 1], ['t', 2], ['q'], ['t', 0]]))
            steps.append(['x'])      # (a subscriber does not request after it cancelled: reactive-streams rule 3.6)
            out.append({'mode': 'source', 'role': 'server', 'profile': 'source-cancel', 'kind': kind, 'count': rng.choice([0, 2, 6]),
                        'flagged': rng.random() < 0.4 and kind in ('gen', 'agen'), 'failing': False, 'steps': steps})
        # disposing an Rx / ReactiveX result observable is a cancellation too (rsocket/reactivex, rsocket/rx_support: from_rsocket_publisher)
        for _ in range(n // 3):
            count = rng.choice([0, 1, 2, 5])
            c20 = {'ver': rng.choice(['rx3', 'rx4']), 'kind': 'cstream', 'limit': rng.choice([1, 2, 3, 2 ** 31 - 1]), 'count': count,
                   'end': rng.choice(['complete', 'flag', 'error'] if count else ['complete', 'error']), 'burst': rng.choice([1, 2, 5]),
                   'dispose_after': rng.randint(0, max(0, count)), 'channel': rng.random() < 0.3, 'dispose_now': rng.random() < 0.4}
            out.append({'mode': 'rx-dispose', 'role': 'client', 'profile': 'rx-dispose', 'kind': c20['ver'], 'c20': c20})
        for _ in range(n // 2):
            out.append({'mode': 'wire-cancel', 'role': 'server', 'profile': 'source-cancel', 'kind': rng.choice(sources.KINDS), 'count': rng.choice([0, 3, 6]),
                        'channel': rng.random() < 0.4, 'n0': rng.choice([1, 2, 5]), 'ticks': rng.choice([0, 0, 1, 2, 5])})
        # the library's own canceller: a CollectorSubscriber that cancels once it has `limit_count` elements, on a real client talking to a
        # real server whose handler serves one of the library's sources; every frame is delivered in a loop turn of its own
        for _ in range(150 if tier == 'quick' else 3000):
            L = rng.choice([1, 2, 3, 5])
            out.append({'mode': 'collector-pair', 'role': 'both', 'profile': 'collector-pair', 'kind': rng.choice(['gen', 'agen']), 'L': L,
                        'C': rng.choice([L, 2 * L, 2 * L, 3 * L, L + 1, 1, 4]), 'count': rng.choice([12, 20]), 'channel': rng.random() < 0.7,
                        'open_upstream': rng.random() < 0.7, 'seed': rng.getrandbits(30)})
        # a request-response served through the routing layer (RoutingRequestHandler + RequestRouter), its handler's future still pending
        for _ in range(40 if tier == 'quick' else 600):
            out.append({'mode': 'routed-cancel', 'role': 'server', 'profile': 'routed-cancel', 'kind': 'routed', 'ticks': rng.choice([0, 1, 3]),
                        'result': rng.choice(['future', 'future', 'task'])})
        # two real endpoints (the pair scenario of C10): requests of 0..6 fragments cancelled at once or after a few deliveries; judged here for
        # "the CANCEL reaches the peer after the whole request, and the peer's producer is cancelled"
        for _ in range(200 if tier == 'quick' else 4000):
            plans = [{'kind': rng.choice(['rr', 'stream', 'channel']), 'size': rng.choice([0, 30, 200, 400]), 'n0': rng.choice([1, 2, 2 ** 31 - 1]),
                      'cancel': rng.choice([0, 0, 0, 1, 2, 3])} for _ in range(rng.randint(1, 3))]
            out.append({'mode': 'pair', 'role': 'both', 'profile': 'pair-cancel', 'kind': 'pair', 'seed': rng.getrandbits(32), 'tcp': False, 'frag': rng.choice([64, 64, None]), 'plans': plans})
        return out

    def run_impl(self, case):
        from harness import detloop, sources
        if case.get('mode') == 'pair':
            from harness.props import c10
            return detloop.run(c10.pair_scenario, case)
        if case.get('mode') == 'collector-pair':
            return detloop.run(self._collector_pair, case)
        if case.get('mode') == 'routed-cancel':
            return detloop.run(self._routed_cancel, case)
        if case.get('mode') == 'source':
            return detloop.run(sources.drive, case)
        if case.get('mode') == 'wire-cancel':
            return detloop.run(self._wire_cancel, case)
        if case.get('mode') == 'rx-dispose':
            from harness.props import c20
            return c20.PROP.run_impl(case['c20'])
        return super().run_impl(case)

    async def _routed_cancel(self, loop, case):
        import asyncio
        from harness import simnet
        from rsocket.rsocket_server import RSocketServer
        from rsocket.routing.request_router import RequestRouter
        from rsocket.routing.routing_request_handler import RoutingRequestHandler
        from rsocket.extensions.helpers import composite, route
        from rsocket.extensions.mimetypes import WellKnownMimeTypes
        from rsocket.helpers import create_future
        from rsocket.payload import Payload
        from rsocket import frame as F
        router = RequestRouter()
        pending = []

        @router.response('slow')
        async def slow(payload):
            if case['result'] == 'task':
                f = asyncio.ensure_future(asyncio.sleep(3600))
            else:
                f = asyncio.get_event_loop().create_future()
            pending.append(f)
            return f

        @router.response('quick')
        async def quick(payload):
            return create_future(Payload(b'ok'))
        t = simnet.ScriptedTransport(loop)
        server = RSocketServer(t, handler_factory=lambda: RoutingRequestHandler(router))

        def frame(cls, sid, **kw):
            fr = cls()
            fr.stream_id = sid
            for k, v in kw.items():
                setattr(fr, k, v)
            return fr.serialize()
        setup = F.SetupFrame()
        setup.stream_id, setup.keep_alive_milliseconds, setup.max_lifetime_milliseconds = 0, 100000, 1000000
        setup.metadata_encoding, setup.data_encoding = WellKnownMimeTypes.MESSAGE_RSOCKET_COMPOSITE_METADATA.value.name, b'application/octet-stream'
        setup.flags_lease = setup.flags_resume = False
        t.deliver(setup.serialize())
        await loop.settle()
        t.deliver(frame(F.RequestResponseFrame, 1, data=b'q', metadata=bytes(composite(route('slow')))))
        for _ in range(case['ticks']):
            await asyncio.sleep(0)
        await loop.settle()
        t.deliver(frame(F.CancelFrame, 1))
        t.deliver(frame(F.RequestResponseFrame, 3, data=b'b', metadata=bytes(composite(route('quick')))))
        await loop.settle()
        await loop.advance(50)
        answered = sorted({e[2].stream_id for e in t.sent if isinstance(e[2], F.PayloadFrame)})
        res = {'handler_called': len(pending), 'handler_future': ('none' if not pending else 'cancelled' if pending[0].cancelled() else 'done' if pending[0].done() else 'pending'),
               'answered': answered, 'errors': [e[1][:60] for e in t.sent if isinstance(e[2], F.ErrorFrame)], 'table': sorted(server._stream_control._streams.keys())}
        for f in pending:
            f.cancel()
        try:
            await server.close()
        except Exception:
            pass
        return res

    async def _collector_pair(self, loop, case):
        import asyncio
        import random
        from datetime import timedelta
        from harness import sources, link as LK
        from rsocket.rsocket_client import RSocketClient
        from rsocket.rsocket_server import RSocketServer
        from rsocket.helpers import single_transport_provider
        from rsocket.request_handler import BaseRequestHandler
        from rsocket.awaitable.collector_subscriber import CollectorSubscriber
        from rsocket.payload import Payload
        from rsocket import frame as F
        rng = random.Random(case['seed'])
        pulls, cancelled = [], []
        src = sources.make_source(case['kind'], case['count'], False, False, on_cancel=lambda: cancelled.append(len(pulls)), pulls=pulls)

        class H(BaseRequestHandler):
            async def request_stream(self, payload):
                return src

            async def request_channel(self, payload):
                return src, (UpSub() if case['open_upstream'] else None)

        class UpSub:
            # the responder's application listens to the requester's direction (and never asks for anything)
            def on_subscribe(self, s): pass
            def on_next(self, v, is_complete=False): pass
            def on_complete(self): pass
            def on_error(self, e): pass

        class IdlePub:
            # the requester's own sending direction stays open: the responder keeps the channel registered after the CANCEL
            def subscribe(self, subscriber):
                class S:
                    def request(self, n): pass
                    def cancel(self): pass
                subscriber.on_subscribe(S())
        lk = LK.Link(loop, False)
        server = RSocketServer(lk.ends[1], handler_factory=H)
        client = RSocketClient(single_transport_provider(lk.ends[0]), keep_alive_period=timedelta(seconds=100000), max_lifetime_period=timedelta(seconds=1000000))
        await client.connect()
        await loop.settle()
        while await lk.deliver(0, rng):
            await loop.settle()
        col = CollectorSubscriber(limit_rate=case['L'], limit_count=case['C'])
        if case['channel']:
            client.request_channel(Payload(b'q'), publisher=IdlePub() if case['open_upstream'] else None).initial_request_n(case['L']).subscribe(col)
        else:
            client.request_stream(Payload(b'q')).initial_request_n(case['L']).subscribe(col)
        task = asyncio.ensure_future(col.run())
        await loop.settle()
        pulls_at_cancel = None
        for _ in range(400):
            did = False
            for side in (0, 1):
                if await lk.deliver(side, rng):
                    did = True
                    await loop.settle()      # one frame per loop turn
                    if pulls_at_cancel is None and cancelled:
                        pulls_at_cancel = cancelled[0]
            if not did:
                break
        sent = lk.sent_frames[0]
        idx = next((i for i, f in enumerate(sent) if isinstance(f, F.CancelFrame)), None)
        after = [type(f).__name__ for f in sent[idx + 1:] if f.stream_id == sent[idx].stream_id] if idx is not None else []
        res = {'collected': len(col.values), 'done': task.done(), 'cancels': len([f for f in sent if isinstance(f, F.CancelFrame)]), 'frames_after_cancel': after,
               'publisher_cancelled': len(cancelled), 'pulls_at_cancel': pulls_at_cancel, 'pulls_total': len(pulls),
               'elements_after_cancel': len([f for f in lk.sent_frames[1] if isinstance(f, F.PayloadFrame) and f.flags_next]) }
        if not task.done():
            task.cancel()
        try:
            await client.close()
            await server.close()
        except Exception:
            pass
        return res

    async def _wire_cancel(self, loop, case):
        import asyncio
        from harness import sources, simnet, engine
        from rsocket.rsocket_server import RSocketServer
        from rsocket.request_handler import BaseRequestHandler
        from rsocket import frame as F
        cancelled = []
        src = sources.make_source(case['kind'], case['count'], False, False, on_cancel=lambda: cancelled.append(1))

        class H(BaseRequestHandler):
            async def request_stream(self, payload):
                return src

            async def request_channel(self, payload):
                return src, None
        t = simnet.ScriptedTransport(loop)
        server = RSocketServer(t, handler_factory=H)
        await loop.settle()
        t.deliver(engine.build_frame({'ty': 'REQUEST_CHANNEL' if case['channel'] else 'REQUEST_STREAM', 'sid': 1, 'n': case['n0'], 'data': [9], 'complete': True}).serialize())
        for _ in range(case['ticks']):
            await asyncio.sleep(0)
        t.deliver(engine.build_frame({'ty': 'CANCEL', 'sid': 1}).serialize())
        # a bystander stream on the same connection
        t.deliver(engine.build_frame({'ty': 'REQUEST_FNF', 'sid': 3, 'data': [1]}).serialize())
        await loop.settle()
        n_after = len(t.sent)
        t.deliver(engine.build_frame({'ty': 'REQUEST_N', 'sid': 1, 'n': 5}).serialize())
        await loop.settle()
        errs = [e[1] for e in t.sent if isinstance(e[2], F.ErrorFrame)]
        res = {'errors': errs, 'table': sorted(server._stream_control._streams.keys()), 'late_frames': len(t.sent) - n_after,
               'on_cancel': len(cancelled), 'tasks_running': len([x for x in (getattr(src, '_payload_feeder', None), getattr(src, '_n_feeder', None)) if x is not None and not x.done()]),
               'receiver_alive': not server._receiver_task.done()}
        await server.close()
        return res

    def model_lines(self, case, obs):
        if case.get('mode') in ('source', 'wire-cancel', 'rx-dispose', 'collector-pair', 'pair', 'routed-cancel'):
            return []
        return super().model_lines(case, obs)

    def compare(self, case, obs, answers):
        if case.get('mode') in ('source', 'wire-cancel', 'rx-dispose', 'collector-pair', 'pair', 'routed-cancel'):
            return None
        return super().compare(case, obs, answers)

    def nontrivial(self, case, obs):
        if case.get('mode') in ('source', 'wire-cancel', 'rx-dispose', 'collector-pair', 'pair', 'routed-cancel'):
            import json
            return json.dumps(case, sort_keys=True)
        return super().nontrivial(case, obs)

    def stats(self, case, obs):
        if case.get('mode') in ('source', 'wire-cancel', 'rx-dispose', 'collector-pair', 'pair', 'routed-cancel'):
            yield 'mode=' + case['mode']
            yield 'kind=' + case['kind']
            return
        yield from super().stats(case, obs)

    def shrink_candidates(self, case):
        if case.get('mode') == 'source':
            st = case['steps']
            for i in range(len(st)):
                if st[i][0] != 'x':
                    yield dict(case, steps=st[:i] + st[i + 1:])
            return
        if case.get('mode') == 'wire-cancel':
            if case['ticks']:
                yield dict(case, ticks=case['ticks'] - 1)
            return
        if case.get('mode') in ('rx-dispose', 'collector-pair', 'routed-cancel'):
            return
        if case.get('mode') == 'pair':
            pl = case['plans']
            for i in range(len(pl)):
                if len(pl) > 1:
                    yield dict(case, plans=pl[:i] + pl[i + 1:])
            return
        yield from super().shrink_candidates(case)

    def _source_oracle(self, case, obs):
        fails = []
        k = case['kind']
        if case['mode'] == 'rx-dispose':
            from harness.props import c20
            return [f for f in c20.PROP.oracle(case['c20'], obs) if f['signature'].split(':')[0] in ('dispose-does-not-cancel', 'signals-after-dispose')]
        if case['mode'] == 'routed-cancel':
            if obs['handler_future'] != 'cancelled':
                fails.append({'signature': 'producer-survives-peer-cancel:routed', 'what': 'request-response served through RoutingRequestHandler (route handler returned a pending %s): after CANCEL the handler future is %s' % (case['result'], obs['handler_future'])})
            if 3 not in obs['answered']:
                fails.append({'signature': 'cancel-disturbs-other-stream:routed', 'what': 'a request on another stream sent right behind the CANCEL was not answered (answered: %s, errors: %s)' % (obs['answered'], obs['errors'])})
            if 1 in obs['table']:
                fails.append({'signature': 'cancelled-stream-still-registered:routed', 'what': 'stream 1 still registered after CANCEL'})
            return fails
        if case['mode'] == 'pair':
            wire = obs.get('client_wire') or []
            last_req, cancel_at = {}, {}
            open_req = set()
            for i, (sid, ty, follows) in enumerate(wire):
                if ty in ('RequestResponseFrame', 'RequestStreamFrame', 'RequestChannelFrame'):
                    last_req[sid] = i
                    if follows:
                        open_req.add(sid)
                elif ty == 'PayloadFrame' and sid in open_req:
                    last_req[sid] = i
                    if not follows:
                        open_req.discard(sid)
                elif ty == 'CancelFrame':
                    cancel_at.setdefault(sid, i)
            for sid, ic in cancel_at.items():
                if sid in open_req or (sid in last_req and ic < last_req[sid]):
                    fails.append({'signature': 'cancel-overtakes-request', 'what': 'CANCEL for stream %d reached the transport (wire position %d) before the last fragment of the request frame of that stream (%s): the peer drops it and its producer is never cancelled' % (
                        sid, ic, 'position %d' % last_req[sid] if sid not in open_req else 'never completed')})
            if not obs['unfinished'] and all(pl['cancel'] is not None for pl in case['plans']) and (obs['stuck_publishers'] or obs.get('pending_handler_futures')):
                fails.append({'signature': 'producer-survives-cancel:pair', 'what': 'every interaction was cancelled by its requester, yet at quiescence %d publishers are still live and %d handler futures still pending on the peer' % (
                    obs['stuck_publishers'], obs.get('pending_handler_futures', 0))})
            return fails
        if case['mode'] == 'collector-pair':
            C, n = case['C'], case['count']
            how = 'CollectorSubscriber(limit_rate=%d, limit_count=%d) on a request-%s served by a %s source of %d elements' % (case['L'], C, 'channel' if case['channel'] else 'stream', k, n)
            if C > n:
                return fails        # the source is exhausted first: nothing is cancelled
            if obs['cancels'] != 1:
                fails.append({'signature': 'collector-cancel-count', 'what': '%s: %d CANCEL frames' % (how, obs['cancels'])})
                return fails
            if obs['collected'] > C:
                fails.append({'signature': 'delivery-after-cancel:collector', 'what': '%s: %d elements collected' % (how, obs['collected'])})
            if obs['publisher_cancelled'] < 1:
                fails.append({'signature': 'publisher-not-cancelled:collector', 'what': '%s: the source was never cancelled' % how})
            elif obs['pulls_total'] > obs['pulls_at_cancel'] or obs['publisher_cancelled'] > 1:
                fails.append({'signature': 'production-resumes-after-cancel', 'what': '%s: the application\'s generator had yielded %d elements when the source was cancelled and %d in the end (source cancelled %d times; canceller\'s frames after its CANCEL: %s)' % (
                    how, obs['pulls_at_cancel'], obs['pulls_total'], obs['publisher_cancelled'], obs['frames_after_cancel'])})
            return fails
        if case['mode'] == 'source':
            if obs['errors']:
                fails.append({'signature': 'source-cancel-raises:' + k, 'what': 'cancel() on the %s source raised: %s (steps %s)' % (k, obs['errors'], case['steps'])})
            late = [p for p in obs['points'] if p[0] == 'cancelled' and p[1] > 0]
            if late:
                fails.append({'signature': 'source-produces-after-cancel:' + k, 'what': '%d signals delivered after cancel()' % late[0][1]})
            if obs['tasks_running'] or (obs.get('tasks_alive') and any(p[0] == 'cancelled' for p in obs['points'])):
                fails.append({'signature': 'source-task-survives-cancel:' + k, 'what': '%d feeder tasks still running after cancel()' % max(obs['tasks_running'], obs.get('tasks_alive', 0))})
            if obs.get('pulled_after_cancel'):
                fails.append({'signature': 'source-pulled-after-cancel:' + k, 'what': '%d more elements were taken out of the application\'s generator after cancel()' % obs['pulled_after_cancel']})
            if k in ('gen', 'agen') and obs['on_cancel'] != 1 and not obs['errors']:
                fails.append({'signature': 'on-cancel-callback-count:' + k, 'what': 'on_cancel invoked %d times' % obs['on_cancel']})
        else:
            if obs['errors']:
                fails.append({'signature': 'cancelled-stream-answers-error:' + k, 'what': 'request and CANCEL %d iterations apart: the responder emitted %s' % (case['ticks'], obs['errors'])})
            if 1 in obs['table']:
                fails.append({'signature': 'cancelled-stream-still-registered:' + k, 'what': 'stream 1 still registered after CANCEL'})
            if obs['late_frames']:
                fails.append({'signature': 'frames-after-cancel:' + k, 'what': '%d frames emitted after the CANCEL was processed' % obs['late_frames']})
            if obs['tasks_running']:
                fails.append({'signature': 'source-task-survives-cancel:' + k, 'what': 'feeder tasks still running after CANCEL'})
            if not obs['receiver_alive']:
                fails.append({'signature': 'receiver-died', 'what': 'the receiver task ended'})
        return fails

    def oracle(self, case, obs):
        if case.get('mode') in ('source', 'wire-cancel', 'rx-dispose', 'collector-pair', 'pair', 'routed-cancel'):
            return self._source_oracle(case, obs)
        fails = []
        steps = obs['steps']
        h, stim = histories(obs)
        sends = [(i, parse_send(t)) for i, m, t in flat(obs) if t.startswith('S:')]
        for oid, kind in enumerate(obs['kinds']):
            sid = obs['sids'][oid]
            ev = h.get(oid, [])
            st = stim.get(oid, [])
            cancels = [i for i, m in st if m.startswith('SCN') or m.startswith('FCN')]
            if not cancels:
                continue
            c0 = cancels[0]
            created = [i for i, m, t in ev if t.startswith('CR:')]
            if created and any(t.startswith('RA:') for t in steps[created[0]][1]):
                continue
            before = [t for i, m, t in ev if i < c0]
            after = [(i, t) for i, m, t in ev if i > c0 or (i == c0 and False)]
            lost_before = any(m in ('LOST', 'STOP') for m, _ in steps[:c0])
            if kind in ('stReq', 'chReq', 'chResp'):
                subscribed = any(t.startswith('OS') for t in before)
                term = any(t.startswith('OC') or t.startswith('OE') or (t.startswith('ON') and t.endswith(':1')) for t in before)
                if kind == 'chResp':
                    subscribed = any(t.startswith('OS') for t in before)
                if not subscribed or term or lost_before:
                    continue      # not pending any more: out of the property's scope
                n = len([1 for i, f in sends if f['ty'] == 'CANCEL' and f['sid'] == sid])
                if n != len(cancels) or (len(cancels) == 1 and n != 1):
                    if len(cancels) == 1:
                        fails.append({'signature': 'cancel-frame-count:' + kind, 'what': '%s %d cancelled once while pending, %d CANCEL frames on stream %d' % (kind, oid, n, sid)})
                late = [t for i, t in after if t[:2] in ('ON', 'OC', 'OE', 'OS')]
                if late:
                    fails.append({'signature': 'delivery-after-cancel:' + kind, 'what': '%s %d received %s after it cancelled' % (kind, oid, late[:3])})
            if kind == 'rrReq':
                done = any(t.startswith('FR') or t.startswith('FE') for t in before)
                if done or lost_before:
                    continue
                late = [t for i, t in after if t[:2] in ('FR', 'FE')]
                if late:
                    fails.append({'signature': 'delivery-after-cancel:rrReq', 'what': 'request-response %d resolved (%s) after the caller cancelled it' % (oid, late)})
                cb = [i for i, m in st if m.startswith('CBQ') and i > c0]
                n = len([1 for i, f in sends if f['ty'] == 'CANCEL' and f['sid'] == sid])
                if cb:
                    between = [m for m, _ in steps[c0:cb[0]]]
                    raced = any(m.startswith('RECV:PAYLOAD:%d:' % sid) or m.startswith('RECV:ERROR:%d:' % sid) or m in ('LOST', 'STOP') for m in between)
                    if n > 1 or (n != 1 and not raced):
                        fails.append({'signature': 'cancel-frame-count:rrReq', 'what': 'request-response %d cancelled while pending: %d CANCEL frames on stream %d' % (oid, n, sid)})
                else:
                    # the awaitable's done-callback never ran although the loop was left to settle after the cancellation: nothing tells the peer
                    later = [m for m, _ in steps[c0:]]
                    raced = any(m.startswith('RECV:PAYLOAD:%d:' % sid) or m.startswith('RECV:ERROR:%d:' % sid) or m in ('LOST', 'STOP') for m in later)
                    if n == 0 and not raced and c0 < len(steps) - 1:
                        fails.append({'signature': 'cancel-frame-missing:rrReq', 'what': 'request-response %d cancelled while pending: no CANCEL frame on stream %d and the cancellation callback never ran' % (oid, sid)})
        # peer CANCEL stops the producer
        for idx, (m, outs) in enumerate(steps):
            if m.startswith('RECV:CANCEL:'):
                sid = int(m.split(':')[2])
                for oid, kind in enumerate(obs['kinds']):
                    if obs['sids'][oid] != sid or kind not in ('stResp', 'rrResp', 'chResp', 'chReq'):
                        continue
                    ev = h.get(oid, [])
                    st = stim.get(oid, [])
                    created = [i for i, mm, t in ev if t.startswith('CR:')]
                    if not created or created[0] >= idx:
                        continue
                    if any(mm in ('LOST', 'STOP') for mm, _ in steps[:idx]):
                        continue
                    already = any(t.startswith('PX') or t.startswith('HX') for i, mm, t in ev if i < idx)
                    if kind == 'rrResp':
                        ready = steps[created[0]][0].split(':')[-1].startswith('fr') or steps[created[0]][0].endswith(':ff')
                        resolved = ready or any(mm.startswith('HR') or mm.startswith('HF') for i, mm in st if i < idx)
                        if not resolved and not already and ('HX:%d' % oid) not in outs:
                            fails.append({'signature': 'producer-survives-peer-cancel:rrResp', 'what': 'CANCEL received for stream %d but the handler future of responder %d was not cancelled' % (sid, oid)})
                    else:
                        has_pub = any(t.startswith('PS') for i, mm, t in ev if i < idx)
                        pub_done = any(mm.startswith('PC') or mm.startswith('PE') or (mm.startswith('PN') and mm.endswith(':1')) for i, mm in st if i < idx)
                        if has_pub and not pub_done and not already and ('PX:%d' % oid) not in outs:
                            fails.append({'signature': 'producer-survives-peer-cancel:' + kind, 'what': 'CANCEL received for stream %d but the publisher of %s %d was not cancelled' % (sid, kind, oid)})
        # the CANCEL must reach the peer after the request it cancels (otherwise the peer drops it as "unknown stream" and then starts the producer):
        # judged on the order in which frames actually reached Transport.send_frame
        wire = (obs.get('final') or {}).get('wire')
        if wire:
            first_req, first_cancel = {}, {}
            for idx, t in enumerate(wire):
                f = parse_send(t)
                if f['ty'] in ('REQUEST_RESPONSE', 'REQUEST_STREAM', 'REQUEST_CHANNEL'):
                    first_req.setdefault(f['sid'], idx)
                elif f['ty'] == 'CANCEL':
                    first_cancel.setdefault(f['sid'], idx)
            for sid, ic in first_cancel.items():
                if sid in first_req and ic < first_req[sid]:
                    fails.append({'signature': 'cancel-overtakes-request', 'what': 'CANCEL for stream %d reached the transport (wire position %d) before the request frame of that stream (position %d): the peer drops it and its producer is never cancelled' % (sid, ic, first_req[sid])})
        return fails


PROP = C09()
