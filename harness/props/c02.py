"""C02 — frame codec. Correspondence of serialize / serialize_with_frame_size_header / TransportTCP writes /
parse_or_ignore with `RSocketModel.Codec` on generated frame values of all 14 types (field boundaries, all flag
combinations) and on malformed byte strings; both bit-packing backends (cbitstruct present / blocked)."""
import asyncio
import json
import os
import subprocess
import sys

from harness.core import Prop, REPO, VERIF
from harness import frames as FR

_loop = None


def loop():
    global _loop
    if _loop is None or _loop.is_closed():
        _loop = asyncio.new_event_loop()
        asyncio.set_event_loop(_loop)
    return _loop


def norm_spec(s):
    s = dict(s)
    if s['t'] == 'SETUP' and not s['R']:
        s['tok'] = ''
    return s


def expected_dump(s):
    """canonical dump of the frame value itself (independent of the implementation)"""
    s = norm_spec(s)
    if s['t'] == 'PAYLOAD':
        s['N'] = s['N'] or bool(s['md']) or bool(s['d'])
    line = FR.spec_line(s)
    if s['t'] == 'SETUP' and not s['R']:
        line = line.replace(' tok=-', '')
    return line


class W:
    def __init__(self):
        self.writes = []

    def write(self, b):
        self.writes.append(bytes(b))

    async def drain(self):
        pass


def impl_encode(spec):
    from rsocket import frame as F
    from rsocket.transports.tcp import TransportTCP
    try:
        fr = FR.build(spec)
        one = fr.serialize()
        with_len = F.serialize_with_frame_size_header(FR.build(spec))
        w = W()
        t = TransportTCP(None, w)
        loop().run_until_complete(t.send_frame(FR.build(spec)))
    except Exception as e:
        # every generated frame value is within the wire format's ranges: the encoder must not refuse it
        return {'raised': type(e).__name__, 'hex': '', 'with_len': '', 'writes': [], 'dec': 'RAISED', 're': None}
    try:
        back = F.parse_or_ignore(one)
        dec = FR.dump(back)
        re = back.serialize().hex() if back is not None else None
    except Exception as e:
        dec, re = 'INVALID', None
    return {'hex': one.hex(), 'with_len': with_len.hex(), 'writes': [x.hex() for x in w.writes], 'dec': dec, 're': re}


def _slots(o):
    out = []
    for cls in type(o).__mro__:
        sl = getattr(cls, '__slots__', ())
        out += [sl] if isinstance(sl, str) else list(sl)
    return out


def _copy_fields(dst, src):
    """give the frame object `dst` the value of `src` (same class): every attribute but the bookkeeping ones a frame object accumulates
    while it is parsed or written (`length` is where parse_header and serialize_frame_prefix remember the last size they saw)"""
    for k in _slots(src):
        if k not in ('length', 'sent_future', 'fragment_generator', 'prefix_length') and hasattr(src, k):
            setattr(dst, k, getattr(src, k))


def impl_reuse(case):
    """a frame *object* with a history (decoded off the wire, already written once, or put together by the reassembly cache) holding
    the frame value `spec2`: its encodings must be those of the value, whatever the object went through before"""
    from rsocket import frame as F
    from rsocket.transports.tcp import TransportTCP
    how = case['how']
    if how == 'decoded':
        o = F.parse_or_ignore(FR.build(case['spec1']).serialize())
        if o is None or isinstance(o, F.InvalidFrame):       # the decoder ignores this value (e.g. METADATA_PUSH off stream 0): nothing to reuse
            o = FR.build(case['spec1'])
        _copy_fields(o, FR.build(case['spec2']))
    elif how == 'sent':
        o = FR.build(case['spec1'])
        t = TransportTCP(None, W())
        loop().run_until_complete(t.send_frame(o))
        _copy_fields(o, FR.build(case['spec2']))
    elif how == 'sent-one-shot':
        o = FR.build(case['spec1'])
        o.serialize()
        F.serialize_with_frame_size_header(o)
        _copy_fields(o, FR.build(case['spec2']))
    else:   # 'reassembled': the fragments of spec2's frame, decoded one by one and merged by the library's cache
        from rsocket.frame_fragment_cache import FrameFragmentCache
        cache = FrameFragmentCache()
        src = FR.build(case['spec2'])
        o = None
        for fr in _fragments(src, case['fragment_size']):
            got = F.parse_or_ignore(fr.serialize())
            o = cache.append(got)
        if o is None:
            return {'dump': 'NOT-REASSEMBLED', 'hex': '', 'with_len': '', 'writes': []}
    w = W()
    loop().run_until_complete(TransportTCP(None, w).send_frame(o))
    one = o.serialize()
    return {'dump': FR.dump(o), 'hex': one.hex(), 'with_len': F.serialize_with_frame_size_header(o).hex(), 'writes': [x.hex() for x in w.writes]}


def _fragments(frame, size):
    frame.fragment_size_bytes = size
    out = []
    while True:
        f = frame.get_next_fragment(False)
        if f is None:
            return out
        out.append(f)
        if not f.flags_follows:
            return out


def impl_decode(blob):
    from rsocket import frame as F
    try:
        fr = F.parse_or_ignore(blob)
        return FR.dump(fr)
    except Exception:
        return 'INVALID'


_CHILD = r'''
import sys, json
sys.modules['cbitstruct'] = None
sys.path.insert(0, %r); sys.path.insert(0, %r)
import logging; logging.disable(logging.CRITICAL)
from harness.props import c02
import rsocket.frame_helpers as fh
assert 'cbitstruct' not in dir(fh), 'cbitstruct still importable'
req = json.load(sys.stdin)
out = {'enc': [c02.impl_encode(s) for s in req['specs']], 'dec': [c02.impl_decode(bytes.fromhex(b)) for b in req['blobs']]}
json.dump(out, sys.stdout)
'''


def mutate(rng, b):
    b = bytearray(b)
    k = rng.choice(['trunc', 'flip', 'type', 'ignore', 'append', 'random', 'mdlen'])
    if k == 'trunc' and b:
        return bytes(b[:rng.randint(0, len(b))])
    if k == 'flip' and b:
        i = rng.randrange(len(b))
        b[i] ^= 1 << rng.randrange(8)
        return bytes(b)
    if k == 'type' and len(b) > 5:
        b[4] = (rng.choice([0, 15, 16, 63, rng.randint(0, 63)]) << 2) | (b[4] & 3)
        return bytes(b)
    if k == 'ignore' and len(b) > 5:
        b[4] |= 2
        return bytes(b[:rng.randint(6, len(b))])
    if k == 'append':
        return bytes(b) + bytes(rng.getrandbits(8) for _ in range(rng.randint(1, 9)))
    if k == 'mdlen' and len(b) > 9:
        b[4] |= 1
        return bytes(b)
    return bytes(rng.getrandbits(8) for _ in range(rng.choice([0, 1, 5, 6, 7, 10, 14, 20, 40])))


BUILDERS = ['payload', 'request_n', 'cancel', 'request_channel', 'request_stream', 'request_response', 'fire_and_forget', 'setup',
            'metadata_push', 'keepalive']
MAX_N = 2 ** 31 - 1


def gen_call(rng):
    """one call of a function of rsocket/frame_builders.py, with the kinds of argument the call sites pass: payload parts that are
    None / empty / bytes / bytearray, optional arguments given or left to their defaults"""
    def part():
        r = rng.random()
        return None if r < 0.25 else ('' if r < 0.45 else FR.rbytes(rng, 1, rng.choice([3, 60, 300])).hex())
    b = rng.choice(BUILDERS)
    c = {'kind': 'build', 'b': b, 'sid': rng.choice([1, 2, 3, 7, 2 ** 31 - 1, FR.rint(rng, 31) or 1]), 'md': part(), 'd': part(),
         'ba': rng.random() < 0.2}
    if b == 'payload':
        c.update(C=rng.choice([None, False, True]), N=rng.choice([None, False, True]))
    elif b in ('request_n', 'request_channel', 'request_stream'):
        c['n'] = rng.choice([None, 1, 2, 255, 256, MAX_N, FR.rint(rng, 31) or 1])
        if b == 'request_channel':
            c['C'] = rng.choice([None, False, True])
    elif b == 'setup':
        ms = lambda: rng.choice([0, 1, 500, 999, 1000, 86400000, 2 ** 31 - 1, FR.rint(rng, 31)])
        off = lambda: rng.choice([0, 0, 0, rng.randint(1, 499), -rng.randint(1, 499)])
        c.update(P=rng.random() < 0.7, L=rng.choice([None, False, True]), ka=max(0, ms() * 1000 + off()), life=max(0, ms() * 1000 + off()),
                 denc=FR.rbytes(rng, 1, 30).hex(), mdenc=FR.rbytes(rng, 1, 30).hex())
    return c


def _part(c, k):
    v = c[k]
    if v is None:
        return None
    b = bytes.fromhex(v)
    return bytearray(b) if c.get('ba') else b


def impl_build(c):
    from datetime import timedelta
    from rsocket import frame as F
    from rsocket import frame_builders as B
    from rsocket.payload import Payload
    pl = Payload(_part(c, 'd'), _part(c, 'md'))
    b = c['b']
    kw = {}
    if b == 'payload':
        if c['C'] is not None:
            kw['complete'] = c['C']
        if c['N'] is not None:
            kw['is_next'] = c['N']
        fr = B.to_payload_frame(c['sid'], pl, **kw)
    elif b == 'request_n':
        fr = B.to_request_n_frame(c['sid']) if c['n'] is None else B.to_request_n_frame(c['sid'], c['n'])
    elif b == 'cancel':
        fr = B.to_cancel_frame(c['sid'])
    elif b == 'request_channel':
        if c['n'] is not None:
            kw['initial_request_n'] = c['n']
        if c['C'] is not None:
            kw['complete'] = c['C']
        fr = B.to_request_channel_frame(c['sid'], pl, **kw)
    elif b == 'request_stream':
        if c['n'] is not None:
            kw['initial_request_n'] = c['n']
        fr = B.to_request_stream_frame(c['sid'], pl, **kw)
    elif b == 'request_response':
        fr = B.to_request_response_frame(c['sid'], pl)
    elif b == 'fire_and_forget':
        loop()
        fr = B.to_fire_and_forget_frame(c['sid'], pl)
    elif b == 'setup':
        if c['L'] is not None:
            kw['honor_lease'] = c['L']
        fr = B.to_setup_frame(pl if c['P'] else None, bytes.fromhex(c['denc']), bytes.fromhex(c['mdenc']),
                              timedelta(microseconds=c['ka']), timedelta(microseconds=c['life']), **kw)
    elif b == 'metadata_push':
        loop()
        fr = B.to_metadata_push_frame(_part(c, 'md'))
    else:
        fr = B.to_keepalive_frame(_part(c, 'd'))
    out = {'dump': FR.dump(fr), 'fsb': getattr(fr, 'fragment_size_bytes', 'unset') is None,
           'fut': getattr(fr, 'sent_future', None) is not None}
    one = fr.serialize()
    out['hex'] = one.hex()
    back = F.parse_or_ignore(one)
    out['dec'] = FR.dump(back)
    if back is not None and hasattr(back, 'data'):
        from rsocket.helpers import payload_from_frame
        pf = payload_from_frame(back)
        out['pf'] = [FR.hx(pf.metadata), FR.hx(pf.data)]
    return out


def build_line(c):
    """the call as the driver's `build` command reads it: omitted optional arguments appear with the documented defaults"""
    o = lambda k: 'N' if c[k] is None else (c[k] or '-')
    b = c['b']
    if b == 'payload':
        return 'build payload sid=%d md=%s d=%s C=%s N=%s' % (c['sid'], o('md'), o('d'), FR.b01(bool(c['C'])), FR.b01(True if c['N'] is None else c['N']))
    if b == 'request_n':
        return 'build request_n sid=%d n=%d' % (c['sid'], MAX_N if c['n'] is None else c['n'])
    if b == 'cancel':
        return 'build cancel sid=%d' % c['sid']
    if b == 'request_channel':
        return 'build request_channel sid=%d md=%s d=%s n=%d C=%s' % (c['sid'], o('md'), o('d'), MAX_N if c['n'] is None else c['n'], FR.b01(bool(c['C'])))
    if b == 'request_stream':
        return 'build request_stream sid=%d md=%s d=%s n=%d' % (c['sid'], o('md'), o('d'), MAX_N if c['n'] is None else c['n'])
    if b in ('request_response', 'fire_and_forget'):
        return 'build %s sid=%d md=%s d=%s' % (b, c['sid'], o('md'), o('d'))
    if b == 'setup':
        return 'build setup P=%s md=%s d=%s denc=%s mdenc=%s ka=%d life=%d L=%s' % (FR.b01(c['P']), o('md'), o('d'), c['denc'], c['mdenc'], c['ka'], c['life'], FR.b01(bool(c['L'])))
    if b == 'metadata_push':
        return 'build metadata_push md=%s' % o('md')
    return 'build keepalive d=%s' % o('d')


ERR_CODES = [1, 2, 3, 4, 257, 258, 513, 514, 515, 516, 4294967295]
ERR_TEXTS = ['', 'x', 'no such route', 'déjà vu', '日本語', 'boom \U0001F4A5', 'a' * 300, 'line\nbreak\ttab', '%s %d {}']
OTHER_EXC = ['RuntimeError', 'ValueError', 'KeyError', 'OSError13', 'Exception0', 'Custom', 'TimeoutError', 'Duck']


def gen_errconv(rng):
    c = {'kind': 'errconv', 'sid': rng.choice([1, 2, 3, 2 ** 31 - 1, FR.rint(rng, 31) or 1]), 'text': rng.choice(ERR_TEXTS)}
    if rng.random() < 0.5:
        c.update(exc='protocol', code=rng.choice(ERR_CODES), none=rng.random() < 0.2)
    else:
        c.update(exc=rng.choice(OTHER_EXC))
    return c


def _make_exc(c):
    from rsocket.error_codes import ErrorCode
    from rsocket.exceptions import RSocketProtocolError
    t = c['text']
    if c['exc'] == 'protocol':
        return RSocketProtocolError(ErrorCode(c['code']), data=None if c['none'] else t)
    if c['exc'] == 'OSError13':
        return OSError(13, t)
    if c['exc'] == 'Exception0':
        return Exception()
    if c['exc'] == 'Custom':
        class AppFailure(Exception):
            def __str__(self):
                return 'app failure: ' + self.args[0]
        return AppFailure(t)
    if c['exc'] == 'Duck':
        # an application's own error type that happens to have attributes named like the protocol error's (an upstream client's error class)
        class UpstreamError(Exception):
            error_code = 'E42'
            data = {'detail': 'upstream'}
        return UpstreamError(t)
    import builtins
    return getattr(builtins, c['exc'])(t)


def impl_errconv(c):
    from rsocket import frame as F
    from rsocket.exceptions import RSocketProtocolError
    exc = _make_exc(c)
    fr = F.exception_to_error_frame(c['sid'], exc)
    out = {'str': str(exc).encode('utf-8').hex(), 'dump': FR.dump(fr)}
    one = fr.serialize()
    out['hex'] = one.hex()
    back = F.parse_or_ignore(one)
    out['dec'] = FR.dump(back)
    got = F.error_frame_to_exception(back)
    if isinstance(got, RSocketProtocolError):
        out['peer'] = 'protocol:%d %s' % (int(got.error_code), FR.hx((got.data or '').encode('utf-8')))
    else:
        out['peer'] = '%s %s' % ('runtime' if type(got) is RuntimeError else type(got).__name__, FR.hx(str(got).encode('utf-8')))
    return out


def errconv_line(c, obs):
    if c['exc'] == 'protocol':
        return 'errconv sid=%d kind=protocol code=%d text=%s' % (c['sid'], c['code'], 'N' if c['none'] else (c['text'].encode('utf-8').hex() or '-'))
    return 'errconv sid=%d kind=other text=%s' % (c['sid'], obs['str'] or '-')       # the model is given str(exception), as the code is


class C02(Prop):
    id = 'C02'
    lean_modules = ['RSocketModel.Props.C02', 'RSocketModel.Props.C02Builders', 'RSocketModel.Props.C02Errors', 'RSocketModel.Props.C02Source']
    technique = 'Lean 4 proof (per-constructor round-trip over a front-consuming decoder mirroring unpack_from/slice semantics; frame builders regenerated from the source AST by a translator and proved equal to the model) + differential correspondence on both backends'
    level_text = ('c02_decode_encode (decode(encode f) = canon f for every legal value of all 14 types), c02_reencode, c02_partial_write, '
                  'c02_length_prefix_exact, c02_metadata_push_nonzero_ignored are kernel-checked; c02_constants ties the model literals to the regenerated '
                  'flag masks, type ids, class table and error codes. The model is a transcription of each class\'s serialize_frame_prefix/parse and is run '
                  'against serialize(), serialize_with_frame_size_header, the writes of TransportTCP.send_frame and parse_or_ignore, on valid and malformed '
                  'input, with cbitstruct present and blocked. rsocket/frame_builders.py is *translated* (AST -> Gen/Builders.lean, every run): c02_builders_match_source (the hand-written rule build is the meaning of the regenerated '
                  'definitions over the regenerated __init__ defaults), c02_builder_payload_intact (what the application hands to any builder - each payload part None, empty or bytes - is what the peer decodes, on the stream named, '
                  'never flagged IGNORE/FOLLOWS), c02_payload_builder_flags / _next_on_content / _size, c02_builder_defaults, c02_setup_builder_millis; builder calls are also run against the real functions. Errors.lean models exception_to_error_frame / error_frame_to_exception: c02_error_roundtrip (the exception answered on a stream reaches the requester with the same code and text, on that stream; a non-protocol exception as RuntimeError), c02_error_kinds_kept, c02_error_frame_on_its_stream; run against the real functions on protocol errors of every code and on application exceptions of several shapes; exception_to_error_frame itself is translated (c02_error_frame_matches_source). c02_decode_control_matches_source (Props/C02Source.lean): the decision frame / ignored / invalid of the decoder model is the control flow of parse_or_ignore as compiled from frame.py on every run (length check, class-table lookup, what the try covers, IGNORE swallowing a failure, is_frame_to_ignore).')
    level_note = ('Trusted: Lean kernel + standard axioms; struct/cbitstruct semantics as transcribed (failing read vs clipping slice); out-of-domain regions '
                  '(signed MIME length >= 128, RESUME longer than its fields, reserved stream-id bit) are only robustness-checked; KEEPALIVE/ERROR/... carry no metadata section.')
    design_ref = '§5 C02'
    rule = ('frame values of all 14 types from the repo\'s own classes over boundary values of every field (0,1,2,max,max-1,2^(k-1),random) and all flag '
            'combinations; malformed stream = truncations, bit flips, type rewrites, ignore flag, appended bytes, metadata flag forced, random bytes; batches of both are '
            'plus frame objects with a history (decoded off the wire, already written once incrementally or one-shot, or merged by FrameFragmentCache from decoded fragments) that now hold another value of the same type: their encodings must be those of the value they hold; plus frames whose metadata length sits at the byte boundaries of the 24-bit length field (255..131077 bytes); re-run in a sub-process with cbitstruct blocked; non-trivial = a valid frame with content or a malformed blob on which the decoder gets past the header; '
            'distinct = distinct bytes; plus calls of every function of rsocket/frame_builders.py (payload parts None / empty / bytes / bytearray, optional arguments given or defaulted, SETUP times on and off whole milliseconds) compared with the model and judged by an independent decode of what was built')
    assumptions = ['frames are built through the repo\'s classes with token_length = len(token)']

    def cases(self, rng, tier):
        out = []
        n = 6000 if tier == 'quick' else 200000
        for _ in range(n):
            out.append({'kind': 'enc', 'spec': FR.gen_spec(rng, big=rng.random() < 0.05)})
        # the 24-bit metadata length at and beyond its byte boundaries (255/256, 65535/65536, three significant bytes)
        for _ in range(14 if tier == 'quick' else 120):
            spec = FR.gen_spec(rng, kinds=['PAYLOAD', 'REQUEST_RESPONSE', 'REQUEST_FNF', 'REQUEST_STREAM', 'REQUEST_CHANNEL', 'SETUP'])
            k = rng.choice([255, 256, 257, 65535, 65536, 65537, 70000, 131077])
            b = rng.getrandbits(8)
            spec['md'] = (bytes([b]) * k).hex()
            spec['d'] = FR.rbytes(rng, 0, 40).hex()
            out.append({'kind': 'enc', 'spec': spec})
        # the 16-bit resume-token length at its byte boundaries (SETUP with the resume flag, RESUME)
        for _ in range(6 if tier == 'quick' else 60):
            spec = FR.gen_spec(rng, kinds=['SETUP', 'RESUME'])
            if spec['t'] == 'SETUP':
                spec['R'] = True
            spec['tok'] = (bytes([rng.getrandbits(8)]) * rng.choice([255, 256, 32767, 32768, 65535])).hex()
            out.append({'kind': 'enc', 'spec': spec})
        # frame objects with a history: decoded / already written / reassembled objects holding another value of the same type
        FRAGMENTABLE = ['PAYLOAD', 'REQUEST_RESPONSE', 'REQUEST_FNF', 'REQUEST_STREAM', 'REQUEST_CHANNEL']
        for _ in range(600 if tier == 'quick' else 20000):
            how = rng.choice(['decoded', 'sent', 'sent-one-shot', 'reassembled'])
            if how == 'reassembled':
                spec = FR.gen_spec(rng, kinds=FRAGMENTABLE)
                spec['F'] = False
                spec['md'] = FR.rbytes(rng, 0, 300).hex()
                spec['d'] = FR.rbytes(rng, 1, 600).hex()
                out.append({'kind': 'reuse', 'how': how, 'spec2': spec, 'fragment_size': rng.choice([64, 65, 80, 128, 257])})
            else:
                s1 = FR.gen_spec(rng)
                s2 = FR.gen_spec(rng, kinds=[s1['t']])
                out.append({'kind': 'reuse', 'how': how, 'spec1': s1, 'spec2': s2})
        # calls of the frame builders (rsocket/frame_builders.py): from the application's Payload to a frame value and its bytes
        for _ in range(1500 if tier == 'quick' else 40000):
            out.append(gen_call(rng))
        # exceptions answered on a stream: exception_to_error_frame -> bytes -> error_frame_to_exception
        for _ in range(500 if tier == 'quick' else 12000):
            out.append(gen_errconv(rng))
        for _ in range(n):
            spec = FR.gen_spec(rng)
            try:
                base = FR.build(spec).serialize()
            except Exception:
                out.append({'kind': 'enc', 'spec': spec})       # the encoder refuses a legal value: judged as an encoding case
                continue
            out.append({'kind': 'dec', 'blob': mutate(rng, base).hex()})
        for _ in range(16 if tier == 'quick' else 200):
            specs = [FR.gen_spec(rng) for _ in range(150)]
            blobs = []
            for _ in range(150):
                try:
                    blobs.append(mutate(rng, FR.build(FR.gen_spec(rng)).serialize()).hex())
                except Exception:
                    pass
            out.append({'kind': 'backend', 'specs': specs, 'blobs': blobs})
        return out

    def run_impl(self, case):
        if case['kind'] == 'enc':
            return impl_encode(case['spec'])
        if case['kind'] == 'dec':
            return {'dec': impl_decode(bytes.fromhex(case['blob']))}
        if case['kind'] == 'reuse':
            return impl_reuse(case)
        if case['kind'] == 'build':
            return impl_build(case)
        if case['kind'] == 'errconv':
            return impl_errconv(case)
        here = {'enc': [impl_encode(s) for s in case['specs']], 'dec': [impl_decode(bytes.fromhex(b)) for b in case['blobs']]}
        p = subprocess.run([sys.executable, '-c', _CHILD % (REPO, VERIF)], input=json.dumps({'specs': case['specs'], 'blobs': case['blobs']}),
                           stdout=subprocess.PIPE, stderr=subprocess.PIPE, text=True, timeout=600,
                           env=dict(os.environ, PYTHONPATH=VERIF))
        if p.returncode != 0:
            raise RuntimeError('native-backend child failed: ' + p.stderr[-800:])
        other = json.loads(p.stdout)
        diffs = []
        for i, (a, b) in enumerate(zip(here['enc'], other['enc'])):
            if a != b:
                diffs.append({'spec': case['specs'][i], 'cbitstruct': a, 'native': b})
        # the reserved top bit of the stream id is read differently by the two header parsers: outside the wire format
        for i, (a, b) in enumerate(zip(here['dec'], other['dec'])):
            blob = bytes.fromhex(case['blobs'][i])
            if a != b and not (len(blob) > 0 and blob[0] & 0x80) and not a.startswith('RESUME') and not b.startswith('RESUME'):
                diffs.append({'blob': case['blobs'][i], 'cbitstruct': a, 'native': b})
        return {'n': len(here['enc']) + len(here['dec']), 'diffs': diffs[:5], 'ndiffs': len(diffs)}

    def model_lines(self, case, obs):
        if case['kind'] == 'enc':
            return ['enc ' + FR.spec_line(norm_spec(case['spec']))]
        if case['kind'] == 'dec':
            return ['dec ' + (case['blob'] or '-')]
        if case['kind'] == 'build':
            return [build_line(case)]
        if case['kind'] == 'errconv':
            return [errconv_line(case, obs)]
        if case['kind'] == 'reuse':
            # the model encodes the *value* the object holds (as dumped from the object's fields)
            d = obs['dump']
            if d.startswith('SETUP ') and ' tok=' not in d:
                d = d.replace(' mdenc=', ' tok=- mdenc=', 1)
            return ['enc ' + d] if d.split(' ')[0] in FR.TYPE_NAMES.values() else []
        return []

    def compare(self, case, obs, answers):
        if case['kind'] == 'enc':
            a = answers[0]
            if a.startswith('not-wf ') and case['spec']['t'] == 'METADATA_PUSH' and case['spec']['sid'] != 0:
                a = a[4:]
            if not a.startswith('wf '):
                return 'model does not consider the generated frame well-formed: %s' % a[:80]
            if obs.get('raised'):
                return 'the implementation raised %s encoding a frame value the model encodes' % obs['raised']
            hexs, writes, dec = a[3:].split(' | ')
            impl_writes = ';'.join(obs['writes'])
            if obs['hex'] != (hexs if hexs != '-' else ''):
                return 'bytes differ: impl %s / model %s' % (obs['hex'][:120], hexs[:120])
            if impl_writes != writes:
                return 'tcp writes differ: impl %s / model %s' % (impl_writes[:160], writes[:160])
            if obs['dec'] != dec:
                return 'decoded differ: impl %s / model %s' % (obs['dec'][:200], dec[:200])
        elif case['kind'] == 'reuse':
            if not answers:
                return 'the frame object could not be dumped: %s' % obs['dump']
            a = answers[0]
            if a.startswith('not-wf ') and obs['dump'].startswith('METADATA_PUSH'):
                a = a[4:]
            if not a.startswith('wf '):
                return 'model does not consider the frame value well-formed: %s' % a[:80]
            hexs, writes, dec = a[3:].split(' | ')
            if obs['hex'] != (hexs if hexs != '-' else ''):
                return 'bytes of a %s frame object differ: impl %s / model %s' % (case['how'], obs['hex'][:120], hexs[:120])
            if ';'.join(obs['writes']) != writes:
                return 'tcp writes of a %s frame object differ: impl %s / model %s' % (case['how'], ';'.join(obs['writes'])[:160], writes[:160])
        elif case['kind'] == 'build':
            parts = answers[0].split(' | ')
            if len(parts) != 3:
                return 'model cannot read the builder call: %s' % answers[0][:80]
            if parts[2] != 'same':
                return 'the regenerated builder (Gen/Builders.lean) and the hand-written rule differ on %s: %s' % (build_line(case)[:120], parts[2][:160])
            if obs['dump'] != parts[0]:
                return 'frame built by to_%s_frame differs: impl %s / model %s' % (case['b'], obs['dump'][:200], parts[0][:200])
            if obs['hex'] != parts[1]:
                return 'bytes of the frame built by to_%s_frame differ: impl %s / model %s' % (case['b'], obs['hex'][:120], parts[1][:120])
        elif case['kind'] == 'errconv':
            parts = answers[0].split(' | ')
            if len(parts) != 3:
                return 'model cannot read the exception: %s' % answers[0][:80]
            if [obs['dump'], obs['hex'], obs['peer']] != parts:
                return 'exception -> ERROR frame -> exception: impl %s / model %s' % ([obs['dump'][:120], obs['hex'][:80], obs['peer'][:80]], [x[:120] for x in parts])
        elif case['kind'] == 'dec':
            if answers[0] == 'OUT-OF-DOMAIN':
                return None
            if obs['dec'] != answers[0]:
                return 'decode of %s: impl %s / model %s' % (case['blob'][:80], obs['dec'][:160], answers[0][:160])
        return None

    def oracle(self, case, obs):
        fails = []
        if case['kind'] == 'enc' and obs.get('raised'):
            return [{'signature': 'encode-raises:' + case['spec']['t'], 'what': 'encoding a %s frame within the wire format\'s ranges raised %s: %s' % (
                case['spec']['t'], obs['raised'], FR.spec_line(norm_spec(case['spec']))[:200])}]
        if case['kind'] == 'enc':
            s = case['spec']
            exp = expected_dump(s)
            if s['t'] == 'METADATA_PUSH' and s['sid'] != 0:
                exp = 'IGNORED'
            if obs['dec'] != exp:
                fails.append({'signature': 'decode-encode-differs:' + s['t'], 'what': 'decode(encode(f)) = %s but f = %s' % (obs['dec'][:200], exp[:200])})
            elif obs['re'] is not None and obs['re'] != obs['hex']:
                fails.append({'signature': 'reencode-differs:' + s['t'], 'what': 're-encoding the decoded %s frame gives different bytes' % s['t']})
            whole = bytes.fromhex(obs['hex'])
            if ''.join(obs['writes']) != (len(whole).to_bytes(3, 'big') + whole).hex():
                fails.append({'signature': 'incremental-write-differs:' + s['t'],
                              'what': 'TransportTCP writes %s but length-prefixed one-shot encoding is %s' % (''.join(obs['writes'])[:80], (len(whole).to_bytes(3, 'big') + whole).hex()[:80])})
            if obs['with_len'] != (len(whole).to_bytes(3, 'big') + whole).hex():
                fails.append({'signature': 'length-header-wrong:' + s['t'], 'what': 'serialize_with_frame_size_header disagrees with len(serialize())'})
        elif case['kind'] == 'dec':
            if obs['dec'].startswith('HALF-PARSED'):
                fails.append({'signature': 'decoder-returns-a-half-parsed-frame', 'what': 'the bytes %s make the decoder return a %s object whose fields were never filled in (its parse failed)' % (
                    case['blob'][:60], obs['dec'].split(' ')[-1])})
            # whatever comes out of the decoder is in the bytes: an ERROR frame carries the code of its bytes 6..10, never a substitute
            if obs['dec'].startswith('ERROR '):
                blob = bytes.fromhex(case['blob'])
                f = dict(t.split('=', 1) for t in obs['dec'].split(' ')[1:] if '=' in t)
                if len(blob) >= 10 and int(f['code']) != int.from_bytes(blob[6:10], 'big'):
                    fails.append({'signature': 'decoded-field-not-in-the-bytes:ERROR', 'what': 'the bytes %s carry error code 0x%08x, the decoder returns an ERROR frame with code 0x%08x' % (
                        case['blob'][:60], int.from_bytes(blob[6:10], 'big'), int(f['code']))})
        elif case['kind'] == 'reuse':
            t = obs['dump'].split(' ')[0]
            whole = bytes.fromhex(obs['hex'])
            want = (len(whole).to_bytes(3, 'big') + whole).hex()
            if ''.join(obs['writes']) != want:
                fails.append({'signature': 'incremental-write-differs:' + t,
                              'what': 'a %s %s frame object: TransportTCP writes %s but the length-prefixed one-shot encoding of the same object is %s' % (case['how'], t, ''.join(obs['writes'])[:80], want[:80])})
            if obs['with_len'] != want:
                fails.append({'signature': 'length-header-wrong:' + t, 'what': 'a %s frame object: serialize_with_frame_size_header disagrees with len(serialize())' % case['how']})
        elif case['kind'] == 'build':
            # independent of the model: what the peer decodes carries the application's bytes, on the stream named, with the flags asked for
            b = case['b']
            f = dict(t.split('=', 1) for t in obs['dec'].split(' ')[1:] if '=' in t)
            want_t = {'payload': 'PAYLOAD', 'request_n': 'REQUEST_N', 'cancel': 'CANCEL', 'request_channel': 'REQUEST_CHANNEL', 'request_stream': 'REQUEST_STREAM',
                      'request_response': 'REQUEST_RESPONSE', 'fire_and_forget': 'REQUEST_FNF', 'setup': 'SETUP', 'metadata_push': 'METADATA_PUSH', 'keepalive': 'KEEPALIVE'}[b]
            has_pl = b in ('payload', 'request_channel', 'request_stream', 'request_response', 'fire_and_forget') or (b == 'setup' and case['P'])
            wmd = (case['md'] or '-') if (has_pl or b == 'metadata_push') else '-'
            wd = (case['d'] or '-') if (has_pl or b == 'keepalive') else '-'
            bad = None
            if obs['dec'].split(' ')[0] != want_t:
                bad = 'decodes as %s' % obs['dec'].split(' ')[0]
            elif int(f['sid']) != (case['sid'] if b not in ('setup', 'metadata_push', 'keepalive') else 0):
                bad = 'stream id %s' % f['sid']
            elif 'md' in f and f['md'] != wmd:
                bad = 'metadata %s instead of %s' % (f['md'][:60], wmd[:60])
            elif 'd' in f and f['d'] != wd:
                bad = 'data %s instead of %s' % (f['d'][:60], wd[:60])
            elif f.get('F', '0') != '0' or f['I'] != '0':
                bad = 'FOLLOWS / IGNORE set on a whole frame'
            elif has_pl and obs.get('pf') != [wmd, wd]:
                bad = 'payload_from_frame gives the application %r instead of %r' % (obs.get('pf'), [wmd, wd])
            elif b in ('payload', 'request_channel') and f['C'] != FR.b01(bool(case['C'])):
                bad = 'COMPLETE=%s but the caller said %r' % (f['C'], case['C'])
            elif b == 'payload' and f['N'] != FR.b01((True if case['N'] is None else case['N']) or wmd != '-' or wd != '-'):
                bad = 'NEXT=%s' % f['N']
            elif b in ('request_n', 'request_channel', 'request_stream') and int(f['n']) != (MAX_N if case['n'] is None else case['n']):
                bad = 'request-n %s instead of %r' % (f['n'], case['n'])
            elif b == 'setup' and (f['L'] != FR.b01(bool(case['L'])) or f['R'] != '0' or f['ver'] != '1.0' or f['denc'] != case['denc'] or f['mdenc'] != case['mdenc']):
                bad = 'SETUP fields %s' % obs['dec'][:120]
            elif b == 'setup' and any(us % 1000 == 0 and int(f[k]) != us // 1000 for k, us in (('ka', case['ka']), ('life', case['life']))):
                bad = 'SETUP times ka=%s life=%s for %d us / %d us' % (f['ka'], f['life'], case['ka'], case['life'])
            elif b == 'keepalive' and (f['R'] != '1' or f['pos'] != '0'):
                bad = 'KEEPALIVE %s' % obs['dec'][:80]
            elif b in ('fire_and_forget', 'metadata_push') and not obs['fut']:
                bad = 'no sent_future on a one-way frame'
            if bad:
                fails.append({'signature': 'builder:' + b, 'what': 'to_%s_frame(%s): the peer %s' % (b, build_line(case)[6:160], bad)})
        elif case['kind'] == 'errconv':
            # independent of the model: the requester is handed the code and the text the failing side raised, on that stream
            if case['exc'] == 'protocol':
                txt = '' if case['none'] else case['text']
                want = ('runtime %s' if case['code'] == 0x201 else 'protocol:%d %%s' % case['code']) % FR.hx(txt.encode('utf-8'))
            else:
                want = 'runtime %s' % FR.hx(bytes.fromhex(obs['str']))
            sid = obs['dec'].split(' ')[1] if obs['dec'].startswith('ERROR ') else None
            if sid != 'sid=%d' % case['sid']:
                fails.append({'signature': 'error-conversion:stream', 'what': 'the ERROR frame for a failure on stream %d decodes as %s' % (case['sid'], obs['dec'][:80])})
            elif obs['peer'] != want:
                fails.append({'signature': 'error-conversion:' + case['exc'], 'what': 'a %s raised on stream %d reaches the requester as %s instead of %s' % (
                    case['exc'] if case['exc'] != 'protocol' else 'RSocketProtocolError(%d)' % case['code'], case['sid'], obs['peer'][:100], want[:100])})
        elif case['kind'] == 'backend':
            if obs['ndiffs']:
                d = obs['diffs'][0]
                fails.append({'signature': 'backend-dependent-result', 'what': 'cbitstruct and native struct backends disagree: %s' % json.dumps(d)[:400]})
        return fails

    def nontrivial(self, case, obs):
        if case['kind'] == 'enc':
            s = case['spec']
            if s.get('md') or s.get('d') or s['t'] in ('SETUP', 'RESUME', 'LEASE', 'KEEPALIVE'):
                return obs['hex']
            return None
        if case['kind'] == 'dec':
            return case['blob'] if len(case['blob']) >= 12 else None
        if case['kind'] == 'reuse':
            return case['how'] + obs['hex']
        if case['kind'] == 'errconv':
            return json.dumps([case.get('code'), case['exc'], case['text'], case.get('none')]) if case['text'] else None
        if case['kind'] == 'build':
            return build_line(case) if (case['md'] or case['d'] or case['b'] in ('setup', 'request_n')) else None
        return json.dumps(case['blobs'][:3])

    def stats(self, case, obs):
        yield 'kind=' + case['kind']
        if case['kind'] == 'enc':
            yield 'type=' + case['spec']['t']
        if case['kind'] == 'dec':
            yield 'decoded=' + obs['dec'].split(' ')[0]
        if case['kind'] == 'errconv':
            yield 'exception=' + case['exc']
        if case['kind'] == 'build':
            yield 'builder=' + case['b']
            yield 'payload-parts=%s/%s' % tuple('None' if case[k] is None else ('empty' if case[k] == '' else 'bytes') for k in ('md', 'd'))
        if case['kind'] == 'reuse':
            yield 'object-history=' + case['how']
            yield 'type=' + obs['dump'].split(' ')[0]

    def shrink_candidates(self, case):
        if case['kind'] == 'enc':
            s = case['spec']
            for k in ('md', 'd', 'tok', 'mdenc', 'denc'):
                if s.get(k):
                    yield {'kind': 'enc', 'spec': dict(s, **{k: ''})}
                    yield {'kind': 'enc', 'spec': dict(s, **{k: s[k][:2]})}
            for k in ('I', 'F', 'C', 'N', 'L', 'R'):
                if s.get(k):
                    yield {'kind': 'enc', 'spec': dict(s, **{k: False})}
        elif case['kind'] == 'build':
            for k in ('md', 'd'):
                if case[k]:
                    yield dict(case, **{k: case[k][:2]})
                    yield dict(case, **{k: None})
            if case.get('ba'):
                yield dict(case, ba=False)
        elif case['kind'] == 'backend':
            if len(case['specs']) > 1 or len(case['blobs']) > 1:
                h = len(case['specs']) // 2
                yield dict(case, specs=case['specs'][:h], blobs=[])
                yield dict(case, specs=case['specs'][h:], blobs=[])
                g = len(case['blobs']) // 2
                yield dict(case, specs=[], blobs=case['blobs'][:g])
                yield dict(case, specs=[], blobs=case['blobs'][g:])


PROP = C02()
