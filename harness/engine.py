"""Single-endpoint engine harness: a real RSocketServer / RSocketClient on a scripted transport, recording
application objects, and a global log that records every entry point (API call, received frame, done-callback,
connection loss) in the order asyncio actually executes them, with the outputs each one produces.
The same entry-point sequence is replayed on `RSocketModel.Engine` by the Lean driver."""
import asyncio

from harness import detloop, simnet

TYPE_OF = None


class QuotaExceeded(Exception):
    """an application exception that carries its own structured `data` (not bytes) — nothing of the library's"""
    def __init__(self, *a):
        super().__init__(*a)
        self.data = {'limit': 10}


class UpstreamFailure(Exception):
    """an application exception with its own `error_code` attribute (a string, not an ErrorCode)"""
    def __init__(self, *a):
        super().__init__(*a)
        self.error_code = 'E_UPSTREAM'


EXC_CLASSES = [RuntimeError, ValueError, KeyError, ConnectionResetError, BrokenPipeError, ConnectionRefusedError, OSError, TimeoutError, ZeroDivisionError,
               QuotaExceeded, UpstreamFailure]
_exc_counter = [0]


def scripted_exc(msg='scripted', salt=0, empty=None):
    """application code fails with exceptions of many families (connection errors of a downstream call included): containment must not
    depend on the class. The class is a function of the scenario so far (reset per EngineRun), so a replay raises the same ones."""
    _exc_counter[0] += 1
    cls = EXC_CLASSES[(_exc_counter[0] * 4 + salt) % len(EXC_CLASSES)]
    if empty or (empty is None and (_exc_counter[0] + salt) % 3 == 0):
        # an exception without a message (a bare assert, `raise PermissionError()`, the TimeoutError of asyncio.wait_for): str(e) == ''
        return AssertionError() if cls is RuntimeError else cls()
    if (_exc_counter[0] + salt) % 4 == 1:
        # exceptions whose first argument is not text: errno-style OSErrors from I/O done by the handler, a KeyError on a non-string key
        if issubclass(cls, OSError) and cls not in (QuotaExceeded, UpstreamFailure):
            return cls(13, msg)
        if cls is KeyError:
            return KeyError(7)
        return cls(msg, 7)
    return cls(msg)


def tags_to_bytes(tags):
    return bytes(tags)


def bytes_to_tags(b):
    return list(bytes(b)) if b else []


def tstr(tags):
    return ','.join(map(str, tags)) if tags else '-'


def frame_token(fr):
    from rsocket import frame as F
    from harness import frames as FR
    t = FR.TYPE_NAMES[type(fr)]
    f = c = n = r = False
    num = code = 0
    data = []
    if t == 'PAYLOAD':
        data = bytes_to_tags(fr.data)
        f, c = bool(fr.flags_follows), bool(fr.flags_complete)
        n = bool(data) or bool(fr.metadata)
    elif t in ('REQUEST_RESPONSE', 'REQUEST_FNF'):
        data = bytes_to_tags(fr.data)
        f = bool(fr.flags_follows)
    elif t == 'REQUEST_STREAM':
        data, num, f = bytes_to_tags(fr.data), fr.initial_request_n, bool(fr.flags_follows)
    elif t == 'REQUEST_CHANNEL':
        data, num, f, c = bytes_to_tags(fr.data), fr.initial_request_n, bool(fr.flags_follows), bool(fr.flags_complete)
    elif t == 'REQUEST_N':
        num = fr.request_n
    elif t == 'ERROR':
        code = int(fr.error_code)
    elif t == 'METADATA_PUSH':
        data = bytes_to_tags(fr.metadata)
    elif t == 'KEEPALIVE':
        data, r = bytes_to_tags(fr.data), bool(fr.flags_respond)
    elif t == 'SETUP':
        c, r = bool(fr.flags_lease), bool(fr.flags_resume)
    elif t == 'LEASE':
        num, code = fr.number_of_requests, fr.time_to_live
    b = lambda x: '1' if x else '0'
    return 'S:%s:%d:%s%s%s%s:%d:%d:%s' % (t, fr.stream_id, b(f), b(c), b(n), b(r), num, code, tstr(data))


def build_frame(spec):
    """spec: dict(ty, sid, follows, complete, next, respond, n, code, data(tags)) -> real Frame object"""
    from rsocket import frame as F
    from rsocket.error_codes import ErrorCode
    ty = spec['ty']
    cls = {'SETUP': F.SetupFrame, 'LEASE': F.LeaseFrame, 'KEEPALIVE': F.KeepAliveFrame, 'REQUEST_RESPONSE': F.RequestResponseFrame,
           'REQUEST_FNF': F.RequestFireAndForgetFrame, 'REQUEST_STREAM': F.RequestStreamFrame, 'REQUEST_CHANNEL': F.RequestChannelFrame,
           'REQUEST_N': F.RequestNFrame, 'CANCEL': F.CancelFrame, 'PAYLOAD': F.PayloadFrame, 'ERROR': F.ErrorFrame,
           'METADATA_PUSH': F.MetadataPushFrame, 'RESUME': F.ResumeFrame, 'RESUME_OK': F.ResumeOKFrame}[ty]
    fr = cls()
    fr.stream_id = spec['sid']
    data = tags_to_bytes(spec.get('data', []))
    if ty == 'PAYLOAD':
        fr.data, fr.flags_follows, fr.flags_complete, fr.flags_next = data, spec.get('follows', False), spec.get('complete', False), spec.get('next', False)
    elif ty in ('REQUEST_RESPONSE', 'REQUEST_FNF'):
        fr.data, fr.flags_follows = data, spec.get('follows', False)
    elif ty == 'REQUEST_STREAM':
        fr.data, fr.flags_follows, fr.initial_request_n = data, spec.get('follows', False), spec.get('n', 1)
    elif ty == 'REQUEST_CHANNEL':
        fr.data, fr.flags_follows, fr.flags_complete, fr.initial_request_n = data, spec.get('follows', False), spec.get('complete', False), spec.get('n', 1)
    elif ty == 'REQUEST_N':
        fr.request_n = spec.get('n', 1)
    elif ty == 'ERROR':
        fr.error_code = ErrorCode(spec.get('code', 513))
        fr.data = b'peer error'
    elif ty == 'METADATA_PUSH':
        fr.metadata = data
    elif ty == 'KEEPALIVE':
        fr.data, fr.flags_respond = data, spec.get('respond', False)
    elif ty == 'SETUP':
        fr.flags_lease, fr.flags_resume = spec.get('complete', False), spec.get('respond', False)
        fr.keep_alive_milliseconds, fr.max_lifetime_milliseconds = 1000, 10000
        fr.metadata_encoding, fr.data_encoding = b'a/b', b'c/d'
        fr.data = data
        if fr.flags_resume:
            tok = bytes.fromhex(spec['token']) if spec.get('token') is not None else b'tok'
            fr.resume_identification_token, fr.token_length = tok, len(tok)
    elif ty == 'LEASE':
        fr.number_of_requests, fr.time_to_live = spec.get('n', 1), spec.get('code', 1000)
    elif ty == 'RESUME':
        tok = bytes.fromhex(spec['token']) if spec.get('token') is not None else b'tok'     # tokens are opaque bytes (a binary UUID, say), not text
        fr.resume_identification_token, fr.token_length = tok, len(tok)
        fr.last_server_position = fr.first_client_position = 0
    return fr


WIRE_FIELDS = {
    'SETUP': ('complete', 'respond', 'data'), 'LEASE': ('n', 'code'), 'KEEPALIVE': ('respond', 'data'),
    'REQUEST_RESPONSE': ('follows', 'data'), 'REQUEST_FNF': ('follows', 'data'), 'REQUEST_STREAM': ('follows', 'n', 'data'),
    'REQUEST_CHANNEL': ('follows', 'complete', 'n', 'data'), 'REQUEST_N': ('n',), 'CANCEL': (), 'PAYLOAD': ('follows', 'complete', 'data'),
    'ERROR': ('code',), 'METADATA_PUSH': ('data',), 'RESUME': (), 'RESUME_OK': (),
}


def recv_token(spec, beh):
    keep = WIRE_FIELDS[spec['ty']]
    spec = {k: v for k, v in spec.items() if k in keep or k in ('ty', 'sid')}
    b = lambda x: '1' if spec.get(x) else '0'
    nxt = False
    if spec['ty'] == 'PAYLOAD':
        nxt = bool(spec.get('data'))      # the wire recomputes `next` from content
    return 'RECV:%s:%d:%s%s%s%s:%d:%d:%s:%s' % (spec['ty'], spec['sid'], b('follows'), b('complete'), '1' if nxt else '0', b('respond'),
                                                 spec.get('n', 0), spec.get('code', 0), tstr(spec.get('data', [])), beh)


def exc_code(e):
    from rsocket.exceptions import RSocketProtocolError
    if isinstance(e, RSocketProtocolError):
        return int(e.error_code)
    return 513


CURRENT = None


def install_class_markers():
    from rsocket.handlers.request_response_requester import RequestResponseRequester as Q
    from rsocket.handlers.request_response_responder import RequestResponseResponder as P
    if getattr(Q, '_verif_wrapped', False):
        return
    oq, op = Q._on_future_complete, P.future_done

    def wq(self, future):
        H = CURRENT
        if H is not None:
            oid = H.fut_oid.get(id(future))
            if oid is not None:
                H.mark('CBQ:%d' % oid)
        return oq(self, future)

    def wp(self, future):
        H = CURRENT
        if H is not None:
            oid = H.fut_oid.get(id(self.future))
            if oid is not None:
                H.mark('CBP:%d' % oid)
        return op(self, future)
    Q._on_future_complete, P.future_done = wq, wp
    Q._verif_wrapped = True


class RecSubscription:
    def __init__(self, H, oid):
        self.H, self.oid = H, oid

    def request(self, n):
        self.H.out('PR:%d:%d' % (self.oid, n))
        if self.H.raise_at == ('PR', self.oid):
            raise RuntimeError('scripted: request raises')

    def cancel(self):
        self.H.out('PX:%d' % self.oid)
        if self.H.raise_at == ('PX', self.oid) or ('PX', None) == self.H.raise_at:
            raise RuntimeError('scripted: cancel raises')


class RecPublisher:
    def __init__(self, H, oid=None):
        self.H, self.oid, self.subscriber = H, oid, None

    def subscribe(self, subscriber):
        self.H.out('PS:%d' % self.oid)
        self.subscriber = subscriber
        subscriber.on_subscribe(RecSubscription(self.H, self.oid))


class RecSubscriber:
    def __init__(self, H, oid=None):
        self.H, self.oid, self.subscription = H, oid, None
        self.did_in_subscribe = None
        self.in_subscribe = None      # ['SRQ', n] / ['SCN']: what the application does *inside* on_subscribe (the usual reactive-streams place for it)
        self.topup = None             # k: the application tops its credit up by k inside every k-th on_next, unless the element is flagged complete
        self.seen = 0

    def on_subscribe(self, subscription):
        self.subscription = subscription
        self.H.out('OS:%d' % self.oid)
        act, self.in_subscribe = self.in_subscribe, None
        self.did_in_subscribe = act
        if act:
            # a nested entry point: logged as the next event (the request frame must already be queued when on_subscribe runs)
            if act[0] == 'SRQ':
                self.H.mark('SRQ:%d:%d' % (self.oid, act[1]))
                subscription.request(act[1])
            else:
                self.H.mark('SCN:%d' % self.oid)
                subscription.cancel()

    def on_next(self, value, is_complete=False):
        self.H.out('ON:%d:%s:%s' % (self.oid, tstr(bytes_to_tags(value.data)), '1' if is_complete else '0'))
        if self.topup and not is_complete and self.subscription is not None:
            self.seen += 1
            if self.seen % self.topup == 0:
                # a nested entry point, as in on_subscribe: the batching idiom of every back-pressure-aware subscriber
                # (the library's own CollectorSubscriber does the same)
                self.H.mark('SRQ:%d:%d' % (self.oid, self.topup))
                self.subscription.request(self.topup)

    def on_complete(self):
        self.H.out('OC:%d' % self.oid)

    def on_error(self, exception):
        self.H.out('OE:%d:%d' % (self.oid, exc_code(exception)))


def make_handler_class():
    from rsocket.request_handler import BaseRequestHandler
    from rsocket.payload import Payload

    class RecHandler(BaseRequestHandler):
        H = None

        def _beh(self):
            H = self.H
            return H.beh.get(H.current_k, 'x')

        async def on_setup(self, data_encoding, metadata_encoding, payload):
            self.H.out('HC:SETUP:%s' % tstr(bytes_to_tags(payload.data)))
            if 'raw' not in (self.H.recv_specs.get(self.H.current_k) or {}) and (bytes(data_encoding), bytes(metadata_encoding)) != (b'c/d', b'a/b'):
                # build_frame() always announces data 'c/d' and metadata 'a/b': anything else reached the handler altered (an extra token the model never has)
                self.H.out('HC:SETUP-ENCODINGS:%r:%r' % (bytes(data_encoding), bytes(metadata_encoding)))
            if self._beh() == 'x':
                tags = bytes_to_tags(payload.data)
                raise scripted_exc('scripted: on_setup raises', empty=bool(tags) and tags[0] % 3 == 0)

        async def on_metadata_push(self, metadata):
            self.H.out('HC:METADATA_PUSH:%s' % tstr(bytes_to_tags(metadata.metadata)))
            if self._beh() == 'x':
                raise scripted_exc(salt=self.H.current_sid or 0)

        async def request_fire_and_forget(self, payload):
            self.H.out('HC:REQUEST_FNF:%s' % tstr(bytes_to_tags(payload.data)))
            if self._beh() == 'x':
                raise scripted_exc(salt=self.H.current_sid or 0)

        async def request_response(self, payload):
            H = self.H
            H.out('HC:REQUEST_RESPONSE:%s' % tstr(bytes_to_tags(payload.data)))
            b = self._beh()
            if not b.startswith('f'):
                raise scripted_exc(salt=self.H.current_sid or 0)
            fut = H.loop.create_future()
            if b.startswith('fr.'):
                tags = [int(x) for x in b[3:].split(',')] if b[3:] != '-' else []
                fut.set_result(Payload(tags_to_bytes(tags)))
            elif b == 'ff':
                fut.set_exception(RuntimeError('scripted failure'))
            if H.current_sid != 0:
                oid = H.new_obj('rrResp', H.current_sid, fut=fut)
                H.fut_oid[id(fut)] = oid
                H.out('CR:%d:%d' % (oid, H.current_sid))
            return fut

        async def request_stream(self, payload):
            H = self.H
            H.out('HC:REQUEST_STREAM:%s' % tstr(bytes_to_tags(payload.data)))
            if self._beh() != 'pb':
                raise scripted_exc(salt=self.H.current_sid or 0)
            pub = RecPublisher(H)
            if H.current_sid != 0:
                pub.oid = H.new_obj('stResp', H.current_sid, pub=pub)
                H.out('CR:%d:%d' % (pub.oid, H.current_sid))
            return pub

        async def request_channel(self, payload):
            H = self.H
            H.out('HC:REQUEST_CHANNEL:%s' % tstr(bytes_to_tags(payload.data)))
            b = self._beh()
            if not b.startswith('ch'):
                raise scripted_exc(salt=self.H.current_sid or 0)
            pub = RecPublisher(H) if b[2] == '1' else None
            sub = RecSubscriber(H) if b[3] == '1' else None
            if H.current_sid != 0:
                oid = H.new_obj('chResp', H.current_sid, pub=pub, sub=sub)
                if pub:
                    pub.oid = oid
                if sub:
                    sub.oid = oid
                H.out('CR:%d:%d' % (oid, H.current_sid))
            else:
                if pub:
                    pub.oid = 999999
                if sub:
                    sub.oid = 999999
            return pub, sub

        async def on_error(self, error_code, payload):
            self.H.out('EC:%d' % int(error_code))

        async def on_close(self, rsocket, exception=None):
            self.H.out('CL')
            self.H.closed_seen = True
            self.H.sent_at_close = len(self.H.t.sent)
            mode = getattr(self.H, 'on_close_mode', None)
            if mode == 'raise':
                raise RuntimeError('scripted: on_close raises')
            if mode == 'suspend':
                import asyncio
                await asyncio.sleep(1000)      # virtual seconds: the application's on_close is suspended
    return RecHandler


class EngineRun:
    """Executes a script (list of groups of stimuli) against a real endpoint and produces the entry-point log."""

    def __init__(self, loop, role, lease_publisher=False, fragment=None):
        _exc_counter[0] = 0
        self.loop, self.role = loop, role
        self.glog = []            # ('M', marker) / ('O', token)
        self.objs = []            # oid -> dict
        self.fut_oid = {}
        self.beh = {}
        self.current_k = None
        self.current_sid = None
        self.closed_seen = False
        self.raise_at = None
        self.delivered = 0
        self.recv_specs = {}
        self.fragment = fragment
        self.lease_publisher = lease_publisher
        self.polled = set()
        self.done = False
        self.sent_at_close = None
        self.oneway = []

    # -- log ------------------------------------------------------------------------------------
    def poll_futures(self):
        for oid, o in enumerate(self.objs):
            if o['kind'] == 'rrResp' and oid not in self.polled and o['fut'].cancelled():
                self.polled.add(oid)
                self.glog.append(('O', 'HX:%d' % oid))
            if o['kind'] == 'rrReq' and oid not in self.polled and o['fut'].done():
                self.polled.add(oid)
                f = o['fut']
                if f.cancelled():
                    continue
                if f.exception() is not None:
                    self.glog.append(('O', 'FE:%d:%d' % (oid, exc_code(f.exception()))))
                else:
                    self.glog.append(('O', 'FR:%d:%s' % (oid, tstr(bytes_to_tags(f.result().data)))))

    def mark(self, m):
        if self.done:
            return
        self.poll_futures()
        self.glog.append(('M', m))

    def out(self, tok):
        if self.done:
            return
        self.glog.append(('O', tok))

    def new_obj(self, kind, sid, **kw):
        self.objs.append(dict(kind=kind, sid=sid, **kw))
        return len(self.objs) - 1

    # -- set-up ---------------------------------------------------------------------------------
    async def start(self):
        global CURRENT
        from rsocket.rsocket_server import RSocketServer
        from rsocket.rsocket_client import RSocketClient
        from rsocket.helpers import single_transport_provider
        from datetime import timedelta
        install_class_markers()
        CURRENT = self
        self.t = simnet.ScriptedTransport(self.loop)
        H = make_handler_class()
        H.H = self
        self.t.on_pull = self._on_pull
        pubobj = None
        if self.lease_publisher:
            from rsocket.lease import LeasePublisher
            pubobj = LeasePublisher()
        if self.role == 'server':
            self.ep = RSocketServer(self.t, handler_factory=H, fragment_size_bytes=self.fragment, lease_publisher=pubobj)
        else:
            self.ep = RSocketClient(single_transport_provider(self.t), handler_factory=H, fragment_size_bytes=self.fragment,
                                    keep_alive_period=timedelta(seconds=100000), max_lifetime_period=timedelta(seconds=1000000),
                                    lease_publisher=pubobj)
            await self.ep.connect()
        await self.loop.settle()
        orig_closed = self.ep._on_connection_closed

        orig_stop = self.ep.stop_all_streams
        self.in_closed = False

        async def on_connection_closed():
            self.mark('LOST')
            self.in_closed = True
            try:
                await orig_closed()
            finally:
                self.in_closed = False

        def stop_all_streams(*a, **kw):
            if not self.in_closed:
                self.mark('STOP')
            return orig_stop(*a, **kw)
        self.ep._on_connection_closed = on_connection_closed
        self.ep.stop_all_streams = stop_all_streams
        self.base_sent = len(self.t.sent)
        q = self.ep._send_queue
        orig = q.put_nowait
        seen = set()

        def put(item, _orig=orig):
            if id(item) not in seen:
                seen.add(id(item))
                self._keep = getattr(self, '_keep', [])
                self._keep.append(item)
                if not self.closed_seen:
                    self.out(frame_token(item))
            return _orig(item)
        q.put_nowait = put

    def _on_pull(self, k, frame):
        self.current_k = k
        self.current_sid = getattr(frame, 'stream_id', None)
        if k == 'LOST':
            pass          # the LOST entry point is `_on_connection_closed`, marked there
        elif 'raw' in self.recv_specs[k]:
            # a raw message: the model decodes the same bytes with the codec model and dispatches (or ignores) the result
            self.mark('RAW:%s:%s' % (self.recv_specs[k]['raw'] or '-', self.beh.get(k, 'k')))
        else:
            self.mark(recv_token(self.recv_specs[k], self.beh.get(k, 'k')))

    # -- stimuli --------------------------------------------------------------------------------
    def apply(self, s):
        from rsocket.payload import Payload
        from rsocket.exceptions import RSocketValueError, RSocketStreamAllocationFailure
        op = s['op']
        P = lambda tags: Payload(tags_to_bytes(tags)) if tags else Payload()
        ep = self.ep
        if op == 'recv':
            k = self.delivered
            self.delivered += 1
            self.recv_specs[k] = s['frame']
            self.beh[k] = s.get('beh', 'k')
            self.t.deliver((k, build_frame(s['frame']).serialize()))
            return
        if op == 'raw':
            k = self.delivered
            self.delivered += 1
            self.recv_specs[k] = {'raw': s['hex']}
            self.beh[k] = s.get('beh', 'k')
            self.t.deliver((k, bytes.fromhex(s['hex'])))
            return
        if op == 'wfail':
            self.t.fail_sends = True      # the write side of the link breaks: the next send_frame raises RSocketTransportError
            return
        if op == 'lost':
            self.on_close_mode = s.get('on_close')
            self.t.deliver(simnet.EOF_MARK if s.get('mode', 'eof') == 'eof' else __import__('rsocket.exceptions').exceptions.RSocketTransportError())
            return
        oid = s.get('oid')
        o = self.objs[oid] if oid is not None and oid < len(self.objs) else None
        if oid is not None and o is None:
            return       # reference to an object that does not exist in this run (after shrinking): skipped
        try:
            if op == 'RR':
                self.mark('RR:%s' % tstr(s['data']))
                fut = ep.request_response(P(s['data']))
                noid = self.new_obj('rrReq', self._last_sid(), fut=fut)
                self.fut_oid[id(fut)] = noid
                self.out('CR:%d:%d' % (noid, self._last_sid()))
                self._reorder_created()
            elif op == 'FNF':
                self.mark('FNF:%s' % tstr(s['data']))
                fut = ep.fire_and_forget(P(s['data']))
                fsid = ep._stream_control._current_stream_id
                # the library's own done-callback (finish_stream of that id) was registered first and runs just before this one
                fut.add_done_callback(lambda _f, _sid=fsid: self.mark('FNFD:%d' % _sid))
                self.oneway.append(('fnf', len(self.glog), fut))
            elif op == 'OWC':
                # the application gives up waiting for a one-way request (asyncio.wait_for timing out on a slow link): it cancels the
                # awaitable fire_and_forget() / metadata_push() returned; no entry point of its own (a done-callback may follow)
                for k, at, f in reversed(self.oneway):
                    if not f.done():
                        f.cancel()
                        break
            elif op == 'MP':
                self.mark('MP:%s' % tstr(s['data']))
                self.oneway.append(('mp', len(self.glog), ep.metadata_push(tags_to_bytes(s['data']))))
            elif op == 'RS':
                self.mark('RS:%s:%d:%d' % (tstr(s['data']), s['n'], 1 if s['sub'] else 0))
                req = ep.request_stream(P(s['data']))
                sub = RecSubscriber(self)
                noid = self.new_obj('stReq', req.stream_id, req=req, sub=sub)
                sub.oid = noid
                self.out('CR:%d:%d' % (noid, req.stream_id))
                req.initial_request_n(s['n'])
                sub.topup = s.get('topup')
                if s['sub']:
                    sub.in_subscribe = s.get('insub')
                    req.subscribe(sub)
            elif op == 'RC':
                self.mark('RC:%s:%d:%d:%d' % (tstr(s['data']), s['n'], 1 if s['pub'] else 0, 1 if s['sub'] else 0))
                pub = RecPublisher(self) if s['pub'] else None
                req = ep.request_channel(P(s['data']), pub)
                sub = RecSubscriber(self)
                noid = self.new_obj('chReq', req.stream_id, req=req, sub=sub, pub=pub)
                sub.oid = noid
                if pub:
                    pub.oid = noid
                self.out('CR:%d:%d' % (noid, req.stream_id))
                req.initial_request_n(s['n'])
                if s['sub']:
                    sub.in_subscribe = s.get('insub')
                    req.subscribe(sub)
            elif op == 'SUB':
                self.mark('SUB:%d' % oid)
                if o['kind'] in ('stReq', 'chReq') and o['sub'].subscription is None:
                    o['sub'].in_subscribe = s.get('insub')
                    o['req'].subscribe(o['sub'])
            elif op == 'SRQ':
                self.mark('SRQ:%d:%d' % (oid, s['n']))
                tgt = self._subscription_of(o)
                if tgt is not None:
                    tgt.request(s['n'])
            elif op == 'SCN':
                self.mark('SCN:%d' % oid)
                tgt = self._subscription_of(o)
                if tgt is not None:
                    tgt.cancel()
            elif op == 'FCN':
                self.mark('FCN:%d' % oid)
                if o['kind'] == 'rrReq':
                    o['fut'].cancel()
            elif op in ('PN', 'PC', 'PE'):
                self.mark({'PN': 'PN:%d:%s:%d' % (oid, tstr(s.get('data', [])), 1 if s.get('complete') else 0), 'PC': 'PC:%d' % oid, 'PE': 'PE:%d' % oid}[op])
                pub = o.get('pub')
                if pub is not None and pub.subscriber is not None:
                    if op == 'PN':
                        pub.subscriber.on_next(P(s.get('data', [])), s.get('complete', False))
                    elif op == 'PC':
                        pub.subscriber.on_complete()
                    else:
                        pub.subscriber.on_error(RuntimeError('scripted app error'))
            elif op == 'HR':
                self.mark('HR:%d:%s' % (oid, tstr(s['data'])))
                if o['kind'] == 'rrResp' and not o['fut'].done():
                    o['fut'].set_result(P(s['data']))
            elif op == 'HF':
                self.mark('HF:%d' % oid)
                if o['kind'] == 'rrResp' and not o['fut'].done():
                    o['fut'].set_exception(RuntimeError('scripted failure'))
        except RSocketValueError:
            self.out('RA:initial-request-n')
        except RSocketStreamAllocationFailure:
            self.out('RA:allocation')
        except Exception as e:
            self.out('RA:EXC-%s' % type(e).__name__)

    def _last_sid(self):
        # stream id the endpoint has just allocated
        return self.ep._stream_control._current_stream_id

    def _reorder_created(self):
        # request_response() queues the request frame before the harness can log `created`: put CR before the send it belongs to
        i = len(self.glog) - 1
        if i >= 1 and self.glog[i][1].startswith('CR:') and self.glog[i - 1][0] == 'O' and self.glog[i - 1][1].startswith('S:REQUEST_RESPONSE'):
            self.glog[i - 1], self.glog[i] = self.glog[i], self.glog[i - 1]

    def _subscription_of(self, o):
        if o['kind'] in ('stReq', 'chReq'):
            return o['req']
        if o['kind'] == 'chResp':
            sub = o.get('sub')
            return sub.subscription if sub is not None else None
        return None

    async def apply_async(self, s):
        if s['op'] == 'close':
            await self.ep.close()
        elif s['op'] == 'gate':
            # a slow link: from now on every write blocks until the harness releases it (frames pile up in the send queue)
            self.t.gated = bool(s['on'])
            if not self.t.gated:
                while self.t.release():
                    await self.loop.settle()
        elif s['op'] == 'release':
            for _ in range(s['n']):
                if not self.t.release():
                    break
                await self.loop.settle()
        else:
            self.apply(s)

    async def run_script(self, script):
        for group in script:
            for s in group:
                await self.apply_async(s)
            await self.loop.settle()
        self.poll_futures()

    async def finish(self):
        global CURRENT
        ep = self.ep
        res = {
            'table': sorted(ep._stream_control._streams.keys()),
            'cache': sorted(ep._frame_fragment_cache._frames_by_stream_id.keys()),
            'wire': [simnet_tok(e) for e in self.t.sent[self.base_sent:]],
            'sender_alive': ep._sender_task is not None and not ep._sender_task.done(),
            'receiver_alive': ep._receiver_task is not None and not ep._receiver_task.done(),
            'sent_after_close': (len(self.t.sent) - self.sent_at_close) if self.sent_at_close is not None else 0,
            'transport_closed': self.t.closed,
            'write_failures': self.t.failed_attempts,
            'oneway_pending': [k for k, at, f in self.oneway if not f.done() and at < self._first_loss_index()],
            'oneway_total': len(self.oneway),
            # no loss, write side healthy, loop settled: every one-way frame has been written, so every one-way awaitable must be done
            'oneway_pending_settled': ([k for k, at, f in self.oneway if not f.done()] if self._first_loss_index() < 0 and not self.closed_seen
                                       and not self.t.fail_sends and not self.t.gated and ep._send_queue.empty() else []),
        }
        self.poll_futures()
        self.done = True
        try:
            await ep.close()
        except Exception:
            pass
        CURRENT = None
        return res

    def _first_loss_index(self):
        for i, (kind, tok) in enumerate(self.glog):
            if kind == 'M' and tok in ('LOST', 'STOP'):
                return i
        return -1

    def steps(self):
        """[(marker, [outputs])], future results moved to the end of their step"""
        out = []
        for kind, tok in self.glog:
            if kind == 'M':
                out.append([tok, []])
            elif out:
                out[-1][1].append(tok)
        for st in out:
            fr = sorted(t for t in st[1] if t[:3] in ('FR:', 'FE:', 'HX:'))
            st[1] = [t for t in st[1] if t[:3] not in ('FR:', 'FE:', 'HX:')] + fr
        return out


def simnet_tok(entry):
    return frame_token(entry[2])


def canon_model_step(s):
    toks = [t for t in s.strip().split(' ') if t and not t.startswith('DR:')]
    fr = sorted(t for t in toks if t[:3] in ('FR:', 'FE:', 'HX:'))
    return [t for t in toks if t[:3] not in ('FR:', 'FE:', 'HX:')] + fr
