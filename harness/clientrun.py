"""Real RSocketClient under the deterministic loop: transports handed out by a scripted provider, every life-cycle
entry point logged in execution order (connect, SETUP queued, gate open, request queued, frame handed to a transport,
keepalive timeout, close-for-reconnect) so that the same sequence can be replayed on `RSocketModel.Client`."""
import asyncio
from datetime import timedelta

from harness import simnet, detloop
from harness import frames as FR


def tag_of(fr):
    from rsocket import frame as F
    if isinstance(fr, F.SetupFrame):
        return 'SETUP'
    if isinstance(fr, (F.RequestResponseFrame, F.RequestStreamFrame, F.RequestChannelFrame, F.RequestFireAndForgetFrame)):
        return 'REQ%d' % fr.stream_id
    if isinstance(fr, F.KeepAliveFrame):
        return 'KA'
    return 'OTHER'


class ClientRun:
    def __init__(self, loop, n_transports=3, provider_ticks=0, connect_ticks=0, ka_ms=500, life_ms=60000, handler_cls=None, **client_kw):
        self.loop = loop
        self.log = []            # model events / observations in execution order
        self.times = []
        self.transports = [simnet.ScriptedTransport(loop, connect_ticks=connect_ticks, name=str(i)) for i in range(n_transports)]
        self.provider_ticks = provider_ticks
        self.timeouts = []
        self.closes = 0
        self.futures = []        # (id, future)
        self.ka_ms, self.life_ms = ka_ms, life_ms
        self.client_kw = client_kw
        self.handler_cls = handler_cls
        self.auto_reconnect_on_timeout = False
        self.reconnect_in_on_close = False
        self.adapter = None          # 'rx3' / 'rx4': the application's handler is a delegate behind the Rx / ReactiveX handler adapter
        self.on_close_sleep_ms = 0
        self.slow_on_close_ms = 0
        self.on_close_raises = False
        self.current = -1

    def ev(self, e):
        self.log.append(e)
        self.times.append(self.loop.now_ms())

    async def provider(self):
        for i, t in enumerate(self.transports):
            for _ in range(self.provider_ticks):
                await asyncio.sleep(0)
            self.current = i
            self.ev('G')
            yield t

    def build(self):
        from rsocket.rsocket_client import RSocketClient
        from rsocket.request_handler import BaseRequestHandler
        R = self

        class H(self.handler_cls or BaseRequestHandler):
            async def on_keepalive_timeout(self, time_since_last_keepalive, rsocket):
                R.ev('T')
                R.timeouts.append((R.loop.now_ms(), time_since_last_keepalive.total_seconds() * 1000))
                if R.auto_reconnect_on_timeout:
                    await rsocket.reconnect()

            async def on_close(self, rsocket, exception=None):
                R.closes += 1
                if R.reconnect_in_on_close:
                    # the application reacts to the loss by reconnecting right here (as tests/rsocket/test_connection_lost.py does)
                    await rsocket.reconnect()
                    if R.on_close_sleep_ms:
                        await asyncio.sleep(R.on_close_sleep_ms / 1000.0)      # ... and goes on with some slow clean-up of its own
                elif R.slow_on_close_ms:
                    await asyncio.sleep(R.slow_on_close_ms / 1000.0)          # an on_close that takes its time (examples/client_reconnect.py)
                if R.on_close_raises:
                    raise OSError(28, 'No space left on device')              # ... or fails (a flush of application state, say)

        for i, t in enumerate(self.transports):
            def on_sent(entry, i=i):
                R.ev('S:%d:%s' % (i, tag_of(entry[2])))
            t.on_sent = on_sent
            oc = t.close

            async def close(t=t, oc=oc, i=i):
                R.ev('TC:%d' % i)
                await oc()
            t.close = close
        factory = H
        if self.adapter:
            if self.adapter == 'rx3':
                from rsocket.rx_support.rx_handler import BaseRxHandler as Base
                from rsocket.rx_support.rx_handler_adapter import rx_handler_factory as wrap
            else:
                from rsocket.reactivex.reactivex_handler import BaseReactivexHandler as Base
                from rsocket.reactivex.reactivex_handler_adapter import reactivex_handler_factory as wrap

            class D(Base):
                on_keepalive_timeout = H.on_keepalive_timeout
                on_close = H.on_close
            factory = wrap(D)
        c = RSocketClient(self.provider(), handler_factory=factory, keep_alive_period=timedelta(milliseconds=self.ka_ms),
                          max_lifetime_period=timedelta(milliseconds=self.life_ms), **self.client_kw)
        self.client = c
        oconnect, oreset, oclose = c.connect, c._reset_internals, c._close

        async def connect():
            R.ev('C')
            return await oconnect()

        def reset():
            oreset()
            q = c._send_queue
            op = q.put_nowait
            seen = set()

            def put(item):
                if id(item) not in seen:
                    seen.add(id(item))
                    R._keep = getattr(R, '_keep', [])
                    R._keep.append(item)
                    tg = tag_of(item)
                    R.ev({'SETUP': 'QS', 'KA': 'K', 'OTHER': 'O'}.get(tg, 'R'))
                return op(item)
            q.put_nowait = put

        async def close(reconnect=False):
            if reconnect:
                R.ev('X')
            return await oclose(reconnect)
        c.connect, c._reset_internals, c._close = connect, reset, close
        return c

    def model_events(self):
        """-> (event tokens for the `cli` driver command, observed sends aligned with the S events, anomalies)"""
        evs, sends, anomalies = [], [], []
        prev = None
        for e in self.log:
            if e == 'QS':
                if prev != 'C':
                    anomalies.append('SETUP queued late (after %s)' % prev)
                    evs.append('QS-LATE')
            elif e.startswith('S:'):
                _, ti, tg = e.split(':')
                evs.append('S')
                sends.append(tg)
            elif e.startswith('TC:'):
                pass
            else:
                evs.append(e)
            prev = e
        return evs, sends, anomalies
