"""Base of the engine-level property checks (C07–C12): runs generated or explicit scripts on the real endpoint,
replays the observed entry-point sequence on `RSocketModel.Engine`, compares outputs step by step, and applies the
property's own oracle to the implementation's log."""
import json
import random

from harness.core import Prop
from harness import detloop, engine, enginegen


class EngineProp(Prop):
    profiles = ['legal']
    lean_modules = []
    n_quick = 2500
    n_thorough = 60000
    length = (6, 30)

    def cases(self, rng, tier):
        out = []
        n = self.n_quick if tier == 'quick' else self.n_thorough
        for k in range(n):
            out.append({'role': rng.choice(['server', 'client']), 'seed': rng.getrandbits(40), 'len': rng.randint(*self.length),
                        'profile': self.profiles[k % len(self.profiles)], 'fragment': rng.choice([None, None, 64]), 'slow': rng.random() < 0.2})
        return out

    def run_impl(self, case):
        return detloop.run(self._scenario, case)

    async def _scenario(self, loop, case):
        H = engine.EngineRun(loop, case['role'], lease_publisher=case.get('lease_publisher', False), fragment=case.get('fragment'))
        await H.start()
        await self.prologue(loop, H, case)
        script = []
        if 'script' in case:
            await H.run_script(case['script'])
            script = case['script']
            if getattr(H.t, 'gated', False):
                # (a shrunk script may have lost its closing "gate off": the link always recovers before the epilogue)
                await H.apply_async({'op': 'gate', 'on': False})
                await loop.settle()
        else:
            rng = random.Random(case['seed'])
            sh = enginegen.Shadow(case['role'])
            sh.big = bool(case.get('fragment'))
            slow = bool(case.get('slow'))
            if slow:
                # a slow link: writes block until released, a few per group, so that frames of several streams wait in the send queue together
                await H.apply_async({'op': 'gate', 'on': True})
                script.append([{'op': 'gate', 'on': True}])
            for pos in range(case['len']):
                group = enginegen.choose_group(rng, H, sh, case['profile'], pos)
                if not group:
                    continue
                if slow:
                    group = group + [{'op': 'release', 'n': rng.choice([0, 1, 1, 2, 3])}]
                for s in group:
                    await H.apply_async(s)
                await loop.settle()
                enginegen.after_apply(sh, H)
                script.append(group)
            if sh.pending_frags and not H.closed_seen and case['profile'] != 'loss':
                # the peer finishes the frames it started (a script must not end inside a frame unless the connection ends there)
                group = list(sh.pending_frags)
                sh.pending_frags = []
                for s in group:
                    await H.apply_async(s)
                await loop.settle()
                script.append(group)
            if case['profile'] == 'loss' and not H.closed_seen:
                if rng.random() < 0.2:
                    # the write side breaks first (a send_frame call raises), the read side notices a little later
                    await H.apply_async({'op': 'wfail'})
                    script.append([{'op': 'wfail'}])
                    for pos in range(rng.randint(1, 3)):
                        group = enginegen.choose_group(rng, H, sh, 'legal', pos)
                        for s in group:
                            await H.apply_async(s)
                        await loop.settle()
                        enginegen.after_apply(sh, H)
                        if group:
                            script.append(group)
                tail = [[rng.choice([{'op': 'lost', 'mode': 'eof'}, {'op': 'lost', 'mode': 'error'}, {'op': 'close'}])]]
                # the application's on_close may fail, or be suspended while the application closes the endpoint
                r = rng.random()
                if tail[0][0]['op'] == 'lost' and r < 0.2:
                    tail[0][0]['on_close'] = 'raise'
                elif tail[0][0]['op'] == 'lost' and r < 0.4:
                    tail[0][0]['on_close'] = 'suspend'
                    tail.append([{'op': 'close'}])
                if rng.random() < 0.35:
                    # a one-way request handed to the library in the same loop iteration as the end of the connection
                    tail[0].insert(0, rng.choice([{'op': 'FNF', 'data': sh.fresh(1)}, {'op': 'MP', 'data': sh.fresh(1)}]))
                for group in tail:
                    for s in group:
                        await H.apply_async(s)
                    await loop.settle()
                    script.append(group)
                for pos in range(3):
                    group = enginegen.choose_group(rng, H, sh, 'legal', pos)
                    for s in group:
                        await H.apply_async(s)
                    await loop.settle()
                    if group:
                        script.append(group)
            if slow:
                # the link recovers (or, after a loss, nothing is left to release)
                await H.apply_async({'op': 'gate', 'on': False})
                await loop.settle()
                script.append([{'op': 'gate', 'on': False}])
            H.poll_futures()
        extra = await self.epilogue(loop, H, case)
        fin = await H.finish()
        return {'steps': H.steps(), 'final': fin, 'script': script, 'extra': extra,
                'kinds': [o['kind'] for o in H.objs], 'sids': [self._sid(H, o) for o in H.objs]}

    @staticmethod
    def _sid(H, o):
        if o['kind'] in ('stReq', 'chReq'):
            return o['req'].stream_id
        return o['sid']

    async def epilogue(self, loop, H, case):
        return None

    async def prologue(self, loop, H, case):
        return None

    def model_lines(self, case, obs):
        first = 2 if case['role'] == 'server' else 1
        return ['eng %d %d %s' % (first, 1 if case.get('lease_publisher') else 0, ' '.join(m for m, _ in obs['steps']))]

    def compare(self, case, obs, answers):
        a = answers[0]
        if '||' not in a:
            return 'model: %s' % a[:200]
        body, fin = a.split(' || ')
        msteps = body.split(' | ') if obs['steps'] else []
        if any(ms.strip() == 'OOD' for ms in msteps):
            return None      # a raw message in a region the codec model does not cover (RESUME body etc.): not compared
        if len(msteps) != len(obs['steps']):
            return 'step count differs: impl %d model %d' % (len(obs['steps']), len(msteps))
        for idx, ((marker, outs), ms) in enumerate(zip(obs['steps'], msteps)):
            mo = engine.canon_model_step(ms)
            if outs != mo:
                return 'step %d (%s): impl %s / model %s' % (idx, marker, ' '.join(outs)[:300], ' '.join(mo)[:300])
        t = ','.join(map(str, obs['final']['table'])) or '-'
        c = ','.join(map(str, obs['final']['cache'])) or '-'
        fin_tc, _, pend = fin.strip().partition(' P=')
        if fin_tc != 'T=%s C=%s' % (t, c):
            return 'final state: impl T=%s C=%s / model %s' % (t, c, fin.strip())
        if pend not in ('', '-'):
            # the loop was left to settle after every group, so every done-callback the library registers has run (and was logged as an
            # event); a callback the model still expects was never registered or never ran
            return 'final state: the model expects the done-callback of object(s) %s to run; the implementation never ran it' % pend

    def nontrivial(self, case, obs):
        if len(obs['steps']) >= 4 and len(obs['kinds']) >= 1:
            return json.dumps([case['role'], [m for m, _ in obs['steps']]])
        return None

    def stats(self, case, obs):
        yield 'role=' + case['role']
        yield 'profile=' + case.get('profile', 'explicit')
        for k in set(obs['kinds']):
            yield 'kind=' + k
        ms = [m.split(':')[0] for m, _ in obs['steps']]
        for m in set(ms):
            yield 'ev=' + m
        if any(m.startswith('CBQ') or m.startswith('CBP') for m in ms):
            yield 'has-deferred-callback'

    def shrink_candidates(self, case):
        if 'script' in case:
            sc = case['script']
            for i in range(len(sc)):
                yield dict(case, script=sc[:i] + sc[i + 1:])
            for i in range(len(sc)):
                if len(sc[i]) > 1:
                    for j in range(len(sc[i])):
                        yield dict(case, script=sc[:i] + [sc[i][:j] + sc[i][j + 1:]] + sc[i + 1:])

    def explicit(self, case, obs):
        """turn a seeded case into an explicit-script case (for shrinking and replay)"""
        c = {k: v for k, v in case.items() if k not in ('seed', 'len')}
        c['script'] = obs['script']
        return c


# ---- log utilities for the oracles --------------------------------------------------------------

def flat(obs):
    """[(step index, marker, token)]"""
    out = []
    for i, (m, outs) in enumerate(obs['steps']):
        for t in outs:
            out.append((i, m, t))
    return out


def parse_send(tok):
    _, ty, sid, fl, n, code, data = tok.split(':')
    return {'ty': ty, 'sid': int(sid), 'follows': fl[0] == '1', 'complete': fl[1] == '1', 'next': fl[2] == '1', 'respond': fl[3] == '1',
            'n': int(n), 'code': int(code), 'data': data}


def parse_recv(marker):
    _, ty, sid, fl, n, code, data, beh = marker.split(':')
    return {'ty': ty, 'sid': int(sid), 'follows': fl[0] == '1', 'complete': fl[1] == '1', 'next': fl[2] == '1', 'respond': fl[3] == '1',
            'n': int(n), 'code': int(code), 'data': data, 'beh': beh}
