import RSocketModel.Proofs.C05Lemmas
/-!
# C05 — Per-stream wire order and fragment contiguity under multiplexing

Property theorems only; all statements are for every sequence of `send_frame` /
`send_priority_frame` / sender-step events in any interleaving (the sender being blocked in
`drain` for any duration is "no `step` event for a while").
-/
namespace RSocketModel.SendQueue

variable {β : Type}

/-- **Per-stream order.** At every moment, for every stream, what has been emitted for it
followed by what is still queued for it is exactly what was queued for it, in queueing order,
fragment by fragment. -/
theorem c05_stream_order (evs : List (Ev β)) (h : Legal init evs) (sid : Nat) :
    wireOf sid (run init evs).wire ++ pending sid (run init evs).queue = queuedFor sid evs := by
  have := run_order sid evs init h
  simpa [init, wireOf, pending] using this

/-- **Contiguity.** The frames of a stream reach the wire as a prefix of the concatenation of
their fragment lists: no frame of that stream is sent between two fragments of another frame of
the same stream, none is merged, truncated, duplicated or reordered. -/
theorem c05_wire_is_prefix (evs : List (Ev β)) (h : Legal init evs) (sid : Nat) :
    ∃ rest, queuedFor sid evs = wireOf sid (run init evs).wire ++ rest :=
  ⟨_, (c05_stream_order evs h sid).symm⟩

/-- The same at every intermediate moment (every prefix of the event sequence). -/
theorem c05_every_prefix (evs more : List (Ev β)) (h : Legal init (evs ++ more)) (sid : Nat) :
    ∃ rest, queuedFor sid (evs ++ more) = wireOf sid (run init evs).wire ++ rest := by
  have hl : Legal init evs := by
    clear sid
    generalize init = s at h ⊢
    induction evs generalizing s with
    | nil => trivial
    | cons e es ih => exact ⟨h.1, ih _ h.2⟩
  obtain ⟨r, hr⟩ := c05_wire_is_prefix evs hl sid
  exact ⟨r ++ queuedFor sid more, by rw [queuedFor_append, hr, List.append_assoc]⟩

/-- **No starvation / everything is sent exactly once.** From any state whose queued frames all
have at least one fragment, as many sender steps as there are queued fragments empty the queue,
each step emitting exactly one fragment. -/
theorem c05_drains (s : State β) (hall : AllNonempty s.queue) :
    (run s (List.replicate (total s.queue) .step)).queue = [] ∧
    (run s (List.replicate (total s.queue) .step)).wire.length = s.wire.length + total s.queue := by
  induction hn : total s.queue generalizing s with
  | zero =>
    simp only [List.replicate_zero, run, List.foldl_nil, Nat.add_zero, and_true]
    exact total_zero _ hall hn
  | succ n ih =>
    have hne : s.queue ≠ [] := by
      intro h; rw [h] at hn; simp [total] at hn
    obtain ⟨h1, h2, h3⟩ := step_total s hne hall
    have := ih (step s) h2 (by omega)
    simp only [List.replicate_succ, run, List.foldl_cons, apply] at this ⊢
    exact ⟨this.1, by rw [this.2, h3]; omega⟩

/-- After the queue has drained, the wire of each stream is exactly what was queued for it. -/
theorem c05_drained_exact (evs : List (Ev β)) (h : Legal init evs) (hq : (run init evs).queue = []) (sid : Nat) :
    wireOf sid (run init evs).wire = queuedFor sid evs := by
  have := c05_stream_order evs h sid
  rw [hq] at this
  simpa [pending] using this

/-- Frames of different streams do interleave between fragments (the repair of F3 must not
serialise everything): stream 1 queues a 3-fragment frame and a completion, stream 2 a
2-fragment frame. -/
example :
    (run init [.enq ⟨1, [10, 11, 12]⟩, .enq ⟨1, [13]⟩, .enq ⟨2, [20, 21]⟩,
               .step, .step, .step, .step, .step, .step]).wire
      = [(1, 10), (2, 20), (1, 11), (2, 21), (1, 12), (1, 13)] := by decide

theorem c05_counterexample_head_only :
    wireOf 1 ((stepHeadOnly ∘ stepHeadOnly ∘ stepHeadOnly ∘ stepHeadOnly)
      ({ queue := [⟨1, [10, 11, 12]⟩, ⟨1, [13]⟩], wire := [] } : State Nat)).wire ≠ [10, 11, 12, 13] := by decide

end RSocketModel.SendQueue
