import RSocketModel.Props.C02
import RSocketModel.Errors
import RSocketModel.Builders
import RSocketModel.Gen.Errors
/-!
# C02 / C12 — a failure answered on a stream arrives as that failure

Property theorems about `exception_to_error_frame` / `error_frame_to_exception` composed with the
codec: whatever exception a handler, a publisher or the library itself raises for a stream, the
requester's application is handed the same error code and the same text, on that stream.
-/
namespace RSocketModel.Errors
open RSocketModel.Codec

/-- **`toErrorFrame` is the source's `exception_to_error_frame`**: the frame object the regenerated
function (`Gen/Errors.lean`, from the AST of `rsocket/frame.py` on every run) builds for a protocol
error (its code, its text or `None`) or for any other exception (`str(exception)`), read by the
encoder, is the hand-written rule's frame. -/
theorem c02_error_frame_matches_source (sid : Nat) (e : Exc) :
    Builders.interp (match e with
      | .protocol c t => Gen.exception_to_error_frame (.nat sid) true (.nat c) (Builders.ov t) .none
      | .other t => Gen.exception_to_error_frame (.nat sid) false .none .none (.bytes t)) = some (toErrorFrame sid e) := by
  cases e with
  | protocol c t => cases t <;> rfl
  | other t => rfl

/-- **error round trip**: for every stream id, every exception with a code of the protocol's table
(or any non-protocol exception, which travels as APPLICATION_ERROR), the ERROR frame built for it,
serialised and decoded by the peer, converts back to the exception `seenByPeer` describes — same
code, same text, byte for byte; a non-protocol exception becomes a `RuntimeError` with its text. -/
theorem c02_error_roundtrip (sid : Nat) (e : Exc) (hs : sid < 2 ^ 31)
    (hc : ∀ c t, e = .protocol c t → c ∈ errorCodes) :
    ∃ f, decode (encode (toErrorFrame sid e)) = .frame f ∧ f.sid = sid ∧ ofErrorFrame f = some (seenByPeer e) := by
  have happ : applicationError ∈ errorCodes := by decide
  cases e with
  | protocol c t =>
    have hwf : WF (toErrorFrame sid (.protocol c t)) := ⟨hs, hc c t rfl⟩
    refine ⟨_, c02_decode_encode _ hwf, ?_, ?_⟩
    · simp [toErrorFrame, canon, Frame.sid]
    · simp only [toErrorFrame, canon, ofErrorFrame, seenByPeer]
  | other t =>
    have hwf : WF (toErrorFrame sid (.other t)) := ⟨hs, happ⟩
    refine ⟨_, c02_decode_encode _ hwf, ?_, ?_⟩
    · simp [toErrorFrame, canon, Frame.sid]
    · simp [toErrorFrame, canon, ofErrorFrame, seenByPeer]

/-- an application failure never masquerades as a protocol error: whatever text it carries, the
peer gets a `RuntimeError`, and a protocol error other than APPLICATION_ERROR never arrives as one -/
theorem c02_error_kinds_kept (sid : Nat) (e : Exc) :
    (∀ t, e = .other t → ofErrorFrame (toErrorFrame sid e) = some (.runtime t)) ∧
    (∀ c t, e = .protocol c t → c ≠ applicationError →
      ∃ d, ofErrorFrame (toErrorFrame sid e) = some (.protocol c d)) := by
  constructor
  · intro t h; subst h; simp [toErrorFrame, ofErrorFrame]
  · intro c t h hne; subst h
    exact ⟨textOf t, by simp [toErrorFrame, ofErrorFrame, hne]⟩

/-- the ERROR frame is addressed to the stream the failure belongs to and carries no IGNORE flag -/
theorem c02_error_frame_on_its_stream (sid : Nat) (e : Exc) :
    (toErrorFrame sid e).sid = sid ∧ (toErrorFrame sid e).ign = false ∧ (toErrorFrame sid e).ty = 11 := by
  cases e <;> simp [toErrorFrame, Frame.sid, Frame.ign, Frame.ty]

/-- **an ERROR frame with an undefined code is not a frame**: whatever follows, a body of type ERROR
whose 32-bit code is none of the protocol's (the reserved 0, the gaps, the application range, the
reserved top values) fails to decode — it can only become the invalid-frame marker (or be dropped
when flagged IGNORE), never an ERROR frame with some substitute code -/
theorem c02_undefined_error_code_is_not_a_frame (h : Header) (hty : h.ty = 11) (c : Nat) (hc : c < 2 ^ 32)
    (hnot : c ∉ errorCodes) (d : Bytes) : parseBody h (beBytes 4 c ++ d) = .fail := by
  simp only [parseBody, hty]
  rw [readBE_be 4 c _ (by omega)]
  simp [R.bind_ok, hnot]

/-- non-vacuity: REJECTED (0x202) with a text, and an application failure -/
example : (0x202 : Nat) ∈ errorCodes ∧ seenByPeer (.protocol 0x202 (some [0x6e, 0x6f])) = .protocol 0x202 [0x6e, 0x6f] ∧
    seenByPeer (.other [0x78]) = .runtime [0x78] := by decide

end RSocketModel.Errors
