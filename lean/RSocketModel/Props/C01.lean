import RSocketModel.Proofs.Pipeline
import RSocketModel.Proofs.Bridge
import RSocketModel.Props.C02
import RSocketModel.Props.C10
import RSocketModel.Engine.Signals
import RSocketModel.Engine.NetProofs
/-!
# C01 — End-to-end payload delivery and request/response correlation  (composition; **partial**)

The path of a payload: handed to the library as a frame → fragmented (`FrameFragmenter`, C03) →
queued and interleaved with the frames of other streams by the sender task (C05) → serialised
(C02) → carried as a byte stream cut into arbitrary reads (C04) → parsed → reassembled per stream
(`FrameFragmentCache`, C03) → dispatched by stream id to the handler registered for it (engine
model, C10/C12/C13).

`c01_pipeline` composes the sender side and the receiver side for **every** schedule of
application sends and sender steps, every fragment size ≥ the minimum (or none), every mix of
streams: per stream, the frames the receiver's reassembly delivers are exactly the frames handed
to the library for that stream — each once, in order, content and flags intact — and nothing of
another stream. `c01_transport` adds the byte stream: with a codec that round-trips (C02:
`c02_decode_encode`) any chunking of the length-prefixed encodings yields the same frames.
`c01_end_to_end` is the two together. `c01_response_reaches_its_requester` and
`c01_fresh_stream_per_request` are the correlation half on the engine model.

`c01_end_to_end_bytes` closes the codec hypothesis with C02's decoder and encoder themselves
(`Proofs/Bridge.lean`: `bridge : OnWire f → parseF (encF f) = [f]`, `onWire_toFrames`, `encF_length`):
frames within the wire format's ranges, the real serialisation of every fragment, any chunking.

Partial: which *subscriber / awaitable* a reassembled frame reaches is the engine model's theorems
(`c01_response_reaches_its_requester`, `c01_dispatch_by_stream_id`, C07, C10, C13), stated on the
engine's abstract frames and not re-proved through the byte path; timing and the asyncio
scheduling are outside the models. What ties all layers together on the real code is the
two-endpoint link harness of the C01 check.
-/
namespace RSocketModel.Pipeline

open Fragment SendQueue

variable {α : Type}

/-- **sender and receiver composed.** For every schedule of application sends and sender-task
passes that ends with the queue drained, every fragment size, every mix of streams: what the
receiver's reassembly delivers for a stream is exactly what was handed to the library for that
stream — each frame once, in order, content and flags intact, nothing from another stream. -/
theorem c01_pipeline (F : Nat) (lp : Bool) (hF : Gen.minimumFragmentSize ≤ F) (sched : List (Option (Base α)))
    (hty : ∀ b, some b ∈ sched → b.ty ∈ Gen.fragmentableTypes)
    (hdrain : (run init (evsOf F lp sched)).queue = []) (sid : Nat) :
    ((deliver [] ((run init (evsOf F lp sched)).wire.map (·.2))).filter (·.sid == sid)).map forget =
      ((handed sched).filter (·.sid == sid)).map canonBase := by
  have hcons := cons_run F lp hF sched hty init ⟨by simp [init], by simp [init]⟩
  have hlegal := legal_evsOf F lp hF sched hty init
  have hwire := c05_drained_exact (evsOf F lp sched) hlegal hdrain sid
  rw [queuedFor_evsOf] at hwire
  have hproj := (deliver_proj sid ((run init (evsOf F lp sched)).wire.map (·.2)) [] [] keyOK_nil keyOK_nil rfl).1
  rw [hproj, wire_proj _ hcons, hwire]
  refine (deliver_stream F lp hF sid _ [] (by simp [Cache.get?]) ?_).1
  intro b hb
  simp only [List.mem_filter, beq_iff_eq] at hb
  refine ⟨hb.2, hty b ?_⟩
  have : ∀ (l : List (Option (Base α))), b ∈ handed l → some b ∈ l := by
    intro l
    induction l with
    | nil => intro h; simp [handed] at h
    | cons x r ih =>
      intro h
      cases x with
      | none => simp only [handed] at h; simp [ih h]
      | some b' =>
        simp only [handed, List.mem_cons] at h
        rcases h with rfl | h
        · simp
        · simp [ih h]
  exact this sched hb.1

/-- **the byte stream**: with a codec that round-trips, any chunking of the length-prefixed
encodings of the wire frames is parsed to exactly those frames, in order -/
theorem c01_transport {β : Type} (enc : β → RSocketModel.Bytes) (parse : RSocketModel.Bytes → List β)
    (wire : List β) (hcodec : ∀ f ∈ wire, parse (enc f) = [f]) (hlen : ∀ f ∈ wire, (enc f).length < 2 ^ 24)
    (chunks : List RSocketModel.Bytes) (h : chunks.flatten = ((wire.map enc).map Parser.prefixed).flatten) :
    Parser.feedAll parse [] chunks = (wire, []) := by
  rw [Parser.c04_frames_exact_chunked parse (wire.map enc) (by
    intro f hf
    simp only [List.mem_map] at hf
    obtain ⟨x, hx, rfl⟩ := hf
    exact hlen x hx) chunks h]
  congr 1
  clear h hlen
  induction wire with
  | nil => rfl
  | cons x r ih =>
    simp only [List.map_cons, List.flatMap_cons, hcodec x (by simp), List.singleton_append]
    rw [ih (fun f hf => hcodec f (by simp [hf]))]

/-- **end to end**: frames handed to the library on one endpoint, fragmented, interleaved by the
sender, serialised, cut into arbitrary reads, parsed and reassembled on the other endpoint -/
theorem c01_end_to_end (F : Nat) (lp : Bool) (hF : Gen.minimumFragmentSize ≤ F) (sched : List (Option (Base α)))
    (hty : ∀ b, some b ∈ sched → b.ty ∈ Gen.fragmentableTypes)
    (hdrain : (run init (evsOf F lp sched)).queue = [])
    (enc : FFrame α → RSocketModel.Bytes) (parse : RSocketModel.Bytes → List (FFrame α)) (hcodec : ∀ f, parse (enc f) = [f])
    (hlen : ∀ f, (enc f).length < 2 ^ 24) (chunks : List RSocketModel.Bytes)
    (hchunks : chunks.flatten = ((((run init (evsOf F lp sched)).wire.map (·.2)).map enc).map Parser.prefixed).flatten)
    (sid : Nat) :
    ((deliver [] (Parser.feedAll parse [] chunks).1).filter (·.sid == sid)).map forget =
      ((handed sched).filter (·.sid == sid)).map canonBase := by
  rw [c01_transport enc parse _ (fun f _ => hcodec f) (fun f _ => hlen f) chunks hchunks]
  exact c01_pipeline F lp hF sched hty hdrain sid

/-- **end to end, down to the bytes**: the same with the codec of C02 in place of the hypothesis —
frames within the wire format's ranges, the real serialisation of every fragment, the real parser,
any chunking -/
theorem c01_end_to_end_bytes (F : Nat) (lp : Bool) (hF : Gen.minimumFragmentSize ≤ F) (hFmax : F + 3 < 2 ^ 24)
    (sched : List (Option (Base UInt8))) (hwf : ∀ b, some b ∈ sched → WFBase b)
    (hdrain : (run init (evsOf F lp sched)).queue = []) (chunks : List RSocketModel.Bytes)
    (hchunks : chunks.flatten = ((((run init (evsOf F lp sched)).wire.map (·.2)).map encF).map Parser.prefixed).flatten)
    (sid : Nat) :
    ((deliver [] (Parser.feedAll parseF [] chunks).1).filter (·.sid == sid)).map forget =
      ((handed sched).filter (·.sid == sid)).map canonBase := by
  have hty : ∀ b, some b ∈ sched → b.ty ∈ Gen.fragmentableTypes := fun b hb => (hwf b hb).1
  have hq := qinv_run (fun _ f => OnWire f ∧ (encF f).length < 2 ^ 24) F lp sched (by
    intro b hb f hf
    have how := onWire_toFrames b F lp hF (hwf b hb) f hf
    refine ⟨how, ?_⟩
    rw [encF_length f how.1]
    have h1 := (c03_size_partial b F lp (hty b hb) hF f hf).1
    have h2 : wireSize f false ≤ wireSize f lp := by
      simp only [wireSize, lpBytes, Bool.false_eq_true, if_false]; omega
    omega) init ⟨by simp [init], by simp [init]⟩
  have hmem : ∀ f ∈ (run init (evsOf F lp sched)).wire.map (·.2), OnWire f ∧ (encF f).length < 2 ^ 24 := by
    intro f hf
    simp only [List.mem_map] at hf
    obtain ⟨p, hp, rfl⟩ := hf
    exact hq.2 p hp
  rw [c01_transport encF parseF _ (fun f hf => bridge f (hmem f hf).1) (fun f hf => (hmem f hf).2) chunks hchunks]
  exact c01_pipeline F lp hF sched hty hdrain sid

/-- non-vacuity of the drain hypothesis: enough sender passes always drain the queue (C05) -/
theorem c01_drainable (F : Nat) (lp : Bool) (hF : Gen.minimumFragmentSize ≤ F) (bs : List (Base α))
    (hty : ∀ b ∈ bs, b.ty ∈ Gen.fragmentableTypes) :
    ∃ k, (run init (evsOf F lp (bs.map some ++ List.replicate k none))).queue = [] := by
  have hev : ∀ (a b : List (Option (Base α))), evsOf F lp (a ++ b) = evsOf F lp a ++ evsOf F lp b := by
    intro a b
    induction a with
    | nil => rfl
    | cons x r ih => cases x <;> simp [evsOf, ih]
  have hrep : ∀ k, evsOf F lp (List.replicate k (none : Option (Base α))) = List.replicate k .step := by
    intro k
    induction k with
    | zero => rfl
    | succ n ih => simp [List.replicate_succ, evsOf, ih]
  let s1 := run (init : State (FFrame α)) (evsOf F lp (bs.map some))
  have hall : AllNonempty s1.queue := by
    have : ∀ (l : List (Base α)) (s : State (FFrame α)), (∀ b ∈ l, b.ty ∈ Gen.fragmentableTypes) → AllNonempty s.queue →
        AllNonempty (run s (evsOf F lp (l.map some))).queue := by
      intro l
      induction l with
      | nil => intro s _ h; exact h
      | cons b r ih =>
        intro s hl h
        simp only [List.map_cons, evsOf, run, List.foldl_cons, apply]
        refine ih _ (fun x hx => hl x (by simp [hx])) ?_
        intro src hs
        simp only [List.mem_append, List.mem_singleton] at hs
        rcases hs with hs | rfl
        · exact h src hs
        · exact toFrames_ne_nil F lp hF b (hl b (by simp))
    exact this bs init hty (by intro src hs; simp [init] at hs)
  refine ⟨total s1.queue, ?_⟩
  rw [hev, hrep]
  have : run init (evsOf F lp (bs.map some) ++ List.replicate (total s1.queue) Ev.step) =
      run s1 (List.replicate (total s1.queue) .step) := by
    simp only [run, List.foldl_append, s1]
  rw [this]
  exact (c05_drains s1 hall).1

/-! ### non-vacuity: a concrete schedule with two streams, a 3-fragment payload interleaved with
another stream's frame, drained -/

def exB1 : Base Nat := ⟨Gen.tyPayload, 1, 0, true, [], List.replicate 130 7⟩
def exB2 : Base Nat := ⟨Gen.tyPayload, 3, 0, false, [5], [9, 9]⟩
def exB3 : Base Nat := ⟨Gen.tyPayload, 1, 0, true, [4], []⟩
def exSched : List (Option (Base Nat)) := [some exB1, none, some exB2, some exB3, none, none, none, none]

example : (run init (evsOf 64 false exSched)).queue = [] ∧
    ((run init (evsOf 64 false exSched)).wire.map (fun p => (p.1, p.2.d.length))) =
      [(1, 58), (1, 58), (3, 2), (1, 14), (1, 0)] := by
  decide +kernel

end RSocketModel.Pipeline

namespace RSocketModel.Engine

/-- **correlation**: a response frame is handed to the requester registered under its stream id
and to no other application object: the awaitable of that very request is resolved with the
frame's payload -/
theorem c01_response_reaches_its_requester (st : State) (hw : WF st) (hc : st.closed = false) (sid oid : Nat) (s : Stream)
    (h0 : sid ≠ 0) (hreg : st.oidOf sid = some oid) (ho : st.obj oid = some s) (hk : s.kind = .rrReq) (hf : s.fut = .pending)
    (hcache : st.cache.find? (·.1 == sid) = none) (data : List Nat) (b : Behaviour) :
    (step st (.recv { ty := .payload, sid := sid, data := data, next := true, complete := true } b)).2 = [.futResult oid data] := by
  simp [step, recvStep, hc, isFragmentable, cacheAppend, hcache, h0, isInitiate, hreg, ho, frameReceived, hk, hf, State.emit]

/-- every object a received frame can address is the one registered under the frame's stream id
(or the fresh object of a new request) -/
theorem c01_dispatch_by_stream_id (st : State) (hw : WF st) (f : Frame) (b : Behaviour) (x : Out)
    (hx : x ∈ (step st (.recv f b)).2) (oid : Nat) (ht : x.target = some oid) :
    oid = st.heap.length ∨ st.oidOf f.sid = some oid := by
  have hx := mem_emit _ _ _ hx
  simp only at hx
  unfold recvStep at hx
  split at hx
  · simp at hx
  · have hspec := cacheAppend_spec st hw f
    generalize hgen : (if isFragmentable f.ty = true then cacheAppend st f else (st, some (Except.ok f))) = r at hx
    have hsid : ∀ cf, r.2 = some (.ok cf) → cf.sid = f.sid := by
      intro cf hcf
      rw [← hgen] at hcf
      split at hcf
      · exact hspec.2.1 cf hcf
      · simp only [Option.some.injEq, Except.ok.injEq] at hcf; rw [← hcf]
    have hheap : r.1.heap = st.heap ∧ r.1.table = st.table := by
      rw [← hgen]; split
      · exact ⟨hspec.2.2.2.1, hspec.2.2.1⟩
      · exact ⟨rfl, rfl⟩
    rcases r with ⟨st', c⟩
    simp only at hx hsid hheap
    split at hx
    · simp at hx
    · simp only [List.mem_singleton] at hx; subst hx; cases ht
    · rename_i _ cf
      split at hx
      · have := handleByType_targets st' _ b x hx
        rw [ht, hheap.1] at this
        rcases this with h | h
        · cases h
        · left; simpa using h
      · split at hx
        · simp only [List.mem_singleton] at hx; subst hx; cases ht
        · split at hx
          · simp only [List.mem_singleton] at hx; subst hx; cases ht
          · rename_i _ oid' hoid' _ s' hs'
            have := frameReceived_targets st' oid' s' _ x hx
            rw [ht] at this
            rcases this with h | h
            · cases h
            · right
              simp only [Option.some.injEq] at h
              subst h
              have : st.oidOf f.sid = st'.oidOf cf.sid := by
                simp only [State.oidOf, hheap.2, hsid cf rfl]
              rw [this]; exact hoid'

/-! ### two endpoints and the link between them (`Engine/Net.lean`) -/

/-- **exactly-once-at-most, in order, intact, to no other stream — for every interleaving.** Two
engines (client and server) joined by a FIFO of whole frames per direction; any interleaving of
local entry points on either side — requests, publisher signals, future resolutions, cancellations,
done-callbacks, connection loss — with deliveries of the oldest frame in flight. For every stream id
`s` and either endpoint `x`: the non-empty payloads handed to `x`'s application for `s` (stream
elements, responses, requests given to the handler) are a subsequence of the non-empty payloads the
peer's application handed to the library on `s`, in the order it did: nothing is delivered twice,
altered, out of order, or on a stream it was not sent on; and an entry point that processes no
frame delivers nothing at all. -/
theorem c01_two_endpoints (lpA lpB : Bool) (evs : List NEv) (x : Bool) (s : Nat) :
    (deliveredAt x s ((Net.init lpA lpB).run evs).2).Sublist (producedAt (!x) s ((Net.init lpA lpB).run evs).2) := by
  have := deliver_gen x s evs (Net.init lpA lpB) [] [] (netGood_init lpA lpB) (List.Sublist.refl _)
  rw [producedAt_eq]
  simpa [Net.init] using this

/-- non-vacuity: a request-response and a stream interleaved between the two endpoints; everything
handed in on one side comes out on the other -/
def exNet : List NEv := [.loc true (.requestResponse [1, 2]), .loc true (.requestStream [3] 5 true),
  .dlv false .futPending, .dlv false .publisher, .loc false (.pubNext 1 [7] false), .loc false (.hfResolve 0 [9]),
  .loc false (.cbRRResp 0), .dlv true .ok, .loc false (.pubNext 1 [8] true), .dlv true .ok, .dlv true .ok]

example : deliveredAt true 3 (Net.init.run exNet).2 = [[7], [8]] ∧ producedAt false 3 (Net.init.run exNet).2 = [[7], [8]] ∧
    deliveredAt true 1 (Net.init.run exNet).2 = [[9]] ∧ deliveredAt false 1 (Net.init.run exNet).2 = [[1, 2]] ∧
    deliveredAt false 3 (Net.init.run exNet).2 = [[3]] := by decide +kernel

/-- nothing is lost while the receiving side is listening: an element for a subscribed, registered
stream requester is handed to its subscriber -/
theorem c01_element_reaches_its_subscriber (st : State) (hc : st.closed = false) (sid oid : Nat) (s : Stream)
    (h0 : sid ≠ 0) (hreg : st.oidOf sid = some oid) (ho : st.obj oid = some s) (hk : s.kind = .stReq) (hs : s.subscribed = true)
    (hcache : st.cache.find? (·.1 == sid) = none) (data : List Nat) (c : Bool) (b : Behaviour) :
    (step st (.recv { ty := .payload, sid := sid, data := data, next := true, complete := c } b)).2 = [.onNext oid data c] := by
  simp [step, recvStep, hc, isFragmentable, cacheAppend, hcache, h0, isInitiate, hreg, ho, frameReceived, hk, hs, State.emit]

/-- … and a request on a fresh stream id reaches the handler with its payload -/
theorem c01_request_reaches_handler (st : State) (hc : st.closed = false) (sid : Nat) (ty : FType) (hty : isInitiate ty = true)
    (hfree : st.isActive sid = false) (hcache : st.cache.find? (·.1 == sid) = none) (data : List Nat) (n : Nat) (b : Behaviour) :
    Out.handlerCall ty data ∈ (step st (.recv { ty := ty, sid := sid, data := data, n := n } b)).2 := by
  cases ty <;> simp [isInitiate] at hty <;>
    simp [step, recvStep, hc, isFragmentable, cacheAppend, hcache, isInitiate, handleByType, hfree, State.emit] <;>
    (cases b <;> simp <;> (repeat' split) <;> simp)

end RSocketModel.Engine
