import RSocketModel.Engine.Step
/-! # C01 — placeholder until the composition theorem lands -/
namespace RSocketModel.Engine
theorem c01_placeholder : (init 1).closed = false := rfl
end RSocketModel.Engine
