import RSocketModel.Credit
import RSocketModel.Engine.Step
import RSocketModel.Engine.Invariants
import RSocketModel.Proofs.CollectorLemmas
/-!
# C06 — Request-n flow control: emission never exceeds granted credit
-/
namespace RSocketModel.Credit

variable {α : Type}

theorem elems_append (a b : List (Item α)) : elems (a ++ b) = elems a ++ elems b := by
  induction a with
  | nil => rfl
  | cons x xs ih => cases x <;> simp [elems, ih]

/-- credit accounting and order: what was delivered, what is queued, the credit being served and the
credits still waiting never add up to more than the credit received; delivered ++ queued ++ not yet
produced is the source, in order -/
def Inv (orig : List α) (s : State α) : Prop :=
  s.emitted.length + (elems s.outQ).length + s.cur + s.creditQ.sum ≤ s.received ∧
  s.emitted ++ elems s.outQ ++ s.src = orig

theorem inv_init (src : List α) (f e : Bool) : Inv src (init src f e) := by simp [Inv, init, elems]

theorem inv_step (orig : List α) (s : State α) (e : Ev) (h : Inv orig s) : Inv orig (step s e) := by
  obtain ⟨h1, h2⟩ := h
  cases e with
  | request n =>
    simp only [step]
    split
    · exact ⟨h1, h2⟩
    · exact ⟨by simp; omega, h2⟩
  | cancel => exact ⟨h1, h2⟩
  | produce =>
    simp only [step]
    split
    · exact ⟨h1, h2⟩
    · split
      · rename_i hc
        split
        · exact ⟨h1, h2⟩
        · rename_i n rest hq
          refine ⟨?_, h2⟩
          simp only [hq, List.sum_cons] at h1
          simp only
          omega
      · rename_i hc
        split
        · rename_i x rest hs
          refine ⟨?_, ?_⟩
          · simp only [elems_append, elems, List.length_append, List.length_cons, List.length_nil]
            omega
          · simp only [elems_append, elems, hs] at h2 ⊢
            simpa [List.append_assoc] using h2
        · rename_i hs
          refine ⟨?_, ?_⟩
          · simp only [elems_append, List.length_append]
            split <;> simp [elems] <;> omega
          · simp only [elems_append]
            split <;> simpa [elems] using h2
  | feed =>
    simp only [step]
    split
    · exact ⟨h1, h2⟩
    · split
      · exact ⟨h1, h2⟩
      · rename_i x c rest hq
        simp only [hq, elems, List.length_cons] at h1 h2
        refine ⟨by simp; omega, by simpa [List.append_assoc] using h2⟩
      · rename_i rest hq
        simp only [hq, elems] at h1 h2
        exact ⟨h1, h2⟩
      · rename_i rest hq
        simp only [hq, elems] at h1 h2
        exact ⟨h1, h2⟩

theorem inv_run (src : List α) (f e : Bool) (evs : List Ev) : Inv src (run (init src f e) evs) := by
  unfold run
  generalize hs : init src f e = s0
  have h0 : Inv src s0 := hs ▸ inv_init src f e
  clear hs
  induction evs generalizing s0 with
  | nil => exact h0
  | cons x xs ih => exact ih _ (inv_step src s0 x h0)

/-- **never more than the credit received**, at every moment, for every interleaving of credit
arrival, production and delivery -/
theorem c06_never_exceeds (src : List α) (f e : Bool) (evs : List Ev) :
    (run (init src f e) evs).emitted.length ≤ (run (init src f e) evs).received := by
  have := (inv_run src f e evs).1
  omega

/-- **order**: what is delivered is a prefix of the source, element for element -/
theorem c06_order (src : List α) (f e : Bool) (evs : List Ev) :
    ∃ rest, src = (run (init src f e) evs).emitted ++ rest :=
  ⟨_, by rw [← List.append_assoc]; exact (inv_run src f e evs).2.symm⟩

/-- **stalls without credit**: with every received credit used up, production and delivery steps
deliver nothing further until new credit arrives -/
theorem c06_stalls_without_credit (orig : List α) (s : State α) (h : Inv orig s) (hc : s.emitted.length = s.received)
    (evs : List Ev) (hne : ∀ ev ∈ evs, ev = .produce ∨ ev = .feed) :
    (run s evs).emitted = s.emitted := by
  have key : ∀ s' : State α, Inv orig s' → s'.emitted.length = s'.received → ∀ ev, (ev = .produce ∨ ev = .feed) →
      (step s' ev).emitted = s'.emitted ∧ (step s' ev).received = s'.received := by
    intro s' hi hc' ev hev
    have h1 := hi.1
    have ho : elems s'.outQ = [] := List.eq_nil_of_length_eq_zero (by omega)
    rcases hev with rfl | rfl
    · simp only [step]
      split
      · exact ⟨rfl, rfl⟩
      · split
        · split <;> exact ⟨rfl, rfl⟩
        · split <;> exact ⟨rfl, rfl⟩
    · simp only [step]
      split
      · exact ⟨rfl, rfl⟩
      · split
        · exact ⟨rfl, rfl⟩
        · rename_i x c rest hq
          simp [hq, elems] at ho
        · exact ⟨rfl, rfl⟩
        · exact ⟨rfl, rfl⟩
  unfold run
  induction evs generalizing s with
  | nil => rfl
  | cons ev es ih =>
    have hk := key s h hc ev (hne ev (by simp))
    simp only [List.foldl_cons]
    rw [ih (step s ev) (inv_step orig s ev h) (by rw [hk.1, hk.2]; exact hc) (fun x hx => hne x (by simp [hx]))]
    exact hk.1

theorem quiesce_no_src (s : State α) (hs : s.src = []) (ho : elems s.outQ = []) (fuel : Nat) :
    (quiesce s fuel).emitted = s.emitted := by
  induction fuel generalizing s with
  | zero => rfl
  | succ k ih =>
    simp only [quiesce]
    have hp : (step s .produce).src = [] ∧ elems (step s .produce).outQ = [] ∧ (step s .produce).emitted = s.emitted := by
      simp only [step]
      split
      · exact ⟨hs, ho, rfl⟩
      · split
        · split <;> exact ⟨hs, ho, rfl⟩
        · rw [hs]
          refine ⟨by simpa using hs, ?_, rfl⟩
          simp only [elems_append, ho, List.nil_append]
          split <;> rfl
    have hf : (step (step s .produce) .feed).src = [] ∧ elems (step (step s .produce) .feed).outQ = [] ∧
        (step (step s .produce) .feed).emitted = s.emitted := by
      generalize step s .produce = s1 at hp
      obtain ⟨p1, p2, p3⟩ := hp
      simp only [step]
      split
      · exact ⟨p1, p2, p3⟩
      · split
        · exact ⟨p1, p2, p3⟩
        · rename_i x c rest hq; simp [hq, elems] at p2
        · rename_i rest hq; simp only [hq, elems] at p2; exact ⟨p1, p2, p3⟩
        · rename_i rest hq; simp only [hq, elems] at p2; exact ⟨p1, p2, p3⟩
    rw [ih _ hf.1 hf.2.1, hf.2.2]

/-- **delivers everything once enough credit is granted**: with a credit value of at least the
number of remaining elements being served, enough rounds of the producer and feeder tasks deliver
every remaining element, in order. -/
theorem c06_delivers_all (s : State α) (extra : Nat) (hcan : s.cancelled = false) (hpd : s.producerDone = false)
    (ho : s.outQ = []) (hcur : s.src.length ≤ s.cur) :
    (quiesce s (s.src.length + extra)).emitted = s.emitted ++ s.src := by
  induction hs : s.src generalizing s with
  | nil => simpa [hs] using quiesce_no_src s hs (by simp [ho, elems]) _
  | cons x rest ih =>
    have hcpos : s.cur ≠ 0 := by rw [hs] at hcur; simp at hcur; omega
    have hlen : (x :: rest).length + extra = (rest.length + extra) + 1 := by simp; omega
    rw [hlen, quiesce]
    have h1 : step (step s .produce) .feed =
        { s with src := rest, cur := s.cur - 1, outQ := [], emitted := s.emitted ++ [x],
                 terminal := (if (rest.isEmpty && s.flagged) then some true else s.terminal),
                 producerDone := rest.isEmpty && s.flagged } := by
      simp [step, hcan, hpd, hcpos, hs, ho]
    by_cases hdone : (rest.isEmpty && s.flagged) = true
    · have hr : rest = [] := by
        simp only [Bool.and_eq_true, List.isEmpty_iff] at hdone; exact hdone.1
      subst hr
      rw [quiesce_no_src _ (by rw [h1]) (by rw [h1]; simp [elems]), h1]
    · have := ih (step (step s .produce) .feed) (by rw [h1]; exact hcan) (by rw [h1]; simpa using hdone) (by rw [h1])
          (by rw [h1]; rw [hs] at hcur; simp at hcur ⊢; omega) (by rw [h1])
      rw [this, h1]
      simp [List.append_assoc]

/-- a request of `n ≥ count` on a fresh source delivers all `count` elements -/
theorem c06_single_credit_delivers (src : List α) (f e : Bool) (n : Nat) (hn : src.length ≤ n) :
    (quiesce (step (step (init src f e) (.request n)) .produce) (src.length + 1)).emitted = src := by
  have h0 : step (step (init src f e) (.request n)) .produce =
      { init src f e with cur := n, creditQ := [], received := n } := by
    cases n with
    | zero => simp [step, init]
    | succ k => simp [step, init]
  rw [h0]
  have := c06_delivers_all { init src f e with cur := n, creditQ := [], received := n } 1 rfl rfl rfl (by simpa [init] using hn)
  simpa [init] using this

/-! ### credit is transmitted with exactly the value given (engine model) -/

open Engine in
/-- `Subscription.request(n)` on a requester emits REQUEST_N(n); the initial request-n of a stream
request is carried unchanged; a responder forwards the peer's initial n and every REQUEST_N
unchanged to the local publisher's `Subscription.request`. -/
theorem c06_credit_forwarded_exact (st : Engine.State) (hc : st.closed = false) (oid sid n : Nat) (s : Engine.Stream)
    (hobj : st.obj oid = some s) (hsid : s.sid = sid) :
    (s.kind = .stReq → (Engine.step st (.subRequest oid n)).2 = [.send (mkRequestN sid n)]) ∧
    (s.kind = .stResp → st.oidOf sid = some oid →
      (Engine.step st (.recv { ty := .requestN, sid := sid, n := n } .ok)).2 = [.pubRequest oid n] ∨ sid = 0) := by
  constructor
  · intro hk
    simp [Engine.step, Engine.apiStep, hobj, hk, hsid, Engine.State.emit, hc]
  · intro hk ho
    by_cases h0 : sid = 0
    · exact Or.inr h0
    · left
      simp [Engine.step, Engine.recvStep, hc, Engine.isFragmentable, h0, Engine.isInitiate, ho, hobj, Engine.frameReceived, hk,
        Engine.State.emit]

open Engine in
/-- On a channel, either side: a REQUEST_N for a registered channel whose local publisher exists is
handed to that publisher's `Subscription.request` with exactly its value and changes nothing else -
in *every* state of the channel, in particular whether or not the peer's own direction has
already completed. -/
theorem c06_channel_credit_forwarded (st : Engine.State) (hc : st.closed = false) (oid sid n : Nat) (s : Engine.Stream)
    (h0 : sid ≠ 0) (hreg : st.oidOf sid = some oid) (hobj : st.obj oid = some s)
    (hk : s.kind = .chResp ∨ s.kind = .chReq) (hp : s.hasPub = true) (hs : s.setupDone = true) (b : Behaviour) :
    Engine.step st (.recv { ty := .requestN, sid := sid, n := n } b) = (st, [.pubRequest oid n]) := by
  rcases hk with hk | hk <;>
    simp [Engine.step, Engine.recvStep, hc, Engine.isFragmentable, h0, Engine.isInitiate, hreg, hobj, Engine.frameReceived, hk, hp, hs,
      Engine.State.emit]

open Engine in
/-- The history a seeded change broke: the peer's last element arrives with COMPLETE (its direction
is over, ours is not), then it grants more credit: the grant still reaches the publisher. -/
theorem c06_credit_after_peer_completed (st : Engine.State) (hc : st.closed = false) (oid sid n : Nat) (s : Engine.Stream)
    (h0 : sid ≠ 0) (hreg : st.oidOf sid = some oid) (hobj : st.obj oid = some s)
    (hcache : st.cache.find? (·.1 == sid) = none)
    (hk : s.kind = .chResp ∨ s.kind = .chReq) (hp : s.hasPub = true) (hs : s.setupDone = true) (hsub : s.subscribed = true)
    (hr : s.recvComplete = false) (hsc : s.sentComplete = false) (d : List Nat) (b b' : Behaviour) :
    (Engine.step st (.recv { ty := .payload, sid := sid, next := true, complete := true, data := d } b)).2 = [.onNext oid d true] ∧
    (Engine.step (Engine.step st (.recv { ty := .payload, sid := sid, next := true, complete := true, data := d } b)).1
      (.recv { ty := .requestN, sid := sid, n := n } b')).2 = [.pubRequest oid n] := by
  have hstep : Engine.step st (.recv { ty := .payload, sid := sid, next := true, complete := true, data := d } b)
      = (markChannel st oid s true false, [.onNext oid d true]) := by
    rcases hk with hk | hk <;>
      simp [Engine.step, Engine.recvStep, hc, Engine.isFragmentable, h0, Engine.isInitiate, hreg, hobj, Engine.frameReceived, hk, hr, hsub,
        Engine.State.emit, Engine.cacheAppend, hcache]
  have hmc : markChannel st oid s true false = st.setObj oid { s with recvComplete := true } := by
    simp [markChannel, hr, hsc]
  rw [hstep]
  refine ⟨rfl, ?_⟩
  show (Engine.step (markChannel st oid s true false) _).2 = _
  rw [hmc]
  have hobj' : (st.setObj oid { s with recvComplete := true }).obj oid = some { s with recvComplete := true } :=
    Engine.obj_setObj_self st oid s _ hobj
  have hreg' : (st.setObj oid { s with recvComplete := true }).oidOf sid = some oid := hreg
  have hc' : (st.setObj oid { s with recvComplete := true }).closed = false := hc
  rw [c06_channel_credit_forwarded (st.setObj oid { s with recvComplete := true }) hc' oid sid n
    { s with recvComplete := true } h0 hreg' hobj' hk hp hs b']

end RSocketModel.Credit

/-! ### the library's own awaitable requester (`CollectorSubscriber`, behind `AwaitableRSocket`) -/
namespace RSocketModel.Collector

/-- every REQUEST_N the collector causes carries exactly the configured limit rate -/
theorem c06_collector_requests_exactly_limit (L : Nat) (C : Option Nat) (evs : List Ev) :
    ∀ (s : St) (n : Nat), Out.request n ∈ (run L C s evs).2 → n = L := by
  induction evs with
  | nil => intro s n h; simp [run] at h
  | cons e r ih =>
    intro s n h
    simp only [run, List.mem_append] at h
    rcases h with h | h
    · cases e <;> simp only [step] at h <;> (repeat' split at h) <;> simp at h
      exact h
    · exact ih _ n h

/-- **the credit window**: subscribed with `initial_request_n(L)`, while unflagged elements arrive
and the count limit is not reached, the credit outstanding at the peer (the initial `L` plus every
REQUEST_N sent, minus the elements received) is never more than `L` and never zero: the collector
neither exceeds its limit rate nor lets the stream run dry -/
theorem c06_collector_credit_window (L : Nat) (hL : 1 ≤ L) (k : Nat) :
    let r := run L none {} (List.replicate k (.next false))
    r.1.total = k ∧ 1 ≤ L + granted r.2 - k ∧ L + granted r.2 - k ≤ L := by
  have gen : ∀ (k : Nat) (s : St) (g : Nat), Inv L g s →
      Inv L (g + granted (run L none s (List.replicate k (.next false))).2) (run L none s (List.replicate k (.next false))).1 ∧
      (run L none s (List.replicate k (.next false))).1.total = s.total + k := by
    intro k
    induction k with
    | zero => intro s g h; simpa [run, granted] using h
    | succ k ih =>
      intro s g h
      simp only [List.replicate_succ, run, granted_append]
      rcases inv_step L none g s (.next false) h with h1 | ⟨c, hc, hcc⟩
      · have := ih _ _ h1
        refine ⟨by simpa [Nat.add_assoc] using this.1, ?_⟩
        rw [this.2]
        simp only [step, Bool.false_eq_true, if_false, reduceCtorEq]
        split <;> simp <;> omega
      · cases hc
        rcases hcc with hcc | hcc <;> simp at hcc
  have h0 : Inv L 0 ({} : St) := by simp only [Inv]; omega
  obtain ⟨⟨h1, h2⟩, h3⟩ := gen k {} 0 h0
  simp only [Nat.zero_add] at h1 h2 h3
  refine ⟨h3, ?_, ?_⟩ <;> omega

/-- with a count limit `c ≥ 1` the collector cancels exactly when the `c`-th element arrives (and
not before), and resolves the awaitable -/
theorem c06_collector_cancels_at_count (L c : Nat) (hc : 1 ≤ c) :
    let r := run L (some c) {} (List.replicate c (.next false))
    r.1.done = true ∧ r.2.getLast? = some .cancel ∧
    (∀ k, k < c → Out.cancel ∉ (run L (some c) {} (List.replicate k (.next false))).2 ∧
      (run L (some c) {} (List.replicate k (.next false))).1.done = false) := by
  have gen : ∀ (k : Nat) (s : St), s.done = false → s.total + k < c →
      Out.cancel ∉ (run L (some c) s (List.replicate k (.next false))).2 ∧
      (run L (some c) s (List.replicate k (.next false))).1.done = false ∧
      (run L (some c) s (List.replicate k (.next false))).1.total = s.total + k := by
    intro k
    induction k with
    | zero => intro s hd _; simp [run, hd]
    | succ k ih =>
      intro s hd hlt
      simp only [List.replicate_succ, run, List.mem_append, not_or]
      have hne : ¬ (some c = some (s.total + 1)) := by simp; omega
      have hstep : (step L (some c) s (.next false)).1.done = false ∧ (step L (some c) s (.next false)).1.total = s.total + 1 ∧
          Out.cancel ∉ (step L (some c) s (.next false)).2 := by
        simp only [step, Bool.false_eq_true, if_false, hne]
        split <;> simp [hd]
      obtain ⟨h1, h2, h3⟩ := hstep
      have := ih _ h1 (by rw [h2]; omega)
      refine ⟨⟨h3, this.1⟩, this.2.1, ?_⟩
      rw [this.2.2, h2]; omega
  have last : ∀ c', c = c' + 1 →
      (run L (some c) {} (List.replicate c (.next false))).1.done = true ∧
      (run L (some c) {} (List.replicate c (.next false))).2.getLast? = some .cancel := by
    intro c' hcc
    subst hcc
    have hg := gen c' {} rfl (by simp)
    rw [List.replicate_succ', run_append]
    have hs : step L (some (c' + 1)) (run L (some (c' + 1)) {} (List.replicate c' (.next false))).1 (.next false) =
        ({ (run L (some (c' + 1)) {} (List.replicate c' (.next false))).1 with
            recv := (run L (some (c' + 1)) {} (List.replicate c' (.next false))).1.recv + 1,
            total := (run L (some (c' + 1)) {} (List.replicate c' (.next false))).1.total + 1, done := true }, [.cancel]) := by
      simp only [step, Bool.false_eq_true, if_false, hg.2.2]
      simp
    simp only [run, hs, List.append_nil]
    exact ⟨trivial, by simp⟩
  refine ⟨(last (c - 1) (by omega)).1, (last (c - 1) (by omega)).2, ?_⟩
  · intro k hk
    have := gen k {} rfl (by simpa using hk)
    exact ⟨this.1, this.2.1⟩

end RSocketModel.Collector
