import RSocketModel.Proofs.C02Lemmas
/-!
# C02 — Frame codec round-trip, canonical bytes

Property theorems only. `WF` is the wire format's ranges; `canon` forces `next` on a PAYLOAD with
content.
-/
namespace RSocketModel.Codec

/-- the model's literal constants are the code's (regenerated on every run) -/
theorem c02_constants :
    Gen.flagIgnore = 512 ∧ Gen.flagMetadata = 256 ∧ Gen.flagFollows = 128 ∧ Gen.flagResume = 128 ∧
    Gen.flagRespond = 128 ∧ Gen.flagLease = 64 ∧ Gen.flagComplete = 64 ∧ Gen.flagNext = 32 ∧
    Gen.headerLength = 6 ∧ Gen.mask31 = 2 ^ 31 - 1 ∧ Gen.mask63 = 2 ^ 63 - 1 ∧
    Gen.knownTypeIds = [1, 2, 3, 4, 5, 6, 7, 8, 9, 10, 11, 12, 13, 14] ∧
    Gen.errorCodes = errorCodes ∧
    Gen.classOfType = [(1, "SetupFrame"), (2, "LeaseFrame"), (3, "KeepAliveFrame"), (4, "RequestResponseFrame"),
      (5, "RequestFireAndForgetFrame"), (6, "RequestStreamFrame"), (7, "RequestChannelFrame"), (8, "RequestNFrame"),
      (9, "CancelFrame"), (10, "PayloadFrame"), (11, "ErrorFrame"), (12, "MetadataPushFrame"), (13, "ResumeFrame"),
      (14, "ResumeOKFrame")] ∧
    [Gen.tySetup, Gen.tyLease, Gen.tyKeepalive, Gen.tyRequestResponse, Gen.tyRequestFnf, Gen.tyRequestStream,
     Gen.tyRequestChannel, Gen.tyRequestN, Gen.tyCancel, Gen.tyPayload, Gen.tyError, Gen.tyMetadataPush,
     Gen.tyResume, Gen.tyResumeOk] = [1, 2, 3, 4, 5, 6, 7, 8, 9, 10, 11, 12, 13, 14] := by decide

/-- **decode ∘ encode.** For every legal frame value, decoding its encoding yields the frame
(PAYLOAD with content always carries `next`). -/
theorem c02_decode_encode (f : Frame) (h : WF f) : decode (encode f) = .frame (canon f) := by
  apply decode_encode_of f h
  cases f with
  | cancel s i =>
    simp only [headerOf, afterHeader, Frame.ty, parseBody, Frame.sid, Frame.ign, canon, R.pure_eq]
  | requestN s i n =>
    obtain ⟨hs, hn⟩ := h
    simp only [headerOf, afterHeader, Frame.ty, Frame.sid, Frame.ign, Frame.md, Frame.middle, Frame.data, Frame.metadataOnly,
        Frame.typeFlags, parseBody, List.append_assoc]
    rw [readBE_be 4 n _ (by omega)]
    simp only [R.bind_ok, R.pure_eq, canon]
  | requestStream s i f n md d =>
    obtain ⟨hs, hn, hmd⟩ := h
    simp only [headerOf, afterHeader, Frame.ty, Frame.sid, Frame.ign, Frame.md, Frame.middle, Frame.data, Frame.metadataOnly,
        Frame.typeFlags, parseBody, List.append_assoc, Bool.not_false, Bool.and_true, Bool.false_eq_true, if_false]
    rw [readBE_be 4 n _ (by omega)]
    simp only [R.bind_ok]
    rw [readMetadata_enc md _ hmd]
    simp only [R.bind_ok, R.pure_eq, canon]
  | requestChannel s i f c n md d =>
    obtain ⟨hs, hn, hmd⟩ := h
    simp only [headerOf, afterHeader, Frame.ty, Frame.sid, Frame.ign, Frame.md, Frame.middle, Frame.data, Frame.metadataOnly,
        Frame.typeFlags, parseBody, List.append_assoc, Bool.not_false, Bool.and_true, Bool.false_eq_true, if_false]
    rw [readBE_be 4 n _ (by omega)]
    simp only [R.bind_ok]
    rw [readMetadata_enc md _ hmd]
    simp only [R.bind_ok, R.pure_eq, canon]
  | requestResponse s i f md d =>
    obtain ⟨hs, hmd⟩ := h
    simp only [headerOf, afterHeader, Frame.ty, Frame.sid, Frame.ign, Frame.md, Frame.middle, Frame.data, Frame.metadataOnly,
        Frame.typeFlags, parseBody, List.nil_append, Bool.not_false, Bool.and_true, Bool.false_eq_true, if_false]
    rw [readMetadata_enc md _ hmd]
    simp only [R.bind_ok, R.pure_eq, canon]
  | requestFnf s i f md d =>
    obtain ⟨hs, hmd⟩ := h
    simp only [headerOf, afterHeader, Frame.ty, Frame.sid, Frame.ign, Frame.md, Frame.middle, Frame.data, Frame.metadataOnly,
        Frame.typeFlags, parseBody, List.nil_append, Bool.not_false, Bool.and_true, Bool.false_eq_true, if_false]
    rw [readMetadata_enc md _ hmd]
    simp only [R.bind_ok, R.pure_eq, canon]
  | payload s i f c n md d =>
    obtain ⟨hs, hmd⟩ := h
    simp only [headerOf, afterHeader, Frame.ty, Frame.sid, Frame.ign, Frame.md, Frame.middle, Frame.data, Frame.metadataOnly,
        Frame.typeFlags, parseBody, List.nil_append, Bool.not_false, Bool.and_true, Bool.false_eq_true, if_false]
    rw [readMetadata_enc md _ hmd]
    simp only [R.bind_ok, R.pure_eq, canon]
  | keepalive s i r p d =>
    obtain ⟨hs, hp⟩ := h
    simp only [headerOf, afterHeader, Frame.ty, Frame.sid, Frame.ign, Frame.md, Frame.middle, Frame.data, Frame.metadataOnly,
        Frame.typeFlags, parseBody, List.nil_append, List.isEmpty_nil, Bool.not_true, Bool.false_and, Bool.false_eq_true, if_false]
    rw [readPos_enc p _ hp]
    simp only [R.bind_ok, R.pure_eq, canon]
  | resumeOk s i p =>
    obtain ⟨hs, hp⟩ := h
    simp only [headerOf, afterHeader, Frame.ty, Frame.sid, Frame.ign, Frame.md, Frame.middle, Frame.data, Frame.metadataOnly,
        Frame.typeFlags, parseBody, List.nil_append, List.isEmpty_nil, Bool.not_true, Bool.false_and, Bool.false_eq_true, if_false]
    rw [readPos_enc p _ hp]
    simp only [R.bind_ok, R.pure_eq, canon]
  | error s i c d =>
    obtain ⟨hs, hc⟩ := h
    simp only [headerOf, afterHeader, Frame.ty, Frame.sid, Frame.ign, Frame.md, Frame.middle, Frame.data, Frame.metadataOnly,
        Frame.typeFlags, parseBody, List.nil_append, List.isEmpty_nil, Bool.not_true, Bool.false_and, Bool.false_eq_true, if_false]
    have hc32 : c < 256 ^ 4 := by
      simp only [errorCodes, List.mem_cons, List.mem_nil_iff, or_false] at hc
      omega
    rw [readBE_be 4 c _ hc32]
    have hcc : errorCodes.contains c = true := by simpa using hc
    simp only [R.bind_ok, hcc, if_true, R.pure_eq, canon]
  | metadataPush s i md =>
    simp only [headerOf, afterHeader, Frame.ty, Frame.sid, Frame.ign, Frame.md, Frame.middle, Frame.data, Frame.metadataOnly,
        Frame.typeFlags, parseBody, List.nil_append, List.append_nil, Bool.not_true, Bool.and_false, Bool.false_eq_true, if_false, if_true,
        R.pure_eq, canon, md_if]
  | lease s i t n md =>
    obtain ⟨hs, ht, hn⟩ := h
    simp only [headerOf, afterHeader, Frame.ty, Frame.sid, Frame.ign, Frame.md, Frame.middle, Frame.data, Frame.metadataOnly,
        Frame.typeFlags, parseBody, List.nil_append, List.append_nil, List.append_assoc, Bool.not_true, Bool.and_false, Bool.false_eq_true, if_false, if_true]
    rw [Nat.mod_eq_of_lt ht, Nat.mod_eq_of_lt hn, readBE_be 4 t _ (by omega)]
    simp only [R.bind_ok]
    rw [readBE_be 4 n _ (by omega)]
    simp only [R.bind_ok, R.pure_eq, canon, Nat.mod_eq_of_lt ht, Nat.mod_eq_of_lt hn]
    cases md <;> simp
  | resume s i ma mi tok sp cp =>
    obtain ⟨hs, hma, hmi, htok, hsp, hcp⟩ := h
    simp only [headerOf, afterHeader, Frame.ty, Frame.sid, Frame.ign, Frame.md, Frame.middle, Frame.data, Frame.metadataOnly,
        Frame.typeFlags, parseBody, List.nil_append, List.append_nil, List.append_assoc, List.isEmpty_nil, Bool.not_true, Bool.false_and,
        Bool.false_eq_true, if_false]
    rw [readBE_be 2 ma _ (by omega)]
    simp only [R.bind_ok]
    rw [readBE_be 2 mi _ (by omega)]
    simp only [R.bind_ok]
    rw [readBE_be 2 tok.length _ (by omega)]
    simp only [R.bind_ok, take_append_len, drop_append_len]
    rw [readPos_enc sp _ hsp]
    simp only [R.bind_ok, beBytes_length, if_true]
    have := readPos_enc cp [] hcp
    simp only [List.append_nil] at this
    rw [this]
    simp only [R.bind_ok, R.pure_eq, canon]
  | setup s i l r ma mi ka li tok me de md d =>
    obtain ⟨hs, hma, hmi, hka, hli, htok, hrt, hme, hde, hmd⟩ := h
    simp only [headerOf, afterHeader, Frame.ty, Frame.sid, Frame.ign, Frame.md, Frame.middle, Frame.data, Frame.metadataOnly,
        Frame.typeFlags, parseBody, List.append_assoc, Bool.not_false, Bool.and_true, Bool.false_eq_true, if_false]
    rw [readBE_be 2 ma _ (by omega)]
    simp only [R.bind_ok]
    rw [readBE_be 2 mi _ (by omega)]
    simp only [R.bind_ok]
    rw [readBE_be 4 ka _ (by omega)]
    simp only [R.bind_ok]
    rw [readBE_be 4 li _ (by omega)]
    simp only [R.bind_ok]
    cases r with
    | true =>
      simp only [if_true, List.append_assoc]
      rw [readBE_be 2 tok.length _ (by omega)]
      simp only [R.bind_ok, R.pure_eq, take_append_len, drop_append_len]
      rw [readString_pack me _ hme]
      simp only [R.bind_ok]
      rw [readString_pack de _ hde]
      simp only [R.bind_ok]
      rw [readMetadata_enc md _ hmd]
      simp only [R.bind_ok, R.pure_eq, canon]
    | false =>
      have := hrt rfl
      subst this
      simp only [Bool.false_eq_true, if_false, List.nil_append, R.pure_eq, R.bind_ok]
      rw [readString_pack me _ hme]
      simp only [R.bind_ok]
      rw [readString_pack de _ hde]
      simp only [R.bind_ok]
      rw [readMetadata_enc md _ hmd]
      simp only [R.bind_ok, R.pure_eq, canon]

/-- **re-encoding the decoded frame reproduces the bytes** -/
theorem c02_reencode (f : Frame) : encode (canon f) = encode f := by
  cases f <;> try rfl
  case payload s i fl c n md d =>
    simp only [canon, encode, prefixBytes, Frame.typeFlags, Frame.md, Frame.data, Frame.sid, Frame.ty, Frame.ign,
      Frame.middle, Frame.metadataOnly]
    congr 4
    cases n <;> cases md <;> cases d <;> simp

theorem c02_decode_reencode (f : Frame) (h : WF f) :
    ∃ g, decode (encode f) = .frame g ∧ encode g = encode f :=
  ⟨canon f, c02_decode_encode f h, c02_reencode f⟩

/-- **the incrementally written form is byte-identical to the one-shot encoding, with a correct
length prefix**: what a byte-stream transport writes (3-byte length + prefix, then metadata, then
data, empty sections skipped) concatenates to `be24 (len (encode f)) ++ encode f`. -/
theorem c02_partial_write (f : Frame) :
    (tcpWrites f).flatten = beBytes 3 (encode f).length ++ encode f := by
  simp only [tcpWrites, bodyChunks, encode, List.flatten_cons, List.flatten_append, List.append_assoc]
  congr 2
  cases hm : f.md.isEmpty <;> cases ho : f.metadataOnly <;> cases hd : f.data.isEmpty <;>
    simp_all [List.isEmpty_iff]

/-- the 3-byte length prefix is exact whenever the frame is shorter than 2^24 bytes -/
theorem c02_length_prefix_exact (f : Frame) (h : (encode f).length < 2 ^ 24) :
    beVal ((tcpWrites f).flatten.take 3) = (encode f).length := by
  rw [c02_partial_write, List.take_append_of_le_length (by simp), List.take_of_length_le (by simp)]
  exact beVal_beBytes_of_lt 3 _ (by omega)

/-- METADATA_PUSH on a stream other than 0 is dropped by the decoder, not delivered -/
theorem c02_metadata_push_nonzero_ignored (s : Nat) (i : Bool) (md : Bytes) (h0 : s ≠ 0) (hs : s < 2 ^ 31) :
    decode (encode (.metadataPush s i md)) = .ignored := by
  rw [encode_eq]
  unfold decode
  simp only [Frame.ty, Frame.sid, Frame.ign, Frame.md, Frame.middle, Frame.data, Frame.metadataOnly,
    Frame.typeFlags]
  rw [parseHeader_mk s 12 _ _ _ _ _ _ hs (by omega)]
  simp [parseBody, Frame.ty, Frame.sid, h0]

/-- a buffer shorter than a header, or with an unknown type id, is invalid whatever its flags -/
theorem c02_short_is_invalid (buf : Bytes) (h : buf.length < 6) : decode buf = .invalid := by
  unfold decode parseHeader
  have : (buf.drop 4).length < 2 := by simp; omega
  match hd : buf.drop 4 with
  | [] => simp
  | [_] => simp
  | _ :: _ :: _ => rw [hd] at this; simp at this; omega

/-- non-vacuity: a fully populated SETUP frame is well-formed -/
example : WF (.setup 0 false true true 1 0 500 600000 [1, 2, 3] [0x61] [0x62] [9] [8, 7]) := by decide

end RSocketModel.Codec
