import RSocketModel.Props.C13
import RSocketModel.Gen.Endpoints
/-!
# C13 / C16 — the two endpoint classes (regenerated from the source)

`c13_history` is parametric in the first stream id an endpoint starts from; this file instantiates
it with what `RSocketClient._get_first_stream_id` / `RSocketServer._get_first_stream_id` return *in
the current source* and the 31-bit id width, and records how both `__init__`s forward their
arguments to `RSocketBase.__init__`.
-/
namespace RSocketModel.StreamId

theorem c13_first_stream_ids : Gen.firstStreamIdClient = 1 ∧ Gen.firstStreamIdServer = 2 := by decide

/-- every id a **client** allocates, in every history of allocate / register / finish: odd, never
0, below 2^31, not active at that moment; allocation fails only when all odd ids are active -/
theorem c13_client_ids_odd (ops : List Op) :
    ∀ so ∈ run (init 31 Gen.firstStreamIdClient) ops,
      (∀ id, so.2 = .allocated id → id ≠ 0 ∧ id % 2 = 1 ∧ so.1.isActive id = false ∧ id < 2 ^ 31) ∧
      (so.2 = .allocationFailure → ∀ x, x < 2 ^ 31 → x % 2 = 1 → x ≠ 0 → so.1.isActive x = true) := by
  have h := c13_history 31 Gen.firstStreamIdClient (by decide) (by decide) ops
  simpa [Gen.firstStreamIdClient] using h

/-- every id a **server** allocates: even, never 0, below 2^31, not active at that moment -/
theorem c13_server_ids_even (ops : List Op) :
    ∀ so ∈ run (init 31 Gen.firstStreamIdServer) ops,
      (∀ id, so.2 = .allocated id → id ≠ 0 ∧ id % 2 = 0 ∧ so.1.isActive id = false ∧ id < 2 ^ 31) ∧
      (so.2 = .allocationFailure → ∀ x, x < 2 ^ 31 → x % 2 = 0 → x ≠ 0 → so.1.isActive x = true) := by
  have h := c13_history 31 Gen.firstStreamIdServer (by decide) (by decide) ops
  simpa [Gen.firstStreamIdServer] using h

/-- the two ends of a connection never open the same stream id, whatever each has done before -/
theorem c13_endpoints_never_collide (cops sops : List Op) (a b : State × Out) (ia ib : Nat)
    (ha : a ∈ run (init 31 Gen.firstStreamIdClient) cops) (hb : b ∈ run (init 31 Gen.firstStreamIdServer) sops)
    (hia : a.2 = .allocated ia) (hib : b.2 = .allocated ib) : ia ≠ ib := by
  have h1 := ((c13_client_ids_odd cops a ha).1 ia hia).2.1
  have h2 := ((c13_server_ids_even sops b hb).1 ib hib).2.1
  omega

/-- both endpoint classes hand every constructor argument to `RSocketBase.__init__` under its own
name: none dropped, none crossed (lease queue size, encodings, keepalive times, fragment size) -/
theorem c16_init_arguments_forwarded :
    Gen.serverInitForwarding = Gen.baseInitParams.map (fun p => (p, p)) ∧
    Gen.clientInitForwarding = Gen.baseInitParams.map (fun p => (p, p)) := by decide

end RSocketModel.StreamId
