import RSocketModel.Engine.Step
/-! # C09 — placeholder until the proofs land -/
namespace RSocketModel.Engine
theorem c09_placeholder : (init 1).closed = false := rfl
end RSocketModel.Engine
