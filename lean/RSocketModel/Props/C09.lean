import RSocketModel.Props.C07
import RSocketModel.Engine.Cancel
import RSocketModel.Props.C06
import RSocketModel.Props.C10
import RSocketModel.Props.C12
/-!
# C09 — Cancellation stops the stream at both ends

Engine model: the canceller's side (`Subscription.cancel()` on a stream / channel requester or
channel responder, cancelling the request-response awaitable) and the peer's side (CANCEL
received by a responder). Credit model (C06): what `cancel()` does to a library stream source.
-/
namespace RSocketModel.Engine

/-! ### exactly one CANCEL per cancellation -/

/-- cancelling a subscription emits exactly one frame: CANCEL on that stream -/
theorem c09_subscription_cancel_sends_one_cancel (st : State) (hc : st.closed = false) (oid : Nat) (s : Stream)
    (ho : st.obj oid = some s) (hk : s.kind = .stReq ∨ s.kind = .chReq ∨ s.kind = .chResp) :
    (step st (.subCancel oid)).2 = [.send (mkCancel s.sid)] := by
  rcases hk with hk | hk | hk <;> simp [step, apiStep, ho, hk, State.emit, hc]

/-- cancelling a pending request-response awaitable emits nothing by itself; its done-callback
then emits exactly one CANCEL, and running the callback again emits nothing -/
theorem c09_future_cancel_sends_one_cancel (st : State) (hc : st.closed = false) (oid : Nat) (s : Stream)
    (ho : st.obj oid = some s) (hk : s.kind = .rrReq) (hf : s.fut = .pending) (hrr : s.responseReceived = false) :
    let r1 := step st (.futCancel oid)
    let r2 := step r1.1 (.cbRRReq oid)
    let r3 := step r2.1 (.cbRRReq oid)
    r1.2 = [] ∧ r2.2 = [.send (mkCancel s.sid)] ∧ r3.2 = [] := by
  have h1 := obj_setObj_self st oid s { s with fut := .cancelled, cb := true } ho
  have e1 : step st (.futCancel oid) = (st.setObj oid { s with fut := .cancelled, cb := true }, []) := by
    simp [step, apiStep, ho, hk, hf, State.emit]
  have e2 := cbRRReq_cancelled (st.setObj oid { s with fut := .cancelled, cb := true }) hc oid _ h1 hk rfl rfl hrr
  have h2 := obj_setObj_self _ oid _ { ({ s with fut := .cancelled, cb := true } : Stream) with cb := false } h1
  have e3 := cbRRReq_idle (((st.setObj oid { s with fut := .cancelled, cb := true }).setObj oid
      { ({ s with fut := .cancelled, cb := true } : Stream) with cb := false }).finish s.sid) oid _ (by rw [finish_obj]; exact h2) rfl
  simp only [e1, e2, e3, and_self]

/-- CANCEL frames come from cancellations only: whatever else happens (frames received, signals
from the application, callbacks of other futures, connection loss), no CANCEL is emitted -/
theorem c09_cancel_only_from_cancellation (st : State) (ev : Ev) (g : Frame) (hg : Out.send g ∈ (step st ev).2)
    (hty : g.ty = .cancel) : (∃ oid, ev = .subCancel oid) ∨ (∃ oid, ev = .cbRRReq oid) := by
  have hg := mem_emit _ _ _ hg
  have hcs : (Out.send g).isCancelSend = true := by simp [Out.isCancelSend, hty]
  cases ev with
  | recv f b =>
    exfalso
    simp only at hg
    unfold recvStep at hg
    split at hg
    · simp at hg
    · generalize (if isFragmentable f.ty = true then cacheAppend st f else (st, some (Except.ok f))) = r at hg
      rcases r with ⟨st', c⟩
      simp only at hg
      split at hg
      · simp at hg
      · simp [mkError] at hg; rw [hg] at hty; cases hty
      · split at hg
        · have := handleByType_no_cancel st' _ b _ hg; rw [hcs] at this; cases this
        · split at hg
          · simp at hg
          · split at hg
            · simp at hg
            · have := frameReceived_no_cancel st' _ _ _ _ hg; rw [hcs] at this; cases this
  | lost =>
    exfalso
    simp only [lostStep] at hg
    split at hg
    · simp at hg
    · simp only [List.mem_append, List.mem_singleton] at hg
      rcases hg with hg | hg
      · exact stopAll_targets st.table st _ hg rfl
      · cases hg
  | stopStreams => exact absurd rfl (stopAll_targets st.table st _ hg)
  | subCancel oid => exact Or.inl ⟨oid, rfl⟩
  | cbRRReq oid => exact Or.inr ⟨oid, rfl⟩
  | _ =>
    exfalso
    have := apiStep_no_cancel st _ (by intro o e; cases e) (by intro o e; cases e) _ hg
    rw [hcs] at this; cases this

/-! ### nothing further is delivered to the canceller -/

/-- **after `Subscription.cancel()` the canceller's subscriber receives nothing further** — not
from frames still in flight, not from a later connection loss, not from anything else -/
theorem c09_nothing_after_subscription_cancel (st : State) (h : WF st) (oid : Nat) (s : Stream) (ho : st.obj oid = some s)
    (hk : s.kind = .stReq ∨ s.kind = .chReq ∨ s.kind = .chResp) (evs : List Ev) :
    ∀ y ∈ (run (step st (.subCancel oid)).1 evs).2.flatten, y.target = some oid → y.isSignal = false := by
  refine silent_run evs _ (wf_step st h _) oid ?_
  rcases hk with hk | hk | hk <;> simp only [step, apiStep, ho, hk]
  · exact silent_finish_st st h oid s ho hk
  · exact silent_markChannel st oid s ho (Or.inl hk) false
  · exact silent_markChannel st oid s ho (Or.inr hk) false

/-- … and the cancelled request-response awaitable is never given a result or an exception -/
theorem c09_nothing_after_future_cancel (st : State) (h : WF st) (oid : Nat) (s : Stream) (ho : st.obj oid = some s)
    (hk : s.kind = .rrReq) (hf : s.fut = .pending) (evs : List Ev) :
    ∀ y ∈ (run (step st (.futCancel oid)).1 evs).2.flatten, y.target = some oid → y.isSignal = false :=
  c07_cancelled_future_not_resolved st h oid s ho hk hf evs

/-! ### the peer: CANCEL stops the producer -/

/-- a CANCEL received for a registered responder cancels what was producing the response —
the publisher's subscription (stream, channel with a publisher) or the handler's pending future
(request-response) — emits nothing on the wire, and unregisters the stream (for a channel: closes
the sending direction) -/
theorem c09_peer_cancel_stops_producer (st : State) (hw : WF st) (hc : st.closed = false) (sid oid : Nat) (s : Stream)
    (h0 : sid ≠ 0) (hreg : st.oidOf sid = some oid) (ho : st.obj oid = some s) (b : Behaviour) :
    let r := step st (.recv { ty := .cancel, sid := sid } b)
    (s.kind = .stResp → r.2 = [.pubCancel oid] ∧ r.1.isActive sid = false) ∧
    (s.kind = .rrResp → s.fut = .pending → r.2 = [.hfCancel oid] ∧ r.1.isActive sid = false) ∧
    ((s.kind = .chResp ∨ s.kind = .chReq) → s.hasPub = true →
      r.2 = [.pubCancel oid] ∧ ∃ s', r.1.obj oid = some s' ∧ s'.sentComplete = true) := by
  obtain ⟨s', hs', hsid⟩ := oidOf_obj st hw sid oid hreg
  rw [ho] at hs'; cases hs'
  refine ⟨?_, ?_, ?_⟩
  · intro hk
    simp [step, recvStep, hc, isFragmentable, h0, isInitiate, hreg, ho, frameReceived, hk, State.emit, hsid, isActive_finish]
  · intro hk hf
    simp [step, recvStep, hc, isFragmentable, h0, isInitiate, hreg, ho, frameReceived, hk, hf, State.emit, hsid, isActive_finish,
      isActive_setObj]
  · intro hk hp
    rcases hk with hk | hk <;>
      simp [step, recvStep, hc, isFragmentable, h0, isInitiate, hreg, ho, frameReceived, hk, hp, State.emit,
        markChannel_obj st oid s ho]

/-- once unregistered, further frames for that stream (a late REQUEST_N, say) reach nobody -/
theorem c09_late_frames_dropped (st : State) (hc : st.closed = false) (sid : Nat) (h0 : sid ≠ 0)
    (hna : st.oidOf sid = none) (n : Nat) (b : Behaviour) :
    step st (.recv { ty := .requestN, sid := sid, n := n } b) = (st, [.drop sid]) := by
  simp [step, recvStep, hc, isFragmentable, h0, isInitiate, hna, State.emit]

/-! ### cancelling one stream does not disturb any other -/

/-- a local cancellation changes no other handler object, addresses no other application object,
and queues frames on its own stream only -/
theorem c09_cancel_is_local (st : State) (oid : Nat) (s : Stream) (ho : st.obj oid = some s) :
    (∀ j, j ≠ oid → (step st (.subCancel oid)).1.obj j = st.obj j) ∧
    (∀ j, j ≠ s.sid → (step st (.subCancel oid)).1.oidOf j = st.oidOf j) ∧
    (∀ x ∈ (step st (.subCancel oid)).2, x.target = none ∨ x.target = some oid) ∧
    (∀ g, Out.send g ∈ (step st (.subCancel oid)).2 → g.sid = s.sid) := by
  refine ⟨fun j hj => apiStep_obj_ne st (.subCancel oid) j hj, ?_, ?_, ?_⟩
  · intro j hj
    simp only [step, apiStep, ho]
    split <;> simp [oidOf_finish_ne _ _ _ hj, oidOf_markChannel_ne _ _ _ _ _ _ hj]
  · intro x hx
    exact apiStep_targets st (.subCancel oid) x (mem_emit _ _ _ hx)
  · intro g hg
    have hg := mem_emit _ _ _ hg
    simp only [apiStep, ho] at hg
    split at hg <;> simp [mkCancel] at hg <;> rw [hg]

/-- the peer's side of the same: processing the CANCEL leaves every other stream's registration
untouched (instance of C12's locality) -/
theorem c09_peer_cancel_is_local (st : State) (h : WF st) (sid : Nat) (b : Behaviour) (j : Nat) (hj : j ≠ sid) :
    (step st (.recv { ty := .cancel, sid := sid } b)).1.oidOf j = st.oidOf j :=
  c12_other_streams_untouched st h { ty := .cancel, sid := sid } b j hj

end RSocketModel.Engine

namespace RSocketModel.Credit

variable {α : Type}

/-- **production stops**: after `cancel()` a library stream source delivers nothing more, takes
nothing more from the underlying generator and accepts no further credit, whatever is scheduled
afterwards -/
theorem c09_source_cancel_stops_production (s : State α) (evs : List Ev) :
    (run (step s .cancel) evs).emitted = s.emitted ∧ (run (step s .cancel) evs).src = s.src ∧
    (run (step s .cancel) evs).outQ = s.outQ ∧ (run (step s .cancel) evs).terminal = s.terminal := by
  have key : ∀ (evs : List Ev) (s' : State α), s'.cancelled = true → run s' evs = s' := by
    intro evs
    induction evs with
    | nil => intro s' _; rfl
    | cons e es ih =>
      intro s' hc
      have hstep : step s' e = s' := by
        cases e <;> simp [step, hc]
        cases s'; simp_all
      simp only [run, List.foldl_cons, hstep]
      exact ih s' hc
  rw [key evs (step s .cancel) rfl]
  exact ⟨rfl, rfl, rfl, rfl⟩

end RSocketModel.Credit

namespace RSocketModel.Engine

/-! ### non-vacuity -/

/-- a client with a subscribed stream cancels it: one CANCEL, and the in-flight element and the
later connection loss deliver nothing -/
example : (run (init 1) [.requestStream [1] 5 true, .subCancel 0,
    .recv { ty := .payload, sid := 1, data := [7], next := true } .ok, .lost]).2 =
    [[.created 0 1, .send { ty := .requestStream, sid := 1, n := 5, data := [1] }, .onSubscribe 0],
     [.send (mkCancel 1)], [.drop 1], [.onClose]] := by decide +kernel

/-- a server whose publisher is producing receives CANCEL -/
example : (run (init 2) [.recv { ty := .requestStream, sid := 1, n := 3, data := [1] } .publisher,
    .recv { ty := .cancel, sid := 1 } .ok, .recv { ty := .requestN, sid := 1, n := 5 } .ok]).2 =
    [[.handlerCall .requestStream [1], .created 0 1, .pubSubscribe 0, .pubRequest 0 3], [.pubCancel 0], [.drop 1]] := by
  decide +kernel

end RSocketModel.Engine
