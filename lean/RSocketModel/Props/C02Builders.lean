import RSocketModel.Props.C02
import RSocketModel.Builders
import RSocketModel.Proofs.BuildersLemmas
/-!
# C02 / C01 — from the application's `Payload` to the bytes and back (frame builders)

Property theorems about `rsocket/frame_builders.py`. `Gen/Builders.lean` is regenerated from the
source's AST on every run; `c02_builders_match_source` says the hand-written rule `build` is the
meaning of what the translator produced, so every theorem below is re-checked against the current
source of the builders and of the frame classes' `__init__` defaults.
-/
namespace RSocketModel.Builders
open RSocketModel.Codec RSocketModel.BObj

/-- the translator covered every function of the module (a new builder must be modelled) -/
theorem c02_builders_all_translated :
    Gen.builderNames = ["to_payload_frame", "to_request_n_frame", "to_cancel_frame", "to_request_channel_frame",
      "to_request_stream_frame", "to_request_response_frame", "to_fire_and_forget_frame", "to_setup_frame",
      "to_metadata_push_frame", "to_keepalive_frame"] := by decide

/-- the defaults the call sites rely on: elements carry NEXT and not COMPLETE unless told otherwise,
credit defaults to the 31-bit maximum, a channel request is not complete, no lease unless asked -/
theorem c02_builder_defaults :
    Gen.to_payload_frame_defaults = [("complete", .bool false), ("is_next", .bool true), ("fragment_size_bytes", .none)] ∧
    Gen.to_request_n_frame_defaults = [("n", .nat (2 ^ 31 - 1))] ∧
    Gen.to_request_channel_frame_defaults =
      [("fragment_size_bytes", .none), ("initial_request_n", .nat (2 ^ 31 - 1)), ("complete", .bool false)] ∧
    Gen.to_request_stream_frame_defaults = [("fragment_size_bytes", .none), ("initial_request_n", .nat (2 ^ 31 - 1))] ∧
    Gen.to_setup_frame_defaults = [("honor_lease", .bool false)] := by decide

/-- **the generated builders mean `build`.** For every call (every stream id, payload with each part
`None`, empty or any bytes, every flag and request-n), reading the object the regenerated function
produces — assignments in source order over the class's `__init__` defaults — gives exactly the
frame value of the hand-written rule. -/
theorem c02_builders_match_source (c : Call) : interp (genBuild c) = some (build c) := by
  cases c with
  | payload sid p cm nx => rcases p with ⟨_ | _, _ | _⟩ <;> rfl
  | requestN sid n => rfl
  | cancel sid => rfl
  | requestChannel sid p n cm => rcases p with ⟨_ | _, _ | _⟩ <;> rfl
  | requestStream sid p n => rcases p with ⟨_ | _, _ | _⟩ <;> rfl
  | requestResponse sid p => rcases p with ⟨_ | _, _ | _⟩ <;> rfl
  | fnf sid p => rcases p with ⟨_ | _, _ | _⟩ <;> rfl
  | setup p de me ka li l =>
    rcases p with _ | ⟨_ | _, _ | _⟩ <;> rfl
  | metadataPush md => cases md <;> rfl
  | keepalive d => cases d <;> rfl

/-- **the payload survives the wire.** Whatever the application hands to a builder — within the wire
format's ranges — the peer's decoder recovers: a frame of the builder's type, on the stream the call
named, whose metadata and data are byte for byte the payload's (`None` read as empty), not flagged
IGNORE. -/
theorem c02_builder_payload_intact (c : Call) (h : WF (build c)) :
    ∃ f, decode (encode (build c)) = .frame f ∧ f.ty = (build c).ty ∧ f.sid = c.sid ∧
      (f.md, f.data) = c.content ∧ f.ign = false := by
  refine ⟨canon (build c), c02_decode_encode _ h, (canon_keeps _).1, ?_, ?_, ?_⟩
  · rw [(canon_keeps _).2.1]; cases c <;> rfl
  · rw [(canon_keeps _).2.2.1, (canon_keeps _).2.2.2.1]
    cases c with
    | setup p de me ka li l => cases p <;> rfl
    | _ => rfl
  · rw [(canon_keeps _).2.2.2.2]; cases c <;> rfl

/-- API to API: `payload_from_frame` of what the peer decodes is the payload the application handed
to the builder (`None` read as empty) -/
theorem c02_payload_from_frame_of_built (c : Call) (h : WF (build c)) :
    ∃ f, decode (encode (build c)) = .frame f ∧ payloadFromFrame f = c.content := by
  obtain ⟨f, hd, _, _, hc, _⟩ := c02_builder_payload_intact c h
  exact ⟨f, hd, hc⟩

/-- the same through the generated definitions: decode ∘ encode ∘ (what the source's builder makes) -/
theorem c02_generated_builder_payload_intact (c : Call) (h : WF (build c)) :
    ∃ f0 f, interp (genBuild c) = some f0 ∧ decode (encode f0) = .frame f ∧ f.sid = c.sid ∧ (f.md, f.data) = c.content := by
  obtain ⟨f, hd, _, hs, hc, _⟩ := c02_builder_payload_intact c h
  exact ⟨build c, f, c02_builders_match_source c, hd, hs, hc⟩

/-- builders never produce a fragment: FOLLOWS is clear on every frame they return (only the
fragmenter sets it), so a receiver never waits for a continuation of a frame that was sent whole -/
theorem c02_builder_never_follows (c : Call) :
    (build c).typeFlags.1 = match c with | .keepalive _ => true | _ => false := by
  cases c <;> rfl

/-- the element builder: COMPLETE is exactly the caller's `complete`; NEXT is the caller's `is_next`
or forced by content — an element with content is never sent as a bare completion -/
theorem c02_payload_builder_flags (sid : Nat) (p : Payload) (cm nx : Bool) :
    (build (.payload sid p cm nx)).typeFlags = (false, cm, nx || !(ob p.md).isEmpty || !(ob p.d).isEmpty) := by
  rfl

/-- a non-empty payload sent with the builder's defaults decodes to a frame carrying NEXT -/
theorem c02_payload_builder_next_on_content (sid : Nat) (p : Payload) (cm nx : Bool)
    (h : WF (build (.payload sid p cm nx))) (hne : ob p.md ≠ [] ∨ ob p.d ≠ []) :
    decode (encode (build (.payload sid p cm nx))) = .frame (.payload sid false false cm true (ob p.md) (ob p.d)) := by
  rw [c02_decode_encode _ h]
  have : (nx || !(ob p.md).isEmpty || !(ob p.d).isEmpty) = true := by
    rcases hne with h1 | h1
    · cases hm : ob p.md with
      | nil => exact absurd hm h1
      | cons a t => simp
    · cases hm : ob p.d with
      | nil => exact absurd hm h1
      | cons a t => simp
  simp only [build, canon, this]

/-- the keepalive builder asks for an echo, on stream 0, position 0 -/
theorem c02_keepalive_builder (d : Option Bytes) : build (.keepalive d) = .keepalive 0 false true 0 (ob d) := rfl

/-- the setup builder: version 1.0, stream 0, no resume, times in whole milliseconds exact -/
theorem c02_setup_builder_millis (p : Option Payload) (de me : Bytes) (ka li : Nat) (l : Bool) :
    build (.setup p de me (1000 * ka) (1000 * li) l) =
      .setup 0 false l false 1 0 ka li [] me de
        (match p with | some q => ob q.md | none => []) (match p with | some q => ob q.d | none => []) := by
  simp only [build]
  congr 1 <;> omega

/-- **the SETUP the peer decodes states the configured periods** — every whole number of milliseconds
below 2^32, *also at and above 2^31* (a lifetime of 25 days and more: the fields are 32-bit words, the
statement seeded change C16n broke by masking them to 31 bits) -/
theorem c02_setup_builder_periods_roundtrip (p : Option Payload) (de me : Bytes) (ka li : Nat) (l : Bool)
    (hka : ka < 2 ^ 32) (hli : li < 2 ^ 32) (hde : de.length < 128) (hme : me.length < 128)
    (hmd : (match p with | some q => ob q.md | none => []).length < 2 ^ 24) :
    decode (encode (build (.setup p de me (1000 * ka) (1000 * li) l))) =
      .frame (.setup 0 false l false 1 0 ka li [] me de
        (match p with | some q => ob q.md | none => []) (match p with | some q => ob q.d | none => [])) := by
  cases p with
  | none =>
    rw [c02_setup_builder_millis]
    exact c02_decode_encode _ ⟨by decide, by decide, by decide, hka, hli, by decide, fun _ => rfl, hme, hde, by simp⟩
  | some q =>
    rw [c02_setup_builder_millis]
    exact c02_decode_encode _ ⟨by decide, by decide, by decide, hka, hli, by decide, fun _ => rfl, hme, hde, hmd⟩

example : (2 : Nat) ^ 31 + 444516352 < 2 ^ 32 := by decide

/-- exact wire size of an element frame: 6 header bytes, 3 more and the metadata if there is any, the data -/
theorem c02_payload_builder_size (sid : Nat) (p : Payload) (cm nx : Bool) :
    (encode (build (.payload sid p cm nx))).length =
      6 + (if (ob p.md).isEmpty then 0 else 3 + (ob p.md).length) + (ob p.d).length := by
  simp only [build]
  generalize ob p.md = m
  generalize ob p.d = d
  cases m with
  | nil =>
    simp [encode, prefixBytes, mkHeader, Frame.md, Frame.data, Frame.metadataOnly, Frame.middle, beBytes_length]
    omega
  | cons a t =>
    simp [encode, prefixBytes, mkHeader, Frame.md, Frame.data, Frame.metadataOnly, Frame.middle, beBytes_length]
    omega

/-- non-vacuity: a concrete call within the wire ranges, its bytes, and what the peer decodes -/
example : WF (build (.payload 7 ⟨some [1, 2], none⟩ true true)) ∧
    encode (build (.payload 7 ⟨some [1, 2], none⟩ true true)) = [0, 0, 0, 7, 0x29, 0x60, 0, 0, 2, 1, 2] := by decide

example : interp (genBuild (.setup none [0x61] [0x62] 500000 60000000 true)) =
    some (.setup 0 false true false 1 0 500 60000 [] [0x62] [0x61] [] []) := by decide

/-- `interp` is not trivially `some`: an object whose class never sets `request_n` cannot be encoded -/
example : interp ⟨.RequestNFrame, [(.stream_id, .nat 1)]⟩ = none := by decide

end RSocketModel.Builders
