import RSocketModel.Props.C02Builders
import RSocketModel.Proofs.Bridge
import RSocketModel.Gen.Fragments
/-!
# C03 — the fragment-to-frame step is the source's `new_frame_fragment`

`Fragment.toFrame` (hand-written: type of the first / later fragments, FOLLOWS on all but the last,
COMPLETE and request-n where they belong) is proved to be the meaning of the definition the
translator regenerates from `rsocket/frame.py: new_frame_fragment` on every run
(`Gen/Fragments.lean`), read with the same `Builders.interp` as the frame builders and compared
after the encoder's canonicalisation of NEXT. Every C03 / C01 theorem that goes through `toFrames`
is thereby re-checked against the current source of that function.
-/
namespace RSocketModel.Pipeline
open Fragment RSocketModel.BObj

/-- the frame class of a fragmentable frame type -/
def clsOf (ty : Nat) : Cls :=
  if ty = Gen.tyRequestResponse then .RequestResponseFrame
  else if ty = Gen.tyRequestFnf then .RequestFireAndForgetFrame
  else if ty = Gen.tyRequestStream then .RequestStreamFrame
  else if ty = Gen.tyRequestChannel then .RequestChannelFrame
  else .PayloadFrame

/-- the frame being sent, as `new_frame_fragment` reads its attributes (`none`: the class has no
such attribute — only stream and channel requests have `initial_request_n`) -/
def baseReader (b : Base UInt8) : Fld → Option Val
  | .stream_id => some (.nat b.sid)
  | .flags_ignore => some (.bool false)
  | .flags_metadata => some (.bool (!b.md.isEmpty))
  | .metadata_only => some (.bool false)
  | .initial_request_n => if hasN b.ty then some (.nat b.n) else none
  | .sent_future => some .none
  | .flags_complete => some (.bool b.complete)
  | _ => none

/-- **`toFrame` is the source's `new_frame_fragment`.** For every fragmentable frame (all five
types, any stream id, request-n, COMPLETE flag) and every fragment (first or not, last or not, any
metadata and data slices): the frame object the regenerated function builds, read by the encoder
(`interp`, NEXT canonicalised), is the frame of the fragmentation model — same type rule, FOLLOWS
exactly on non-final fragments, COMPLETE only on the final one, request-n only on the first. -/
theorem c03_fragment_frames_match_source (b : Base UInt8) (hty : b.ty ∈ Gen.fragmentableTypes) (f : Frag UInt8) :
    (Builders.interp (Gen.new_frame_fragment (clsOf b.ty) (baseReader b) (.bytes f.d) (.bytes f.md) f.isFirst
      (some f.isLast))).map Codec.canon = some (Codec.canon (toCodec (toFrame b f))) := by
  obtain ⟨ty, sid, n, c, md, d⟩ := b
  obtain ⟨fmd, fd, il, ifs⟩ := f
  simp only [Gen.fragmentableTypes, List.mem_cons, List.mem_nil_iff, or_false] at hty
  rcases hty with rfl | rfl | rfl | rfl | rfl <;> cases il <;> cases ifs <;>
    first | rfl | (cases fmd <;> cases fd <;> rfl)

/-- an unfragmented frame (`Fragment(data, metadata, None)`: `is_last` is `None`) is built like a
final first fragment -/
theorem c03_unfragmented_frame_matches_source (b : Base UInt8) (hty : b.ty ∈ Gen.fragmentableTypes) (md d : Bytes) :
    Builders.interp (Gen.new_frame_fragment (clsOf b.ty) (baseReader b) (.bytes d) (.bytes md) true none) =
    Builders.interp (Gen.new_frame_fragment (clsOf b.ty) (baseReader b) (.bytes d) (.bytes md) true (some true)) := by
  rfl

end RSocketModel.Pipeline
