import RSocketModel.Gen.SendSites
/-!
# C05 / C08 / C14 — which frames take which path into the send queue (regenerated from the source)

`SendQueue.lean` appends every frame at the back except SETUP, `Lease.lean` passes every request
frame through the lease gate, `Engine/Step.lean` emits CANCEL / REQUEST_N / PAYLOAD / ERROR in call
order behind what is already queued. Those are facts about *which function each call site uses*;
`Gen.sendSites` is read from the source's AST on every run and the theorems below are what the
models rely on.
-/
namespace RSocketModel.SendSites

/-- the whole table, as the models were written against it -/
theorem c05_send_sites :
    Gen.sendSites =
      [("rsocket/handlers/request_channel_requester.py", "RequestChannelRequester._send_channel_request", "send_request", "to_request_channel_frame"),
       ("rsocket/handlers/request_response_requester.py", "RequestResponseRequester.run", "send_request", "request"),
       ("rsocket/handlers/request_stream_requester.py", "RequestStreamRequester._send_stream_request", "send_request", "to_request_stream_frame"),
       ("rsocket/rsocket_base.py", "RSocketBase._send_new_keepalive", "send_frame", "to_keepalive_frame"),
       ("rsocket/rsocket_base.py", "RSocketBase.connect", "send_priority_frame", "_create_setup_frame"),
       ("rsocket/rsocket_base.py", "RSocketBase.fire_and_forget", "send_request", "frame"),
       ("rsocket/rsocket_base.py", "RSocketBase.handle_keep_alive", "send_frame", "frame"),
       ("rsocket/rsocket_base.py", "RSocketBase.handle_lease", "send_frame", "get_nowait"),
       ("rsocket/rsocket_base.py", "RSocketBase.metadata_push", "send_frame", "frame"),
       ("rsocket/rsocket_base.py", "RSocketBase.send_error", "send_frame", "exception_to_error_frame"),
       ("rsocket/rsocket_base.py", "RSocketBase.send_lease", "send_frame", "to_frame"),
       ("rsocket/rsocket_base.py", "RSocketBase.send_payload", "send_frame", "to_payload_frame"),
       ("rsocket/rsocket_base.py", "RSocketBase.send_request", "send_frame", "frame"),
       ("rsocket/streams/stream_handler.py", "StreamHandler.send_cancel", "send_frame", "to_cancel_frame"),
       ("rsocket/streams/stream_handler.py", "StreamHandler.send_request_n", "send_frame", "to_request_n_frame")] := by
  decide

/-- **only SETUP jumps the queue**: the single call of `send_priority_frame` is `connect()` with the
SETUP frame; CANCEL, ERROR, KEEPALIVE, LEASE, REQUEST_N and PAYLOAD all go to the back -/
theorem c05_only_setup_jumps_the_queue :
    Gen.sendSites.filter (fun r => r.2.2.1 == "send_priority_frame") =
      [("rsocket/rsocket_base.py", "RSocketBase.connect", "send_priority_frame", "_create_setup_frame")] := by
  decide

/-- **every request frame passes the lease gate**: the four stream-opening call sites use
`send_request` (which holds the frame back while no lease allows it), and nothing but
`send_request` itself and the drain of the lease queue forwards such a frame with `send_frame` -/
theorem c14_requests_pass_the_lease_gate :
    (Gen.sendSites.filter (fun r => r.2.2.1 == "send_request")).map (fun r => r.2.1) =
      ["RequestChannelRequester._send_channel_request", "RequestResponseRequester.run",
       "RequestStreamRequester._send_stream_request", "RSocketBase.fire_and_forget"] := by
  decide

end RSocketModel.SendSites
