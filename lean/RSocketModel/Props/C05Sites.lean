import RSocketModel.Gen.SendSites
/-!
# C05 / C08 / C14 — which frames take which path into the send queue (regenerated from the source)

`SendQueue.lean` appends every frame at the back except SETUP, `Lease.lean` passes every request
frame through the lease gate, `Engine/Step.lean` emits CANCEL / REQUEST_N / PAYLOAD / ERROR in call
order behind what is already queued. Those are facts about *which function each call site uses*;
`Gen.sendSites` is read from the source's AST on every run and the theorems below are what the
models rely on (they constrain the paths, not the number of call sites: a new call that queues at the
back, or a new request that goes through `send_request`, leaves them true).
-/
namespace RSocketModel.SendSites

/-- **only SETUP jumps the queue**: the single call of `send_priority_frame` is `connect()` with the
SETUP frame; CANCEL, ERROR, KEEPALIVE, LEASE, REQUEST_N and PAYLOAD all go to the back -/
theorem c05_only_setup_jumps_the_queue :
    Gen.sendSites.filter (fun r => r.2.2.1 == "send_priority_frame") =
      [("rsocket/rsocket_base.py", "RSocketBase.connect", "send_priority_frame", "_create_setup_frame")] := by
  decide

/-- **every request frame passes the lease gate**: the four stream-opening call sites use
`send_request` (which holds the frame back while no lease allows it), and nothing but
`send_request` itself and the drain of the lease queue forwards such a frame with `send_frame` -/
theorem c14_requests_pass_the_lease_gate :
    (Gen.sendSites.filter (fun r => r.2.2.1 == "send_request")).map (fun r => r.2.1) =
      ["RequestChannelRequester._send_channel_request", "RequestResponseRequester.run",
       "RequestStreamRequester._send_stream_request", "RSocketBase.fire_and_forget"] := by
  decide

/-- the helpers the stream handlers use — elements and completions, errors, credit, cancellation,
keepalives, leases — all queue at the back with `send_frame` -/
theorem c05_stream_helpers_queue_at_the_back :
    ∀ f ∈ ["RSocketBase.send_payload", "RSocketBase.send_error", "StreamHandler.send_cancel", "StreamHandler.send_request_n",
           "RSocketBase._send_new_keepalive", "RSocketBase.handle_keep_alive", "RSocketBase.send_lease"],
      (Gen.sendSites.filter (fun r => r.2.1 == f)).map (fun r => r.2.2.1) = ["send_frame"] := by
  decide

end RSocketModel.SendSites
