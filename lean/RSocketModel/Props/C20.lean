import RSocketModel.Proofs.C20Lemmas
/-!
# C20 — Rx / ReactiveX adapters are transparent
-/
namespace RSocketModel.RxAdapter

variable {α : Type}

/-- **delegation**: every handler entry point of both adapters calls the same-named method of the
delegate (table read from the adapters' source on every run) -/
theorem c20_delegation :
    (∀ r ∈ Gen.rx4AdapterDelegation, r.2 = "delegate." ++ r.1) ∧
    (∀ r ∈ Gen.rx3AdapterDelegation, r.2 = "delegate." ++ r.1) ∧
    (Gen.rx4AdapterDelegation.map (·.1)) = ["on_setup", "on_metadata_push", "request_channel", "request_fire_and_forget",
      "request_response", "request_stream", "on_error", "on_keepalive_timeout", "on_connection_error", "on_close"] ∧
    (["on_setup", "on_metadata_push", "request_channel", "request_fire_and_forget", "request_response", "request_stream"].all
      fun m => (Gen.rx3AdapterDelegation.map (·.1)).contains m) = true ∧
    Gen.rxSubscribersSameCode = true := by decide

/-- **transparent**: the observer is given exactly the elements the subscriber received, in order -/
theorem c20_transparent (s : Sub α) (evs : List (Ev α)) : (run s evs).observed = s.observed ++ delivered evs := by
  induction evs generalizing s with
  | nil => simp [run, delivered]
  | cons e es ih =>
    simp only [run, List.foldl_cons] at ih ⊢
    rw [ih]
    cases e with
    | next x c =>
      simp only [step, delivered]
      split
      · simp
      · split <;> simp
    | complete => simp [step, delivered]
    | error => simp [step, delivered]
    | trigger => simp only [step, delivered]; split <;> rfl

/-- **the request limit bounds how many elements are requested at a time**: at every moment the
credit outstanding at the publisher (requested and not yet delivered) is at most the limit -/
theorem c20_request_bounded (limit : Nat) (evs : List (Ev α)) (hl : PeerLegal (Sub.init limit) evs) :
    (run (Sub.init limit) evs).requested ≤ (run (Sub.init limit) evs).observed.length + limit := by
  have hlim : (run (Sub.init limit) evs).limit = limit := run_limit _ evs
  obtain ⟨h1, h2⟩ := inv_run limit evs hl
  cases hp : (run (Sub.init limit) evs).pendingTrigger
  · have := (h1 hp).1; rw [hlim] at this; omega
  · have := (h2 hp).1; omega

/-- requests are always for exactly `limit` elements (the initial request-n and every REQUEST_N) -/
theorem c20_request_amounts (s : Sub α) (e : Ev α) :
    (step s e).requested = s.requested ∨ (step s e).requested = s.requested + s.limit := by
  cases e <;> simp only [step] <;> (try split) <;> (try split) <;> simp

/-- **a back-pressure-aware observable factory is asked for exactly the credited amounts** and is
completed on cancel -/
theorem c20_factory_gets_exact_credits (evs : List (Nat ⊕ Unit)) :
    feedbackOf evs = evs.map fun e => match e with | .inl n => .onNext n | .inr () => .onCompleted := by
  induction evs with
  | nil => rfl
  | cons e es ih => cases e with
    | inl n => simp [feedbackOf, ih]
    | inr u => cases u; simp [feedbackOf, ih]

/-- **elements of a plain observable reach the wire no faster than the requester's credit**:
the buffering puller is the credit model of C06 -/
theorem c20_wire_no_faster_than_credit (src : List α) (evs : List Credit.Ev) :
    (Credit.run (Credit.init src false false) evs).emitted.length ≤ (Credit.run (Credit.init src false false) evs).received :=
  Credit.c06_never_exceeds src false false evs

/-- non-vacuity: limit 2, five elements delivered as credit allows -/
example : PeerLegal (Sub.init 2 : Sub Nat) [.next 1 false, .next 2 false, .trigger, .next 3 false, .next 4 false, .trigger, .next 5 true] ∧
    (run (Sub.init 2 : Sub Nat) [.next 1 false, .next 2 false, .trigger, .next 3 false, .next 4 false, .trigger, .next 5 true]).requested = 6 := by
  decide

end RSocketModel.RxAdapter
