import RSocketModel.Proofs.C17Lemmas
/-!
# C17 — Reconnect yields a fresh, working connection
`reconnect` as processed by `_reconnect_listener` is `closeForReconnect` followed by `connect`.
All statements are for an arbitrary state `s` before the reconnect — whatever ended the previous
connection (server EOF, transport error, keepalive timeout with the liveness flag cleared, or a
healthy connection) and whatever was pending.
-/
namespace RSocketModel.Client

/-- **fresh connection**: every request pending on the old connection is failed, the new epoch
starts with only SETUP queued, nothing sent, stream ids restart from 1, the liveness flag is set,
and the sender waits for the next transport. -/
theorem c17_fresh_connection (s : State) :
    let s' := reconnect s
    (∀ id ∈ s.pending, id ∈ s'.failed) ∧ s'.pending = [] ∧ s'.queue = [.setup] ∧ s'.wire = [] ∧
    s'.nextId = 1 ∧ s'.alive = true ∧ s'.gate = false ∧ s'.connects = s.connects + 1 := by
  simp only [reconnect, step, List.mem_append, and_self, and_true]
  exact fun id h => Or.inr h

/-- **requests issued afterwards are served**: once the provider has yielded the next transport,
a request issued after the reconnect reaches that transport, right after SETUP, with id 1. -/
theorem c17_served (s : State) :
    (run (reconnect s) [.providerYields, .request, .senderStep, .senderStep]).wire = [.setup, .req 1] := by
  simp [reconnect, run, step]

/-- the same when the request is issued while the new transport is still being obtained -/
theorem c17_served_early_request (s : State) :
    (run (reconnect s) [.request, .providerYields, .senderStep, .senderStep]).wire = [.setup, .req 1] := by
  simp [reconnect, run, step]

/-- after a keepalive timeout the old sender stops after at most one more frame -/
theorem c17_timeout_stops_sender (s : State) (t : List Tag) :
    (run (step s .keepaliveTimeout) [.senderStep, .senderStep]).wire.length ≤ s.wire.length + 1 := by
  simp only [run, List.foldl_cons, List.foldl_nil, step]
  cases hg : (s.gate && s.armed) <;> cases hq : s.queue <;> simp [hg, hq]

/-- keepalives flow again after a reconnect that followed a keepalive timeout -/
theorem c17_keepalives_restart (s : State) :
    (run (step s .keepaliveTimeout |> reconnect) [.providerYields, .senderStep, .keepaliveTick, .senderStep]).wire
      = [.setup, .keepalive] := by
  simp [reconnect, run, step]

/-- **any number of consecutive reconnects** -/
theorem c17_any_number (s : State) (n : Nat) :
    let s' := (List.range (n + 1)).foldl (fun acc _ => reconnect acc) s
    s'.queue = [.setup] ∧ s'.wire = [] ∧ s'.nextId = 1 ∧ s'.alive = true ∧ s'.pending = [] := by
  induction n generalizing s with
  | zero => simp [reconnect, step]
  | succ k ih =>
    rw [List.range_succ_eq_map, List.foldl_cons]
    simp only [List.foldl_map]
    exact ih (reconnect s)

theorem c17_counterexample_pre_f5 :
    ([Ev.connect, .providerYields, .senderStep, .keepaliveTimeout, .closeForReconnect, .connect, .providerYields,
      .request, .senderStep, .senderStep].foldl stepPreF5 {}).wire = [] := by decide

end RSocketModel.Client
