import RSocketModel.Proofs.C17Lemmas
/-!
# C17 — Reconnect yields a fresh, working connection
`reconnect` as processed by `_reconnect_listener` is `closeForReconnect` followed by `connect`.
All statements are for an arbitrary state `s` before the reconnect — whatever ended the previous
connection (server EOF, transport error, keepalive timeout with the liveness flag cleared, or a
healthy connection) and whatever was pending.
-/
namespace RSocketModel.Client

/-- **fresh connection**: every request pending on the old connection is failed, the new epoch
starts with only SETUP queued, nothing sent, stream ids restart from 1, the liveness flag is set,
and the sender waits for the next transport. -/
theorem c17_fresh_connection (s : State) :
    let s' := reconnect s
    (∀ id ∈ s.pending, id ∈ s'.failed) ∧ s'.pending = [] ∧ s'.queue = [.setup] ∧ s'.wire = [] ∧
    s'.nextId = 1 ∧ s'.alive = true ∧ s'.gate = false ∧ s'.connects = s.connects + 1 := by
  simp only [reconnect, step, List.mem_append, and_self, and_true]
  exact fun id h => Or.inr h

/-- **requests issued afterwards are served**: once the provider has yielded the next transport,
a request issued after the reconnect reaches that transport, right after SETUP, with id 1. -/
theorem c17_served (s : State) :
    (run (reconnect s) [.providerYields, .request, .senderStep, .senderStep]).wire = [.setup, .req 1] := by
  simp [reconnect, run, step]

/-- the same when the request is issued while the new transport is still being obtained -/
theorem c17_served_early_request (s : State) :
    (run (reconnect s) [.request, .providerYields, .senderStep, .senderStep]).wire = [.setup, .req 1] := by
  simp [reconnect, run, step]

/-- after a keepalive timeout the old sender stops after at most one more frame -/
theorem c17_timeout_stops_sender (s : State) (t : List Tag) :
    (run (step s .keepaliveTimeout) [.senderStep, .senderStep]).wire.length ≤ s.wire.length + 1 := by
  simp only [run, List.foldl_cons, List.foldl_nil, step]
  cases hg : (s.gate && s.armed) <;> cases hq : s.queue <;> simp [hg, hq]

/-- keepalives flow again after a reconnect that followed a keepalive timeout -/
theorem c17_keepalives_restart (s : State) :
    (run (step s .keepaliveTimeout |> reconnect) [.providerYields, .senderStep, .keepaliveTick, .senderStep]).wire
      = [.setup, .keepalive] := by
  simp [reconnect, run, step]

/-- **any number of consecutive reconnects** -/
theorem c17_any_number (s : State) (n : Nat) :
    let s' := (List.range (n + 1)).foldl (fun acc _ => reconnect acc) s
    s'.queue = [.setup] ∧ s'.wire = [] ∧ s'.nextId = 1 ∧ s'.alive = true ∧ s'.pending = [] := by
  induction n generalizing s with
  | zero => simp [reconnect, step]
  | succ k ih =>
    rw [List.range_succ_eq_map, List.foldl_cons]
    simp only [List.foldl_map]
    exact ih (reconnect s)

/-! ### the old transport is closed -/

/-- **closes the old transport**: whatever transport the connection was using when the reconnect
started is closed by it, and the client holds no transport until the provider yields the next. -/
theorem c17_old_transport_closed (s : State) (t : Nat) (h : s.current = some t) :
    t ∈ (reconnect s).closedT ∧ (reconnect s).current = none := by
  simp [reconnect, step, h]

/-- every transport ever obtained is either the one in use or closed -/
def TransInv (s : State) : Prop :=
  (∀ i, i < s.taken → s.current = some i ∨ i ∈ s.closedT) ∧ (∀ t, s.current = some t → t < s.taken)

/-- the provider is asked for a transport only while the client holds none (`connect()` resolves a
*pending* `_next_transport`; resolving it twice raises) -/
def OneAtATime : State → List Ev → Prop
  | _, [] => True
  | s, e :: es => (e = .providerYields → s.current = none) ∧ OneAtATime (step s e) es

theorem transInv_step (s : State) (e : Ev) (h : TransInv s) (hy : e = .providerYields → s.current = none) :
    TransInv (step s e) := by
  obtain ⟨h1, h2⟩ := h
  cases e with
  | providerYields =>
    have hc := hy rfl
    refine ⟨fun i hi => ?_, fun t ht => ?_⟩
    · simp only [step] at hi ⊢
      by_cases hit : i = s.taken
      · left; rw [hit]
      · right
        rcases h1 i (by omega) with h | h
        · rw [hc] at h; cases h
        · exact h
    · simp only [step] at ht ⊢
      cases ht; omega
  | closeForReconnect =>
    refine ⟨fun i hi => ?_, fun t ht => by simp [step] at ht⟩
    simp only [step] at hi ⊢
    right
    rcases h1 i hi with h | h
    · simp [h]
    · exact List.mem_append_left _ h
  | senderStep =>
    simp only [step]
    split <;> exact ⟨h1, h2⟩
  | _ => exact ⟨h1, h2⟩

/-- **Over every life-cycle history** (any number of reconnects, for whatever cause, with any
requests, keepalives, timeouts and sender steps in between): at most one transport is open - each
transport obtained from the provider earlier has been closed. -/
theorem c17_every_old_transport_closed (s : State) (h : TransInv s) (evs : List Ev) (hl : OneAtATime s evs) :
    TransInv (run s evs) := by
  induction evs generalizing s with
  | nil => exact h
  | cons e es ih =>
    simp only [run, List.foldl_cons]
    exact ih (step s e) (transInv_step s e h hl.1) hl.2

theorem c17_every_old_transport_closed_from_start (evs : List Ev) (hl : OneAtATime {} evs) (i : Nat)
    (hi : i < (run {} evs).taken) : (run {} evs).current = some i ∨ i ∈ (run {} evs).closedT :=
  (c17_every_old_transport_closed {} ⟨fun i hi => by simp at hi, fun t ht => by simp at ht⟩ evs hl).1 i hi

/-- Non-vacuity: three connections, ended by a healthy reconnect and by a keepalive timeout: transports 0 and 1 are closed, 2 is in use. -/
example : (run {} [.connect, .providerYields, .senderStep, .closeForReconnect, .connect, .providerYields, .keepaliveTimeout,
    .closeForReconnect, .connect, .providerYields]).closedT = [0, 1]
  ∧ (run {} [.connect, .providerYields, .senderStep, .closeForReconnect, .connect, .providerYields, .keepaliveTimeout,
    .closeForReconnect, .connect, .providerYields]).current = some 2 := by decide

theorem c17_counterexample_pre_f5 :
    ([Ev.connect, .providerYields, .senderStep, .keepaliveTimeout, .closeForReconnect, .connect, .providerYields,
      .request, .senderStep, .senderStep].foldl stepPreF5 {}).wire = [] := by decide

end RSocketModel.Client
