import RSocketModel.Gen.HandleSetupFn
import RSocketModel.Gen.Constants
/-!
# C16 — the server's accept / reject decision, read off the source

`Gen/HandleSetupFn.lean` is `RSocketBase.handle_setup` compiled from its AST on every run, as a
function of four facts. `c16_server_decision_matches_source` puts it in the closed form the engine
model's `c16_server_decision` (Props/C16.lean) proves of `Engine.step`; the corollaries are the
clauses of the property.
-/
namespace RSocketModel.SetupDecision
open RSocketModel.Gen

/-- **closed form of the source's decision**: RESUME, or LEASE without a lease publisher, is refused
with UNSUPPORTED_SETUP *before* `on_setup` runs and before any lease subscription; otherwise `on_setup`
runs exactly once, a failure of it is refused with REJECTED_SETUP, and the lease publisher is
subscribed exactly when the client asked for leases. -/
theorem c16_server_decision_matches_source (resume lease hasPub raises : Bool) :
    handle_setup resume lease hasPub raises =
      (if resume then (some errUnsupportedSetup, false, false)
       else if lease && !hasPub then (some errUnsupportedSetup, false, false)
       else if raises then (some errRejectedSetup, lease, true)
       else (none, lease, true)) := by
  cases resume <;> cases lease <;> cases hasPub <;> cases raises <;> rfl

/-- the lease check comes before the application's `on_setup` (the order seeded change C16b inverted) -/
theorem c16_lease_without_publisher_refused_before_on_setup (raises : Bool) :
    handle_setup false true false raises = (some errUnsupportedSetup, false, false) := by
  cases raises <;> rfl

/-- an accepted SETUP: no error, `on_setup` called -/
theorem c16_accepted_setup_calls_on_setup (lease hasPub : Bool) (h : lease = true → hasPub = true) :
    (handle_setup false lease hasPub false).1 = none ∧ (handle_setup false lease hasPub false).2.2 = true := by
  cases lease <;> cases hasPub <;> simp_all [handle_setup]

end RSocketModel.SetupDecision
