import RSocketModel.Props.C01
import RSocketModel.Props.C02Builders
/-!
# C01 — from the application's `Payload` objects to the peer's reassembled frames

`c01_end_to_end_bytes` speaks of the fragmentable frames handed to the send queue. This file closes
the step in front of it with the (regenerated) frame builders of `rsocket/frame_builders.py`: the
calls the application's payloads go through, fragmented with any fragment size, interleaved by the
sender, serialised, cut into arbitrary reads, parsed and reassembled, arrive — per stream — as
exactly the (metadata, data) pairs that were handed in, in order.
-/
namespace RSocketModel.Pipeline
open Fragment SendQueue RSocketModel.Builders

/-- the fragmentable frame a payload-carrying builder call hands to the send queue -/
def baseOf : Call → Option (Base UInt8)
  | .payload sid p c _ => some ⟨Gen.tyPayload, sid, 0, c, ob p.md, ob p.d⟩
  | .requestChannel sid p n c => some ⟨Gen.tyRequestChannel, sid, n, c, ob p.md, ob p.d⟩
  | .requestStream sid p n => some ⟨Gen.tyRequestStream, sid, n, false, ob p.md, ob p.d⟩
  | .requestResponse sid p => some ⟨Gen.tyRequestResponse, sid, 0, false, ob p.md, ob p.d⟩
  | .fnf sid p => some ⟨Gen.tyRequestFnf, sid, 0, false, ob p.md, ob p.d⟩
  | _ => none

/-- `baseOf` is the builder's frame: the whole (unfragmented) frame of the fragmentation model,
seen through the bridge to the codec's frame type, is what the decoder returns for the built frame
(for payloads that are not the library's "no element": C01 excludes the wholly empty payload) -/
theorem c01_base_is_built_frame (c : Call) (b : Base UInt8) (h : baseOf c = some b) (hne : c.content ≠ ([], [])) :
    toCodec (canonBase b) = Codec.canon (Builders.build c) := by
  cases c with
  | payload sid p cm nx =>
    simp only [baseOf, Option.some.injEq] at h
    subst h
    simp only [Call.content, ne_eq, Prod.mk.injEq, not_and] at hne
    have hcontent : (decide (0 < (ob p.md).length) || decide (0 < (ob p.d).length)) = true := by
      cases hm : ob p.md with
      | cons a t => simp
      | nil =>
        have := hne hm
        cases hd : ob p.d with
        | nil => exact absurd hd this
        | cons a t => simp
    have hcontent' : (nx || !(ob p.md).isEmpty || !(ob p.d).isEmpty) = true := by
      cases hm : ob p.md with
      | cons a t => simp
      | nil =>
        have := hne hm
        cases hd : ob p.d with
        | nil => exact absurd hd this
        | cons a t => simp
    simp [toCodec, canonBase, Builders.build, Codec.canon, hcontent, hcontent', hasN, Gen.tyPayload, Gen.tyRequestResponse, Gen.tyRequestFnf,
      Gen.tyRequestStream, Gen.tyRequestChannel]
  | requestChannel sid p n cm =>
    simp only [baseOf, Option.some.injEq] at h
    subst h
    simp [toCodec, canonBase, Builders.build, Codec.canon, hasN, Gen.tyPayload, Gen.tyRequestResponse, Gen.tyRequestFnf,
      Gen.tyRequestStream, Gen.tyRequestChannel]
  | requestStream sid p n =>
    simp only [baseOf, Option.some.injEq] at h
    subst h
    simp [toCodec, canonBase, Builders.build, Codec.canon, hasN, Gen.tyPayload, Gen.tyRequestResponse, Gen.tyRequestFnf,
      Gen.tyRequestStream, Gen.tyRequestChannel]
  | requestResponse sid p =>
    simp only [baseOf, Option.some.injEq] at h
    subst h
    simp [toCodec, canonBase, Builders.build, Codec.canon, hasN, Gen.tyPayload, Gen.tyRequestResponse, Gen.tyRequestFnf,
      Gen.tyRequestStream, Gen.tyRequestChannel]
  | fnf sid p =>
    simp only [baseOf, Option.some.injEq] at h
    subst h
    simp [toCodec, canonBase, Builders.build, Codec.canon, hasN, Gen.tyPayload, Gen.tyRequestResponse, Gen.tyRequestFnf,
      Gen.tyRequestStream, Gen.tyRequestChannel]
  | _ => simp [baseOf] at h

theorem baseOf_props (c : Call) (b : Base UInt8) (h : baseOf c = some b) (hwf : Codec.WF (Builders.build c)) :
    b.sid = c.sid ∧ (b.md, b.d) = c.content ∧ WFBase b := by
  cases c <;> simp only [baseOf, Option.some.injEq, reduceCtorEq] at h <;> subst h <;>
    simp only [Builders.build, Codec.WF] at hwf <;>
    simp [Call.sid, Call.content, WFBase, Gen.fragmentableTypes, Gen.tyPayload, Gen.tyRequestResponse, Gen.tyRequestFnf,
      Gen.tyRequestStream, Gen.tyRequestChannel] <;> omega

/-- the sender's schedule: `some c` = the application's call `c` hands its frame to the send queue,
`none` = the sender task writes one (fragment of a) frame -/
def schedOf (calls : List (Option Call)) : List (Option (Base UInt8)) := calls.map (·.bind baseOf)

theorem handed_schedOf (calls : List (Option Call)) (sid : Nat)
    (h : ∀ c, some c ∈ calls → ∃ b, baseOf c = some b ∧ b.sid = c.sid ∧ (b.md, b.d) = c.content) :
    ((handed (schedOf calls)).filter (·.sid == sid)).map (fun b => (b.md, b.d)) =
      ((calls.filterMap id).filter (·.sid == sid)).map Call.content := by
  induction calls with
  | nil => simp [schedOf, handed]
  | cons oc r ih =>
    have ih' := ih (fun c hc => h c (by simp [hc]))
    cases oc with
    | none => simpa [schedOf, handed] using ih'
    | some c =>
      obtain ⟨b, hb, hs, hc⟩ := h c (by simp)
      simp only [schedOf, List.map_cons, Option.bind_some, hb, handed, List.filterMap_cons, id_eq] at ih' ⊢
      by_cases e : c.sid = sid
      · have e' : b.sid = sid := hs ▸ e
        simp [List.filter_cons, e, e', hc, ih']
      · have e' : ¬ b.sid = sid := hs ▸ e
        simp [List.filter_cons, e, e', ih']

/-- **API payloads, end to end, down to the bytes.** Any interleaving of payload-carrying builder
calls (requests of the four stream-opening kinds and PAYLOAD elements, every payload part `None`,
empty or bytes, within the wire ranges) with sender passes that drains the queue; any fragment size
≥ the minimum; the real serialisation of every fragment, with or without length prefix budget; any
cut of the byte stream into reads: per stream, the (metadata, data) pairs of the frames the
receiver reassembles are exactly the contents handed to the builders for that stream, in order,
each once, nothing from another stream. -/
theorem c01_api_payloads_end_to_end (F : Nat) (lp : Bool) (hF : Gen.minimumFragmentSize ≤ F) (hFmax : F + 3 < 2 ^ 24)
    (calls : List (Option Call))
    (hcalls : ∀ c, some c ∈ calls → (baseOf c).isSome ∧ Codec.WF (Builders.build c))
    (hdrain : (run init (evsOf F lp (schedOf calls))).queue = []) (chunks : List RSocketModel.Bytes)
    (hchunks : chunks.flatten =
      ((((run init (evsOf F lp (schedOf calls))).wire.map (·.2)).map encF).map Parser.prefixed).flatten)
    (sid : Nat) :
    ((deliver [] (Parser.feedAll parseF [] chunks).1).filter (·.sid == sid)).map (fun f => (f.md, f.d)) =
      ((calls.filterMap id).filter (·.sid == sid)).map Call.content := by
  have hprops : ∀ c, some c ∈ calls → ∃ b, baseOf c = some b ∧ b.sid = c.sid ∧ (b.md, b.d) = c.content ∧ WFBase b := by
    intro c hc
    obtain ⟨hs, hwf⟩ := hcalls c hc
    obtain ⟨b, hb⟩ := Option.isSome_iff_exists.mp hs
    obtain ⟨h1, h2, h3⟩ := baseOf_props c b hb hwf
    exact ⟨b, hb, h1, h2, h3⟩
  have hwfb : ∀ b, some b ∈ schedOf calls → WFBase b := by
    intro b hb
    simp only [schedOf, List.mem_map] at hb
    obtain ⟨oc, hoc, hbind⟩ := hb
    cases oc with
    | none => simp at hbind
    | some c =>
      obtain ⟨b', hb', _, _, hw⟩ := hprops c hoc
      simp only [Option.bind_some, hb', Option.some.injEq] at hbind
      exact hbind ▸ hw
  have main := c01_end_to_end_bytes F lp hF hFmax (schedOf calls) hwfb hdrain chunks hchunks sid
  have := congrArg (List.map (fun f : FFrame UInt8 => (f.md, f.d))) main
  simp only [List.map_map] at this
  have hl : ((fun f : FFrame UInt8 => (f.md, f.d)) ∘ forget) = (fun f : FFrame UInt8 => (f.md, f.d)) := by
    funext f; simp [forget]
  have hr : ((fun f : FFrame UInt8 => (f.md, f.d)) ∘ canonBase) = (fun b : Base UInt8 => (b.md, b.d)) := by
    funext b; simp [canonBase]
  rw [hl, hr] at this
  rw [this]
  exact handed_schedOf calls sid (fun c hc => by
    obtain ⟨b, h1, h2, h3, _⟩ := hprops c hc
    exact ⟨b, h1, h2, h3⟩)

/-- non-vacuity: a request-stream call and an element call have frames, within the ranges -/
example : (baseOf (.requestStream 1 ⟨some [1], some [2, 3]⟩ 5)).isSome ∧ Codec.WF (Builders.build (.requestStream 1 ⟨some [1], some [2, 3]⟩ 5)) ∧
    (baseOf (.payload 2 ⟨none, some [9]⟩ true true)).isSome ∧ Codec.WF (Builders.build (.payload 2 ⟨none, some [9]⟩ true true)) := by decide

end RSocketModel.Pipeline
