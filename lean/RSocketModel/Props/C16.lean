import RSocketModel.Client
import RSocketModel.Props.C02
import RSocketModel.Engine.Step
/-!
# C16 — Setup handshake: faithful SETUP first; correct accept/reject
-/
namespace RSocketModel.Client

/-- whole-millisecond periods are announced exactly -/
theorem c16_millis_exact (k : Nat) : toMillis (1000 * k) = k := by unfold toMillis; omega

/-- the model's SETUP is within the wire format's ranges for every configuration with MIME names
of at most 127 bytes and periods below 2^32 ms -/
theorem setup_wf (c : Config) (h1 : c.mdEnc.length < 128) (h2 : c.dataEnc.length < 128)
    (h3 : toMillis c.keepAliveUs < 2 ^ 32) (h4 : toMillis c.maxLifetimeUs < 2 ^ 32) (h5 : c.setupMd.length < 2 ^ 24) :
    Codec.WF (setupFrame c) := by
  simp [setupFrame, Codec.WF]; omega

/-- **faithful SETUP**: what the peer decodes from the client's SETUP frame is exactly the
configuration — version 1.0, both periods in milliseconds, both MIME types, lease flag, payload -/
theorem c16_setup_fields_exact (c : Config) (h1 : c.mdEnc.length < 128) (h2 : c.dataEnc.length < 128)
    (h3 : toMillis c.keepAliveUs < 2 ^ 32) (h4 : toMillis c.maxLifetimeUs < 2 ^ 32) (h5 : c.setupMd.length < 2 ^ 24) :
    Codec.decode (Codec.encode (setupFrame c)) =
      .frame (.setup 0 false c.honorLease false 1 0 (toMillis c.keepAliveUs) (toMillis c.maxLifetimeUs) []
        c.mdEnc c.dataEnc c.setupMd c.setupData) := by
  have := Codec.c02_decode_encode (setupFrame c) (setup_wf c h1 h2 h3 h4 h5)
  simpa [setupFrame, Codec.canon] using this

/-! ### SETUP precedes every other frame on every connection -/

/-- a transport was handed nothing, or SETUP first and only once -/
def WireOK (w : List Tag) : Prop := w = [] ∨ (w.head? = some .setup ∧ .setup ∉ w.tail)

/-- invariant of an epoch: SETUP is still at the head of the queue and nothing was sent, or it
was the first frame sent and is nowhere else; every earlier transport saw SETUP first, once -/
def SetupInv (s : State) : Prop :=
  ((s.wire = [] ∧ s.queue.head? = some .setup ∧ .setup ∉ s.queue.tail) ∨
   (s.wire.head? = some .setup ∧ .setup ∉ s.wire.tail ∧ .setup ∉ s.queue)) ∧
  ∀ w ∈ s.epochs, WireOK w

theorem wireOK_of_inv (s : State) (h : SetupInv s) : WireOK s.wire := by
  rcases h.1 with ⟨h1, _⟩ | ⟨h1, h2, _⟩
  · exact Or.inl h1
  · exact Or.inr ⟨h1, h2⟩

theorem setupInv_connect (s : State) (h : s.connects = 0 ∨ SetupInv s) (he : s.connects = 0 → s.epochs = []) :
    SetupInv (step s .connect) := by
  refine ⟨Or.inl ⟨rfl, rfl, by simp [step]⟩, ?_⟩
  intro w hw
  simp only [step] at hw
  by_cases hc : s.connects = 0
  · simp [hc, he hc] at hw
  · simp only [hc, if_false, List.mem_append, List.mem_singleton] at hw
    rcases h with h | h
    · exact absurd h hc
    · rcases hw with hw | rfl
      · exact h.2 w hw
      · exact wireOK_of_inv s h

theorem head?_append_ne_nil {α : Type} (l : List α) (x : α) (a : α) (h : l.head? = some a) :
    (l ++ [x]).head? = some a := by
  cases l with
  | nil => simp at h
  | cons y ys => simpa using h

theorem tail_append_ne_nil {α : Type} (l : List α) (x : α) (a : α) (h : l.head? = some a) :
    (l ++ [x]).tail = l.tail ++ [x] := by
  cases l with
  | nil => simp at h
  | cons y ys => simp

theorem setupInv_enqueue (s : State) (x : Tag) (hx : x ≠ .setup) (h : SetupInv s) :
    SetupInv { s with queue := s.queue ++ [x] } := by
  refine ⟨?_, h.2⟩
  rcases h.1 with ⟨h1, h2, h3⟩ | ⟨h1, h2, h3⟩
  · left
    refine ⟨h1, head?_append_ne_nil _ _ _ h2, ?_⟩
    simp only [tail_append_ne_nil _ _ _ h2, List.mem_append, List.mem_singleton, not_or]
    exact ⟨h3, fun e => hx e.symm⟩
  · right
    refine ⟨h1, h2, ?_⟩
    simp only [List.mem_append, List.mem_singleton, not_or]
    exact ⟨h3, fun e => hx e.symm⟩

theorem setupInv_step (s : State) (e : Ev) (h : SetupInv s) (hc : 0 < s.connects) : SetupInv (step s e) := by
  cases e with
  | connect => exact setupInv_connect s (Or.inr h) (fun h0 => by omega)
  | closeForReconnect => exact ⟨h.1, h.2⟩
  | providerYields => exact ⟨h.1, h.2⟩
  | response id => exact ⟨h.1, h.2⟩
  | keepaliveTimeout => exact ⟨h.1, h.2⟩
  | request =>
    have := setupInv_enqueue s (.req s.nextId) (by simp) h
    exact ⟨this.1, this.2⟩
  | keepaliveTick => exact setupInv_enqueue s .keepalive (by simp) h
  | queueOther => exact setupInv_enqueue s .other (by simp) h
  | senderStep =>
    simp only [step]
    split
    · rename_i hd t hg hq
      refine ⟨?_, h.2⟩
      rcases h.1 with ⟨h1, h2, h3⟩ | ⟨h1, h2, h3⟩
      · right
        simp only [hq, List.head?_cons, Option.some.injEq, List.tail_cons] at h2 h3
        subst h2
        simp [h1, h3]
      · right
        simp only [hq, List.mem_cons, not_or] at h3
        cases hw : s.wire with
        | nil => simp [hw] at h1
        | cons a as =>
          simp only [hw, List.head?_cons, Option.some.injEq, List.tail_cons] at h1 h2
          simp only [List.cons_append, List.head?_cons, List.tail_cons, List.mem_append, List.mem_singleton, not_or]
          exact ⟨by rw [h1], ⟨h2, fun e => h3.1 e⟩, h3.2⟩
    · exact h

theorem connects_pos_step (s : State) (e : Ev) (h : 0 < s.connects) : 0 < (step s e).connects := by
  cases e <;> simp only [step] <;> (try split) <;> omega

/-- **SETUP first, once, on every connection** — for every sequence of requests, keepalive ticks,
sender steps, provider/transport suspensions (the gate opens whenever it opens), timeouts and
reconnects that starts with `connect()`: the current transport and every earlier one was handed
either nothing or SETUP as its first frame and no second SETUP. -/
theorem c16_setup_first (evs : List Ev) :
    let s := run (step {} .connect) evs
    WireOK s.wire ∧ ∀ w ∈ s.epochs, WireOK w := by
  intro s
  suffices h : SetupInv s from ⟨wireOK_of_inv s h, h.2⟩
  have h0 : SetupInv (step {} .connect) ∧ 0 < (step ({} : State) .connect).connects :=
    ⟨setupInv_connect {} (Or.inl rfl) (fun _ => rfl), by simp [step]⟩
  show SetupInv (run (step {} .connect) evs)
  generalize step ({} : State) .connect = s0 at h0
  induction evs generalizing s0 with
  | nil => exact h0.1
  | cons e es ih =>
    exact ih (step s0 e) ⟨setupInv_step s0 e h0.1 h0.2, connects_pos_step s0 e h0.2⟩

/-- what happened before fix F6: a request issued while `transport.connect()` is suspended is sent
before SETUP -/
theorem c16_counterexample_pre_f6 :
    ([Sum.inl Ev.connect, .inl .request, .inl .providerYields, .inl .senderStep, .inr (), .inl .senderStep].foldl
      stepPreF6 {}).wire = [.req 1, .setup] := by decide

/-! ### server side: accept / reject (engine model) -/

open Engine in
/-- **server decision**: a SETUP that requests resume, or lease without a lease publisher, is
answered with UNSUPPORTED_SETUP on stream 0 and `on_setup` is not called; `on_setup` raising gives
REJECTED_SETUP; otherwise `on_setup` is called exactly once and nothing is sent; a RESUME frame is
answered with REJECTED_RESUME. -/
theorem c16_server_decision (st : Engine.State) (hc : st.closed = false) (resume lease : Bool) (data : List Nat)
    (b : Engine.Behaviour) :
    (Engine.step st (.recv { ty := .setup, sid := 0, respond := resume, complete := lease, data := data } b)).2 =
      (if resume then [.send (mkError 0 cUnsupportedSetup)]
       else if lease && !st.hasLeasePublisher then [.send (mkError 0 cUnsupportedSetup)]
       else if b = .raises then [.handlerCall .setup data, .send (mkError 0 cRejectedSetup)]
       else [.handlerCall .setup data]) ∧
    (Engine.step st (.recv { ty := .resume, sid := 0 } b)).2 = [.send (mkError 0 cRejectedResume)] := by
  constructor
  · cases resume <;> cases lease <;> cases hl : st.hasLeasePublisher <;> cases b <;>
      simp [Engine.step, Engine.recvStep, hc, Engine.isFragmentable, Engine.handleByType, Engine.State.emit, hl]
  · simp [Engine.step, Engine.recvStep, hc, Engine.isFragmentable, Engine.handleByType, Engine.State.emit]

end RSocketModel.Client
