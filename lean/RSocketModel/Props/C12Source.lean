import RSocketModel.Gen.DispatchFn
/-!
# C12 / C13 / C10 / C03 — what happens to a received frame, read off the source

`Gen/DispatchFn.lean` is the decision logic of `RSocketBase._handle_next_frame` compiled from its
AST on every run, as a function of six facts about the frame. The theorems below are statements
about that compiled function itself — the rules the engine model (`Engine/Step.lean: recv`)
transcribes, re-checked against what the code says now.
-/
namespace RSocketModel.Dispatch
open RSocketModel.Gen

/-- C12: the parser's invalid-frame marker is never dispatched anywhere, whatever else holds -/
theorem c12_invalid_marker_never_dispatched (fr cc z i r : Bool) :
    handle_next_frame true fr cc z i r = .returned := by
  simp [handle_next_frame]

/-- C03: a fragment that does not complete its frame dispatches nothing -/
theorem c03_incomplete_fragment_dispatches_nothing (z i r : Bool) :
    handle_next_frame false true false z i r = .waiting := by
  simp [handle_next_frame]

/-- C13: a request-initiating frame goes to its `handle_*` method **whether or not its stream id is
registered** — the stream table is not consulted first, so a request on an active id reaches the
method that rejects it (the order seeded change C13b inverted) -/
theorem c13_request_goes_by_type_whatever_the_table (fr z r : Bool) :
    handle_next_frame false fr true z true r = .byType := by
  cases fr <;> simp [handle_next_frame]

/-- C08 / C16: frames on stream 0 go by type, never to a stream handler -/
theorem c08_connection_frames_by_type (fr i r : Bool) :
    handle_next_frame false fr true true i r = .byType := by
  cases fr <;> simp [handle_next_frame]

/-- C10 / C09: a complete non-request frame on a stream that is not registered is dropped: it
reaches no handler of any kind (late frames after an interaction ended) -/
theorem c10_frame_on_unregistered_stream_dropped (fr : Bool) :
    handle_next_frame false fr true false false false = .dropped := by
  cases fr <;> simp [handle_next_frame]

/-- C01: a complete non-request frame on a registered stream goes to that stream's handler -/
theorem c01_frame_on_registered_stream_to_its_handler (fr : Bool) :
    handle_next_frame false fr true false false true = .toStream := by
  cases fr <;> simp [handle_next_frame]

/-- fragmentation does not change where a complete frame goes -/
theorem c03_fragmentable_or_not_same_dispatch (z i r : Bool) :
    handle_next_frame false true true z i r = handle_next_frame false false true z i r := by
  simp [handle_next_frame]

end RSocketModel.Dispatch
