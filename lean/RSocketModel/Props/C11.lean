import RSocketModel.Engine.Step
/-! # C11 — placeholder until the proofs land -/
namespace RSocketModel.Engine
theorem c11_placeholder : (init 1).closed = false := rfl
end RSocketModel.Engine
