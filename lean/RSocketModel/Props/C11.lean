import RSocketModel.Proofs.C11Lemmas
/-!
# C11 — Connection loss or close fails everything pending, exactly once
`lost` is the entry point `_on_connection_closed` (reached from EOF, a transport error or `close()`).
-/
namespace RSocketModel.Engine

/-- **every pending request-response is failed with a connection error** -/
theorem c11_pending_request_response_failed (st : State) (h : WF st) (hc : st.closed = false) (sid oid : Nat) (s : Stream)
    (hreg : (sid, oid) ∈ st.table) (ho : st.obj oid = some s) (hk : s.kind = .rrReq) (hp : s.fut = .pending) :
    Out.futError oid cConnectionError ∈ (step st .lost).2 := by
  rw [(lost_spec st h hc).1]
  simp only [List.mem_append, List.mem_flatMap]
  exact Or.inl ⟨(sid, oid), hreg, by simp [stopOuts, ho, hk, hp]⟩

/-- **every open stream / channel subscriber is failed with a connection error** -/
theorem c11_pending_subscriber_failed (st : State) (h : WF st) (hc : st.closed = false) (sid oid : Nat) (s : Stream)
    (hreg : (sid, oid) ∈ st.table) (ho : st.obj oid = some s) (hsub : s.subscribed = true)
    (hk : s.kind = .stReq ∨ (s.kind = .chReq ∧ s.recvComplete = false)) :
    Out.onError oid cConnectionError ∈ (step st .lost).2 := by
  rw [(lost_spec st h hc).1]
  simp only [List.mem_append, List.mem_flatMap]
  refine Or.inl ⟨(sid, oid), hreg, ?_⟩
  rcases hk with hk | ⟨hk, hr⟩
  · simp [stopOuts, ho, hk, hsub]
  · simp [stopOuts, ho, hk, hsub, hr]

/-- **every publisher / handler future that was producing is cancelled** -/
theorem c11_producers_cancelled (st : State) (h : WF st) (hc : st.closed = false) (sid oid : Nat) (s : Stream)
    (hreg : (sid, oid) ∈ st.table) (ho : st.obj oid = some s) :
    (s.kind = .rrResp → s.fut = .pending → Out.hfCancel oid ∈ (step st .lost).2) ∧
    ((s.kind = .stResp ∨ s.kind = .chReq ∨ s.kind = .chResp) → s.hasPub = true → Out.pubCancel oid ∈ (step st .lost).2) := by
  rw [(lost_spec st h hc).1]
  simp only [List.mem_append, List.mem_flatMap]
  constructor
  · intro hk hp
    exact Or.inl ⟨(sid, oid), hreg, by simp [stopOuts, ho, hk, hp]⟩
  · intro hk hp
    refine Or.inl ⟨(sid, oid), hreg, ?_⟩
    rcases hk with hk | hk | hk <;> simp [stopOuts, ho, hk, hp]

/-- **exactly once**: no application object receives the same loss signal twice -/
theorem c11_each_signal_once (st : State) (h : WF st) (hc : st.closed = false) (oid : Nat) (x : Out)
    (hx : x = .futError oid cConnectionError ∨ x = .onError oid cConnectionError ∨ x = .hfCancel oid ∨ x = .pubCancel oid) :
    (step st .lost).2.count x ≤ 1 := by
  rw [(lost_spec st h hc).1, List.count_append]
  have hcl : ([Out.onClose] : List Out).count x = 0 := by
    rcases hx with rfl | rfl | rfl | rfl <;> simp
  rw [hcl, Nat.add_zero]
  -- outputs of entry `p` mention only `p.2`; object ids in the table are distinct
  have hmention : ∀ (p : Nat × Nat), p.2 ≠ oid → (stopOuts (st.obj p.2) p.2).count x = 0 := by
    intro p hp
    apply List.count_eq_zero.mpr
    intro hm
    have := stopOuts_mentions _ _ _ hm
    rcases hx with rfl | rfl | rfl | rfl <;> rcases this with h1 | h1 | h1 | h1 <;> simp at h1 <;> omega
  have hnd := h.oids_nodup
  generalize st.table = l at hnd
  induction l with
  | nil => simp
  | cons p rest ih =>
    simp only [List.map_cons, List.nodup_cons] at hnd
    simp only [List.flatMap_cons, List.count_append]
    by_cases hp : p.2 = oid
    · have hrest : (rest.flatMap fun p => stopOuts (st.obj p.2) p.2).count x = 0 := by
        clear ih
        have hnot : ∀ q ∈ rest, q.2 ≠ oid := by
          intro q hq e
          apply hnd.1
          rw [hp, ← e]
          exact List.mem_map_of_mem hq
        clear hnd
        induction rest with
        | nil => simp
        | cons q qs ihq =>
          simp only [List.flatMap_cons, List.count_append]
          rw [hmention q (hnot q (by simp)), Nat.zero_add]
          exact ihq (fun r hr => hnot r (by simp [hr]))
      rw [hrest, Nat.add_zero]
      exact count_le_one_of_nodup _ (stopOuts_nodup _ _) _
    · rw [hmention p hp, Nat.zero_add]
      exact ih hnd.2

/-- **the close notification is delivered exactly once per endpoint**: the `lost` entry point
delivers it once and only when the endpoint is not yet closed; no other entry point delivers it;
once closed, an endpoint stays closed -/
theorem c11_on_close_once (st : State) (h : WF st) :
    (st.closed = false → (step st .lost).2.count .onClose = 1 ∧ (step st .lost).1.closed = true) ∧
    (st.closed = true → ∀ ev, (step st ev).2.count .onClose = 0 ∧ (step st ev).1.closed = true) := by
  constructor
  · intro hc
    have hs := lost_spec st h hc
    refine ⟨?_, hs.2.2⟩
    rw [hs.1, List.count_append]
    have : (st.table.flatMap fun p => stopOuts (st.obj p.2) p.2).count .onClose = 0 := by
      apply List.count_eq_zero.mpr
      intro hm
      simp only [List.mem_flatMap] at hm
      obtain ⟨p, _, hp⟩ := hm
      have := stopOuts_mentions _ _ _ hp
      rcases this with h | h | h | h <;> simp at h
    rw [this]; rfl
  · intro hc ev
    exact closed_stays st hc ev

/-- **the endpoint stops sending**: once closed, no entry point queues a frame any more -/
theorem c11_silent_after (st : State) (hc : st.closed = true) (ev : Ev) :
    ∀ g, Out.send g ∉ (step st ev).2 := by
  intro g hg
  simp only [step, State.emit, hc, if_true, List.mem_filter] at hg
  simp at hg

/-- non-vacuity: a client with one pending request-response loses its connection -/
example : (step (step (init 1) (.requestResponse [1])).1 .lost).2 = [.futError 0 cConnectionError, .onClose] := by decide

/-- **`close()` fails whatever is still registered, in any state - also after the connection was
already lost** (`stopStreams` is `stop_all_streams` alone: the last step of `RSocketBase.close()`
since the repair of defect F20, and the clean-up of the client's reconnect listener): the stream
table is empty afterwards, every pending request-response awaitable gets the connection error,
every open stream / channel subscriber `on_error`. No `closed = false` hypothesis: a request
issued after the loss is registered in a closed state and is failed by the `close()` that follows. -/
theorem c11_close_stops_what_is_registered (st : State) (h : WF st) :
    (step st .stopStreams).1.table = [] ∧
    (∀ sid oid s, (sid, oid) ∈ st.table → st.obj oid = some s → s.kind = .rrReq → s.fut = .pending →
      Out.futError oid cConnectionError ∈ (step st .stopStreams).2) ∧
    (∀ sid oid s, (sid, oid) ∈ st.table → st.obj oid = some s → s.subscribed = true →
      (s.kind = .stReq ∨ (s.kind = .chReq ∧ s.recvComplete = false)) →
      Out.onError oid cConnectionError ∈ (step st .stopStreams).2) := by
  have ho := stopAll_outs st.table st h.oids_nodup
  have ht := stopAll_table st.table st
  have hmem : ∀ x : Out, (∀ f, x ≠ .send f) → x ∈ st.table.flatMap (fun p => stopOuts (st.obj p.2) p.2) →
      x ∈ (step st .stopStreams).2 := by
    intro x hx hin
    simp only [step, stopStreamsStep, State.emit, ho]
    split
    · simp only [List.mem_filter]
      refine ⟨hin, ?_⟩
      cases x <;> simp_all
    · exact hin
  refine ⟨?_, ?_, ?_⟩
  · simp only [step, stopStreamsStep]
    rw [ht]
    apply List.filter_eq_nil_iff.mpr
    intro p hp
    have : (st.table.map (·.1)).contains p.1 = true := by
      rw [List.contains_iff_mem]
      exact List.mem_map_of_mem hp
    rw [this]; simp
  · intro sid oid s hreg hobj hk hp
    apply hmem _ (by intro f; simp)
    simp only [List.mem_flatMap]
    exact ⟨(sid, oid), hreg, by simp [stopOuts, hobj, hk, hp]⟩
  · intro sid oid s hreg hobj hsub hk
    apply hmem _ (by intro f; simp)
    simp only [List.mem_flatMap]
    refine ⟨(sid, oid), hreg, ?_⟩
    rcases hk with hk | ⟨hk, hr⟩
    · simp [stopOuts, hobj, hk, hsub]
    · simp [stopOuts, hobj, hk, hsub, hr]

/-- the history behind defect F20, on the model: the connection is lost, the application asks once
more, `close()` fails that request -/
example : (run (init 2) [.lost, .requestResponse [1], .stopStreams]).2 =
    [[.onClose], [.created 0 2], [.futError 0 cConnectionError]] := by decide +kernel

end RSocketModel.Engine
