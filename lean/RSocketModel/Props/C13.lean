import RSocketModel.Proofs.StreamId
import RSocketModel.Gen.Constants
import RSocketModel.Engine.Step
/-!
# C13 — Stream ids: right parity, never zero, never a live id, wrap-around

Property theorems only (helper lemmas live in `Proofs/StreamId.lean`).
All statements are for every id width `k ≥ 1`, every active set, every current
position and every history; the code's constant is the instance `k = 31`
(`c13_code_width`, from the regenerated `Gen/Constants.lean`).
-/
namespace RSocketModel.StreamId

/-- One allocation, any state: the id returned is non-zero, has the parity of the current
position, is not active, is in range, becomes the new current position, and is the *first*
free id met when stepping by 2 from the current position modulo `2^k` (ids in use and 0 are
skipped). -/
theorem c13_alloc_sound (k : Nat) (hk : 1 ≤ k) (active : Nat → Bool) (cur id c : Nat)
    (hc : cur < 2 ^ k) (h : alloc k active cur = (some id, c)) :
    id ≠ 0 ∧ id % 2 = cur % 2 ∧ active id = false ∧ id < 2 ^ k ∧ c = id ∧
    ∃ j, 1 ≤ j ∧ j ≤ 2 ^ (k - 1) ∧ id = (cur + 2 * j) % 2 ^ k ∧
      ∀ i, 1 ≤ i → i < j →
        ((cur + 2 * i) % 2 ^ k = 0 ∨ active ((cur + 2 * i) % 2 ^ k) = true) := by
  obtain ⟨hcid, j, hj1, hjn, hid, hnz, hna, hall⟩ := allocLoop_some k active _ cur id c h
  refine ⟨hnz, ?_, hna, ?_, hcid, j, hj1, hjn, ?_, ?_⟩
  · rw [hid, nth_parity hk]
  · rw [hid]; exact nth_lt k cur j hc
  · rw [hid, nth_eq k cur j hc]
  · intro i hi1 hij
    have := hall i hi1 hij
    rwa [nth_eq k cur i hc] at this

/-- Allocation fails exactly when every non-zero id of that parity is active. -/
theorem c13_fails_iff_full (k : Nat) (hk : 1 ≤ k) (active : Nat → Bool) (cur : Nat)
    (hc : cur < 2 ^ k) :
    (alloc k active cur).1 = none ↔
      ∀ x, x < 2 ^ k → x % 2 = cur % 2 → x ≠ 0 → active x = true := by
  constructor
  · intro h x hx hp hnz
    have hex : ∃ c, alloc k active cur = (none, c) := ⟨(alloc k active cur).2, by rw [← h]⟩
    obtain ⟨c, hc'⟩ := hex
    obtain ⟨_, hall⟩ := allocLoop_none k active _ cur c hc'
    obtain ⟨j, hj1, hjn, hjx⟩ := enumerates hk cur x hc hx hp
    have := hall j hj1 hjn
    rw [hjx] at this
    rcases this with h0 | ha
    · exact absurd h0 hnz
    · exact ha
  · intro hfull
    apply allocLoop_none_of_all
    intro i hi1 hin
    by_cases h0 : nth k cur i = 0
    · exact Or.inl h0
    · exact Or.inr (hfull _ (nth_lt k cur i hc) (nth_parity hk cur i) h0)

/-- After a failed allocation the current position is back where it was (full cycle). -/
theorem c13_failure_full_cycle (k : Nat) (hk : 1 ≤ k) (active : Nat → Bool) (cur c : Nat)
    (hc : cur < 2 ^ k) (h : alloc k active cur = (none, c)) : c = cur := by
  obtain ⟨hc', _⟩ := allocLoop_none k active _ cur c h
  rw [hc', nth_eq k cur _ hc]
  have : 2 * attempts k = 2 ^ k := by unfold attempts; rw [two_pow_split hk]
  rw [this, Nat.add_mod_right, Nat.mod_eq_of_lt hc]

/-! ### Histories -/

/-- State invariant of the history machine for an endpoint whose first id is `first`. -/
def Inv (first : Nat) (s : State) : Prop :=
  1 ≤ s.k ∧ s.cur < 2 ^ s.k ∧ s.cur % 2 = first % 2

theorem inv_init (k first : Nat) (hk : 1 ≤ k) (hf : 1 ≤ first) : Inv first (init k first) :=
  ⟨hk, initCur_lt k first, initCur_parity hk first hf⟩

theorem alloc_snd_inv (k : Nat) (hk : 1 ≤ k) (active : Nat → Bool) (cur : Nat) (hc : cur < 2 ^ k) :
    (alloc k active cur).2 < 2 ^ k ∧ (alloc k active cur).2 % 2 = cur % 2 := by
  rcases h : alloc k active cur with ⟨o, c⟩
  cases o with
  | none =>
    have := c13_failure_full_cycle k hk active cur c hc h
    subst this; exact ⟨hc, rfl⟩
  | some id =>
    obtain ⟨_, hp, _, hlt, hcid, _⟩ := c13_alloc_sound k hk active cur id c hc h
    simp only [hcid]; exact ⟨hlt, hp⟩

theorem inv_step (first : Nat) (s : State) (op : Op) (h : Inv first s) : Inv first (step s op).1 := by
  obtain ⟨hk, hc, hp⟩ := h
  have ha := alloc_snd_inv s.k hk s.isActive s.cur hc
  cases op with
  | allocate =>
    simp only [step]
    split <;> rename_i heq <;> (rw [heq] at ha; exact ⟨hk, ha.1, by rw [← hp]; exact ha.2⟩)
  | allocateOnly =>
    simp only [step]
    split <;> rename_i heq <;> (rw [heq] at ha; exact ⟨hk, ha.1, by rw [← hp]; exact ha.2⟩)
  | register id => simp only [step]; split <;> exact ⟨hk, hc, hp⟩
  | finish id => exact ⟨hk, hc, hp⟩
  | query id => exact ⟨hk, hc, hp⟩

theorem step_k (s : State) (op : Op) : (step s op).1.k = s.k := by
  cases op <;> simp only [step] <;> (try split) <;> rfl

/-- **C13 over all histories.** For every id width `k ≥ 1`, first id `first ≥ 1` (1 = client,
2 = server), and every history of allocate / register / finish operations (registrations of
arbitrary peer-chosen ids included): every id ever handed out is non-zero, has the endpoint's
parity, is in range and was not active at that moment; and an allocation fails only when every
non-zero id of that parity is active at that moment. -/
theorem c13_history (k first : Nat) (hk : 1 ≤ k) (hf : 1 ≤ first) (ops : List Op) :
    ∀ so ∈ run (init k first) ops,
      (∀ id, so.2 = .allocated id →
        id ≠ 0 ∧ id % 2 = first % 2 ∧ so.1.isActive id = false ∧ id < 2 ^ k) ∧
      (so.2 = .allocationFailure →
        ∀ x, x < 2 ^ k → x % 2 = first % 2 → x ≠ 0 → so.1.isActive x = true) := by
  suffices H : ∀ (s : State), Inv first s → s.k = k → ∀ so ∈ run s ops,
      (∀ id, so.2 = .allocated id →
        id ≠ 0 ∧ id % 2 = first % 2 ∧ so.1.isActive id = false ∧ id < 2 ^ k) ∧
      (so.2 = .allocationFailure →
        ∀ x, x < 2 ^ k → x % 2 = first % 2 → x ≠ 0 → so.1.isActive x = true) from
    H _ (inv_init k first hk hf) rfl
  induction ops with
  | nil => intro s _ _ so hso; simp [run] at hso
  | cons op ops ih =>
    intro s hinv hsk so hso
    simp only [run, List.mem_cons] at hso
    rcases hso with rfl | hso
    · obtain ⟨hk', hc, hp⟩ := hinv
      subst hsk
      have key : ∀ o c, alloc s.k s.isActive s.cur = (o, c) →
          (∀ id, o = some id → id ≠ 0 ∧ id % 2 = first % 2 ∧ s.isActive id = false ∧ id < 2 ^ s.k) ∧
          (o = none → ∀ x, x < 2 ^ s.k → x % 2 = first % 2 → x ≠ 0 → s.isActive x = true) := by
        intro o c hal
        constructor
        · intro id ho; subst ho
          obtain ⟨h1, h2, h3, h4, _⟩ := c13_alloc_sound s.k hk' s.isActive s.cur id c hc hal
          exact ⟨h1, by rw [h2, hp], h3, h4⟩
        · intro ho x hx hpx hnz
          have := (c13_fails_iff_full s.k hk' s.isActive s.cur hc).1 (by rw [hal]; exact ho)
          exact this x hx (by rw [hpx, hp]) hnz
      cases op with
      | allocate =>
        simp only [step]
        split <;> rename_i heq
        · have := key _ _ heq
          exact ⟨fun id h => this.1 id (by simpa using h), fun h => by simp at h⟩
        · have := key _ _ heq
          exact ⟨fun id h => by simp at h, fun _ => this.2 rfl⟩
      | allocateOnly =>
        simp only [step]
        split <;> rename_i heq
        · have := key _ _ heq
          exact ⟨fun id h => this.1 id (by simpa using h), fun h => by simp at h⟩
        · have := key _ _ heq
          exact ⟨fun id h => by simp at h, fun _ => this.2 rfl⟩
      | register id =>
        simp only [step]; split <;> exact ⟨fun _ h => by simp at h, fun h => by simp at h⟩
      | finish id => exact ⟨fun _ h => by simp [step] at h, fun h => by simp [step] at h⟩
      | query id => exact ⟨fun _ h => by simp [step] at h, fun h => by simp [step] at h⟩
    · exact ih _ (inv_step first s op hinv) (by rw [step_k]; exact hsk) so hso

/-- A finished id is available again, and an id that is registered and not finished is not:
`assert_stream_id_available` refuses exactly the live ids. -/
theorem c13_available_iff (s : State) (id : Nat) : available s id = true ↔ id ∉ s.active := by
  simp [available, State.isActive]

theorem c13_finish_frees (s : State) (id : Nat) : available (step s (.finish id)).1 id = true := by
  simp [available, State.isActive, step]

theorem c13_register_occupies (s : State) (id : Nat) (h0 : id ≠ 0) (hlt : id < 2 ^ s.k) :
    available (step s (.register id)).1 id = false := by
  have : ¬ (id = 0 ∨ 2 ^ s.k ≤ id) := by omega
  simp [available, State.isActive, step, this]

/-! ### Streams registered while `stop_all_streams()` is walking over the table -/

theorem sweepOne_active (retry : Nat → Bool) (s : State) (id : Nat) :
    (∀ m, m ∈ s.active → m ≠ id → m ∈ (sweepOne retry s id).1.active) ∧
    (∀ n, n ∈ (sweepOne retry s id).2 → n ∉ s.active ∧ (n ≠ id → n ∈ (sweepOne retry s id).1.active)) := by
  unfold sweepOne
  by_cases hr : retry id = true
  · cases ha : alloc s.k s.isActive s.cur with
    | mk o c =>
      cases o with
      | none =>
        simp [hr, step, ha]
        intro m hm hne; exact ⟨hm, hne⟩
      | some n =>
        have hna : s.isActive n = false := by
          have := allocLoop_some s.k s.isActive _ s.cur n c ha
          obtain ⟨_, j, _, _, _, _, hna, _⟩ := this
          exact hna
        have hn : n ∉ s.active := by simpa [State.isActive] using hna
        simp [hr, step, ha]
        exact ⟨fun m hm hne => ⟨Or.inr hm, hne⟩, hn⟩
  · simp [hr, step]
    intro m hm hne; exact ⟨hm, hne⟩

theorem sweepLoop_keeps (retry : Nat → Bool) (rest : List Nat) (s : State)
    (hsub : ∀ x, x ∈ rest → x ∈ s.active) (hnd : rest.Nodup) :
    (∀ m, m ∈ s.active → m ∉ rest → m ∈ (sweepLoop retry s rest).1.active) ∧
    (∀ n, n ∈ (sweepLoop retry s rest).2 → n ∈ (sweepLoop retry s rest).1.active) := by
  induction rest generalizing s with
  | nil => simp [sweepLoop]
  | cons id rest ih =>
    obtain ⟨hkeep1, hnew1⟩ := sweepOne_active retry s id
    have hidn : id ∉ rest := (List.nodup_cons.mp hnd).1
    have hsub' : ∀ x, x ∈ rest → x ∈ (sweepOne retry s id).1.active := fun x hx =>
      hkeep1 x (hsub x (List.mem_cons_of_mem _ hx)) (fun h => hidn (h ▸ hx))
    obtain ⟨ihk, ihn⟩ := ih (sweepOne retry s id).1 hsub' (List.nodup_cons.mp hnd).2
    simp only [sweepLoop]
    refine ⟨fun m hm hnot => ?_, fun n hn => ?_⟩
    · have hne : m ≠ id := fun h => hnot (h ▸ List.mem_cons_self)
      exact ihk m (hkeep1 m hm hne) (fun h => hnot (List.mem_cons_of_mem _ h))
    · rcases List.mem_append.mp hn with h | h
      · obtain ⟨hnot, hin⟩ := hnew1 n h
        have hne : n ≠ id := fun e => hnot (e ▸ hsub id List.mem_cons_self)
        exact ihk n (hin hne) (fun hr => hnot (hsub n (List.mem_cons_of_mem _ hr)))
      · exact ihn n h

/-- `stop_all_streams()` with applications that react to the failure of their stream by opening a
new one at once: every stream registered while the table is being walked is still registered when
the walk is over — its id stays reserved (`assert_stream_id_available` refuses it, the allocator
skips it) — whatever the table, the position of the allocator, and whichever owners retry. -/
theorem c13_registered_during_sweep_stays_reserved (retry : Nat → Bool) (s : State) (hnd : s.active.Nodup)
    (n : Nat) (hn : n ∈ (sweep retry s).2) :
    available (sweep retry s).1 n = false := by
  have := (sweepLoop_keeps retry s.active s (fun _ h => h) hnd).2 n hn
  simpa [available, State.isActive, sweep] using this

/-- Non-vacuity, with a wrap: a 3-bit space holding 1, 3 and 5 with the allocator at 5; the owners of 5 and 1 retry:
the retries get 7 and (after the wrap) 3 — freed a moment earlier by the walk itself — and both are reserved afterwards. -/
example : (sweep (fun i => i == 5 || i == 1) { k := 3, cur := 5, active := [5, 3, 1] }).2 = [7, 3]
    ∧ (sweep (fun i => i == 5 || i == 1) { k := 3, cur := 5, active := [5, 3, 1] }).1.active = [3, 7] := by decide

/-- The code's id width. -/
theorem c13_code_width : Gen.maxStreamId = 2 ^ 31 - 1 := by decide

/-- non-vacuity: a history on a 3-bit space that wraps and skips a live id. -/
example : (run (init 3 1) [.allocate, .allocate, .allocate, .allocate, .finish 3, .allocate, .allocate]).map (·.2)
    = [.allocated 1, .allocated 3, .allocated 5, .allocated 7, .finished, .allocated 3, .allocationFailure] := by
  decide

end RSocketModel.StreamId

namespace RSocketModel.Engine

/-- **an incoming request on an id that is still active is rejected and replaces nothing**: for
every engine state, every stream-opening frame type and every handler behaviour, the only effect
is one ERROR[REJECTED] on that stream; the state — table, handler objects, cache — is unchanged -/
theorem c13_request_on_active_id_rejected (st : State) (hc : st.closed = false) (ty : FType) (hty : isInitiate ty = true)
    (sid : Nat) (hact : st.isActive sid = true) (hcache : st.cache.find? (·.1 == sid) = none)
    (data : List Nat) (n : Nat) (complete : Bool) (b : Behaviour) :
    step st (.recv { ty := ty, sid := sid, n := n, data := data, complete := complete } b) =
      (st, [.send (mkError sid cRejected)]) := by
  cases ty <;> simp [isInitiate] at hty <;>
    simp [step, recvStep, hc, isFragmentable, cacheAppend, hcache, isInitiate, handleByType, hact, State.emit]

end RSocketModel.Engine
