import RSocketModel.Props.C14
import RSocketModel.Gen.LeaseFn
import RSocketModel.Gen.LeaseDrainFn
import RSocketModel.Gen.LeaseGateFn
/-!
# C14 — the lease test is the source's `DefinedLease._is_request_allowed`

`Lease.allow` (hand-written: an expired lease refuses without counting, otherwise the counter is
incremented first and compared with the grant) is proved equal to the function the translator
compiles from `rsocket/lease.py` on every run (`Gen/LeaseFn.lean`). Every C14 theorem goes through
`allow`, so they are re-checked against the current source of that method.
-/
namespace RSocketModel.Lease

/-- **`allow` is the source's `_is_request_allowed`**, for every lease state and every instant:
same verdict, same new value of the request counter. -/
theorem c14_allow_matches_source (l : LeaseSt) (now : Nat) :
    Gen.is_request_allowed l.created l.ttl now l.used l.max = ((allow l now).1, (allow l now).2.used) := by
  unfold Gen.is_request_allowed allow
  by_cases h : l.created + l.ttl ≤ now
  · simp [h]
  · simp only [h, decide_false, Bool.false_eq_true, if_false]
    by_cases h2 : l.used + 1 ≤ l.max
    · have : ¬ (l.used + 1 > l.max) := by omega
      simp [h2, this]
    · have : l.used + 1 > l.max := by omega
      simp [h2, this]

/-- consequences read off the source's function itself: an expired lease never allows and never
counts; a live one allows exactly while fewer than `max` requests were counted -/
theorem c14_source_expired_refuses (created ttl now counter max : Nat) (h : created + ttl ≤ now) :
    Gen.is_request_allowed created ttl now counter max = (false, counter) := by
  simp [Gen.is_request_allowed, h]

theorem c14_source_live_allows_iff (created ttl now counter max : Nat) (h : now < created + ttl) :
    (Gen.is_request_allowed created ttl now counter max).1 = true ↔ counter < max := by
  have h' : ¬ (created + ttl ≤ now) := by omega
  simp only [Gen.is_request_allowed, h', decide_false, Bool.false_eq_true, if_false]
  by_cases h2 : counter + 1 > max
  · simp [h2]; omega
  · simp [h2]; omega

/-- **`drain` is the source's loop in `handle_lease`**: for every lease just installed, every instant,
every queue of waiting requests and everything sent before, running the compiled `while` loop (with
enough fuel for the whole queue) ends with the same request counter, the same requests still waiting
and the same requests sent, in the same order, as the model's `drain`. -/
theorem c14_drain_matches_source (now : Nat) (q : List Nat) :
    ∀ (l : LeaseSt) (sent : List (Nat × Nat)) (fuel : Nat), q.length < fuel →
      Gen.handle_lease_drain l.created l.ttl now l.max fuel l.used q (sent.map (·.1)) =
        ((drain l now q sent).1.used, (drain l now q sent).2.1, (drain l now q sent).2.2.map (·.1)) := by
  induction q with
  | nil =>
    intro l sent fuel hf
    cases fuel with
    | zero => simp at hf
    | succ f => simp [Gen.handle_lease_drain, drain]
  | cons x rest ih =>
    intro l sent fuel hf
    cases fuel with
    | zero => simp at hf
    | succ f =>
      have hsrc := c14_allow_matches_source l now
      have hcr : (allow l now).2.created = l.created ∧ (allow l now).2.ttl = l.ttl ∧ (allow l now).2.max = l.max := by
        unfold allow; split <;> simp
      simp only [Gen.handle_lease_drain, List.isEmpty_cons, Bool.not_false, if_true, hsrc]
      cases hok : (allow l now).1 with
      | true =>
        have hdr : drain l now (x :: rest) sent = drain (allow l now).2 now rest (sent ++ [(x, now)]) := by
          rw [drain]
          rcases hal : allow l now with ⟨ok, l'⟩
          rw [hal] at hok
          simp only at hok
          subst hok
          rfl
        have := ih (allow l now).2 (sent ++ [(x, now)]) f (by simp at hf; omega)
        rw [hcr.1, hcr.2.1, hcr.2.2] at this
        simp only [if_true, hdr]
        simpa using this
      | false =>
        have hdr : drain l now (x :: rest) sent = ((allow l now).2, x :: rest, sent) := by
          rw [drain]
          rcases hal : allow l now with ⟨ok, l'⟩
          rw [hal] at hok
          simp only at hok
          subst hok
          rfl
        simp [hdr]

/-- **the gate of `send_request` is the model's**: on a socket that honours leases a
request-initiating frame is handed to the sender exactly when `allow` says so, and the lease's
counter moves as in the model (`send_request` / `_is_frame_allowed_to_send` compiled from the source) -/
theorem c14_gate_matches_source (l : LeaseSt) (now : Nat) :
    Gen.send_request true true l.created l.ttl now l.used l.max = ((allow l now).1, (allow l now).2.used) := by
  have h := c14_allow_matches_source l now
  simp only [Gen.send_request, Gen.is_frame_allowed_to_send, if_true, h]
  cases (allow l now).1 <;> rfl

/-- a socket that does not honour leases never holds a frame back and never consults (so never
counts on) the lease — the guard a seeded change once dropped -/
theorem c14_source_no_lease_no_gate (isInitiate : Bool) (created ttl now counter max : Nat) :
    Gen.send_request false isInitiate created ttl now counter max = (true, counter) := by
  simp [Gen.send_request]

/-- frames that do not open a stream are never held and never counted, lease or not -/
theorem c14_source_only_requests_are_gated (honor : Bool) (created ttl now counter max : Nat) :
    Gen.send_request honor false created ttl now counter max = (true, counter) := by
  cases honor <;> simp [Gen.send_request, Gen.is_frame_allowed_to_send]

end RSocketModel.Lease
