import RSocketModel.Props.C14
import RSocketModel.Gen.LeaseFn
/-!
# C14 — the lease test is the source's `DefinedLease._is_request_allowed`

`Lease.allow` (hand-written: an expired lease refuses without counting, otherwise the counter is
incremented first and compared with the grant) is proved equal to the function the translator
compiles from `rsocket/lease.py` on every run (`Gen/LeaseFn.lean`). Every C14 theorem goes through
`allow`, so they are re-checked against the current source of that method.
-/
namespace RSocketModel.Lease

/-- **`allow` is the source's `_is_request_allowed`**, for every lease state and every instant:
same verdict, same new value of the request counter. -/
theorem c14_allow_matches_source (l : LeaseSt) (now : Nat) :
    Gen.is_request_allowed l.created l.ttl now l.used l.max = ((allow l now).1, (allow l now).2.used) := by
  unfold Gen.is_request_allowed allow
  by_cases h : l.created + l.ttl ≤ now
  · simp [h]
  · simp only [h, decide_false, Bool.false_eq_true, if_false]
    by_cases h2 : l.used + 1 ≤ l.max
    · have : ¬ (l.used + 1 > l.max) := by omega
      simp [h2, this]
    · have : l.used + 1 > l.max := by omega
      simp [h2, this]

/-- consequences read off the source's function itself: an expired lease never allows and never
counts; a live one allows exactly while fewer than `max` requests were counted -/
theorem c14_source_expired_refuses (created ttl now counter max : Nat) (h : created + ttl ≤ now) :
    Gen.is_request_allowed created ttl now counter max = (false, counter) := by
  simp [Gen.is_request_allowed, h]

theorem c14_source_live_allows_iff (created ttl now counter max : Nat) (h : now < created + ttl) :
    (Gen.is_request_allowed created ttl now counter max).1 = true ↔ counter < max := by
  have h' : ¬ (created + ttl ≤ now) := by omega
  simp only [Gen.is_request_allowed, h', decide_false, Bool.false_eq_true, if_false]
  by_cases h2 : counter + 1 > max
  · simp [h2]; omega
  · simp [h2]; omega

end RSocketModel.Lease
