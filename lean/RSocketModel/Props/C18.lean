import RSocketModel.Proofs.C18Lemmas
/-!
# C18 — Extension metadata codecs round-trip within format limits

Property theorems only. Tables are the regenerated ones (`Gen/Tables.lean`).
-/
namespace RSocketModel.Composite

/-- **tables map one-to-one.** The enum rows with non-negative ids, the id→name dictionary and the
name→id dictionary are the same table; ids fit 7 bits; both lookups invert each other on every
row (hence ids and names are pairwise distinct). Same for the authentication types. Decided over
the whole regenerated tables. -/
theorem c18_tables_bijective :
    Gen.mimeById = Gen.mimeTable ∧ Gen.mimeByName = Gen.mimeTable ∧ TableOK Gen.mimeTable ∧
    Gen.authById = Gen.authTable ∧ Gen.authByName = Gen.authTable ∧ TableOK Gen.authTable := by
  refine ⟨by decide +kernel, by decide +kernel, by decide +kernel, by decide, by decide, by decide⟩

/-- the sentinel rows are not well-known types: they carry negative ids -/
theorem c18_sentinels_excluded : ∀ p ∈ Gen.mimeSentinels, 0 < p.1 ∧ lookupId Gen.mimeTable p.2 = none := by
  decide +kernel

/-- the special item classes are registered under the names the model uses -/
theorem c18_item_classes :
    Gen.itemFactory = [(nameAccept, "StreamDataMimetypes"), (nameAuth, "AuthenticationContent"),
                       (nameMime, "StreamDataMimetype"), (nameRouting, "RoutingMetadata")] ∧
    Gen.authFactory = [(nameBearer, "AuthenticationBearer"), (nameSimple, "AuthenticationSimple")] ∧
    (lookupId Gen.authTable nameSimple).isSome ∧ (lookupId Gen.authTable nameBearer).isSome := by
  decide +kernel

/-- **MIME type header**: every well-known type and every custom name of 1–128 bytes -/
theorem c18_mime_roundtrip (name e rest : Bytes) (hwf : WFName Gen.mimeTable name)
    (he : encodeMime Gen.mimeTable name = some e) :
    decodeMime Gen.mimeTable (e ++ rest) = .ok (name, rest) :=
  decodeMime_encodeMime _ c18_tables_bijective.2.2.1 name e rest hwf he

/-- a name within limits always encodes -/
theorem c18_mime_encodes (t : Table) (name : Bytes) (hwf : WFName t name) : (encodeMime t name).isSome := by
  unfold encodeMime
  cases h : lookupId t name with
  | some id => simp
  | none =>
    rcases hwf with h' | h'
    · simp [h] at h'
    · have : ¬ (128 < name.length) := by omega
      simp [this]

/-- **over-long MIME names are rejected at encode time** (no bytes produced) -/
theorem c18_overlong_mime_rejected (t : Table) (name : Bytes) (hl : 128 < name.length)
    (hn : lookupId t name = none) : encodeMime t name = none := by
  simp [encodeMime, hn, hl]

/-- **over-long tags are rejected at encode time** -/
theorem c18_overlong_tag_rejected (pre : List Bytes) (tag : Bytes) (post : List Bytes)
    (hl : 255 < tag.length) : encodeTags (pre ++ tag :: post) = none := by
  induction pre with
  | nil => simp [encodeTags, hl]
  | cons p ps ih =>
    simp only [List.cons_append, encodeTags, ih]
    split <;> simp

/-- **tag lists** (routing): every list of tags of at most 255 bytes each encodes and decodes back -/
theorem c18_tags_roundtrip (tags : List Bytes) (h : ∀ t ∈ tags, t.length ≤ 255) :
    ∃ e, encodeTags tags = some e ∧ decodeTags e = tags := by
  have hex : ∃ e, encodeTags tags = some e := by
    induction tags with
    | nil => exact ⟨[], rfl⟩
    | cons t ts ih =>
      obtain ⟨e, he⟩ := ih (fun x hx => h x (by simp [hx]))
      have : ¬ (255 < t.length) := by have := h t (by simp); omega
      exact ⟨UInt8.ofNat t.length :: t ++ e, by simp [encodeTags, this, he]⟩
  obtain ⟨e, he⟩ := hex
  exact ⟨e, he, decodeTags_encodeTags tags e he⟩

/-- **every entry kind** decodes back from its content -/
theorem c18_item_roundtrip (it : Item) (c : Bytes) (hwf : WFItem it)
    (hc : it.content Gen.mimeTable Gen.authTable = some c) :
    decodeItem Gen.mimeTable Gen.authTable it.mime c = .ok it := by
  obtain ⟨d1, d2, d3, d4, d5, d6, d7⟩ := names_distinct
  obtain ⟨_, _, hmt, _, _, hat⟩ := c18_tables_bijective
  cases it with
  | raw m body =>
    obtain ⟨_, h1, h2, h3, h4⟩ := hwf
    simp only [Item.content, Option.some.injEq] at hc
    subst hc
    simp [decodeItem, Item.mime, h1, h2, h3, h4]
  | routing tags =>
    simp only [Item.content] at hc
    simp [decodeItem, Item.mime, decodeTags_encodeTags tags c hc]
  | dataMime m =>
    simp only [Item.content] at hc
    have := decodeMime_encodeMime _ hmt m c [] hwf hc
    simp only [List.append_nil] at this
    simp [decodeItem, Item.mime, d1, this]
  | acceptMimes ms =>
    simp only [Item.content] at hc
    have := decodeMimes_encodeMimes _ hmt ms c hwf hc
    simp [decodeItem, Item.mime, d2, d3, this]
  | authSimple u p =>
    simp only [Item.content] at hc
    cases hh : encodeMime Gen.authTable nameSimple with
    | none => simp [hh] at hc
    | some h =>
      simp only [hh, Option.map_some, Option.some.injEq] at hc
      subst hc
      have hw : WFName Gen.authTable nameSimple := Or.inl c18_item_classes.2.2.1
      have := decodeMime_encodeMime _ hat nameSimple h (beBytes 2 u.length ++ (u ++ p)) hw hh
      simp only [WFItem] at hwf
      simp only [decodeItem, Item.mime, d4, d5, d6, beq_self_eq_true, if_true, List.append_assoc, this, R.bind_ok,
        beq_iff_eq, if_false]
      have t2 : (beBytes 2 u.length ++ (u ++ p)).take 2 = beBytes 2 u.length := by
        have := take_append_len (beBytes 2 u.length) (u ++ p)
        simpa using this
      have d2 : (beBytes 2 u.length ++ (u ++ p)).drop 2 = u ++ p := by
        have := drop_append_len (beBytes 2 u.length) (u ++ p)
        simpa using this
      have hl2 : ¬ ((beBytes 2 u.length ++ (u ++ p)).length < 2) := by
        simp only [List.length_append, beBytes_length]; omega
      simp only [hl2, if_false]
      rw [t2, d2, beVal_beBytes_of_lt 2 _ (by omega), take_append_len, drop_append_len]
  | authBearer tok =>
    simp only [Item.content] at hc
    cases hh : encodeMime Gen.authTable nameBearer with
    | none => simp [hh] at hc
    | some h =>
      simp only [hh, Option.map_some, Option.some.injEq] at hc
      subst hc
      have hw : WFName Gen.authTable nameBearer := Or.inl c18_item_classes.2.2.2
      have := decodeMime_encodeMime _ hat nameBearer h tok hw hh
      simp [decodeItem, Item.mime, d4, d5, d6, d7, this]

/-- **composite metadata**: every list of entries of every kind, within the format's limits
(names 1–128 bytes or well-known, tags ≤ 255 bytes, user name < 2^16, entry content < 2^24
bytes), survives encode then decode unchanged. -/
theorem c18_composite_roundtrip (items : List Item) (e : Bytes)
    (hwf : ∀ it ∈ items, WFItem it ∧ ∀ c, it.content Gen.mimeTable Gen.authTable = some c → c.length < 2 ^ 24)
    (he : encode Gen.mimeTable Gen.authTable items = some e) :
    decode Gen.mimeTable Gen.authTable e = .ok items := by
  induction items generalizing e with
  | nil =>
    simp only [encode, Option.some.injEq] at he
    subst he
    exact decode_nil
  | cons it rest ih =>
    obtain ⟨hit, hlen⟩ := hwf it (by simp)
    simp only [encode] at he
    cases hh : encodeMime Gen.mimeTable it.mime with
    | none => simp [hh] at he
    | some h =>
      cases hc : it.content Gen.mimeTable Gen.authTable with
      | none => simp [hh, hc] at he
      | some c =>
        cases hr : encode Gen.mimeTable Gen.authTable rest with
        | none => simp [hh, hc, hr] at he
        | some r =>
          simp only [hh, hc, hr, Option.bind_eq_bind, Option.bind_some, Option.pure_def, Option.some.injEq] at he
          subst he
          have hpos := encodeMime_length_pos _ _ _ hh
          have hcl := hlen c hc
          rw [decode]
          have h0 : ¬ ((h ++ beBytes 3 c.length ++ c ++ r).length = 0) := by
            simp only [List.length_append]; omega
          simp only [h0, dite_false]
          have hdm := decodeMime_encodeMime _ c18_tables_bijective.2.2.1 it.mime h (beBytes 3 c.length ++ (c ++ r))
            (item_mime_wf it hit) hh
          have hassoc : h ++ beBytes 3 c.length ++ c ++ r = h ++ (beBytes 3 c.length ++ (c ++ r)) := by
            simp only [List.append_assoc]
          rw [hassoc, hdm]
          simp only
          have h3 : ¬ ((beBytes 3 c.length ++ (c ++ r)).length < 3) := by
            simp only [List.length_append, beBytes_length]; omega
          simp only [h3, dite_false]
          have t3 : (beBytes 3 c.length ++ (c ++ r)).take 3 = beBytes 3 c.length := by
            have := take_append_len (beBytes 3 c.length) (c ++ r)
            simpa using this
          have d3 : (beBytes 3 c.length ++ (c ++ r)).drop 3 = c ++ r := by
            have := drop_append_len (beBytes 3 c.length) (c ++ r)
            simpa using this
          simp only [t3, d3, beVal_beBytes_of_lt 3 c.length (by omega), take_append_len, drop_append_len]
          have hl : r.length < (h ++ (beBytes 3 c.length ++ (c ++ r))).length := by
            simp only [List.length_append]; omega
          simp only [hl, dite_true]
          rw [c18_item_roundtrip it c hit hc]
          simp only [R.bind_ok]
          rw [ih r (fun x hx => hwf x (by simp [hx])) hr]
          simp

/-- decode then encode reproduces the bytes (for every encoding of an in-range value) -/
theorem c18_reencode (items : List Item) (e : Bytes)
    (hwf : ∀ it ∈ items, WFItem it ∧ ∀ c, it.content Gen.mimeTable Gen.authTable = some c → c.length < 2 ^ 24)
    (he : encode Gen.mimeTable Gen.authTable items = some e) :
    ∃ items', decode Gen.mimeTable Gen.authTable e = .ok items' ∧
      encode Gen.mimeTable Gen.authTable items' = some e :=
  ⟨items, c18_composite_roundtrip items e hwf he, he⟩

/-- non-vacuity: a composite with every entry kind is within limits -/
example : ∀ it ∈ [Item.routing [[1, 2], []], .dataMime Gen.nameComposite, .acceptMimes [[120], Gen.nameRouting],
    .authSimple [117] [112], .authBearer [116], .raw [120, 47, 121] [1, 2, 3]], WFItem it := by
  decide +kernel

end RSocketModel.Composite
