import RSocketModel.Props.C09
import RSocketModel.Engine.WireLegal
import RSocketModel.Props.C05
import RSocketModel.Proofs.CreditTerminal
/-!
# C08 — Frames emitted are legal RSocket for the emitter's role  (**partial**)

The full statement — *after it has emitted ERROR or a requester's CANCEL … it emits nothing
further on that stream* — is **false of the code** for request-channel (half-close: only one
direction is closed; `c08_half_close_counterexample` is the model-level witness, replayed against
the implementation by the C08 check and recorded as known finding F16), and for lease-gated
requests (F10, outside the engine model). What is proved here, for every reachable state and every
event, are the other clauses:

* `c08_opens_with_request_own_parity` — a stream the endpoint opens gets a fresh, non-zero id of
  its own parity and its first frame is the request frame;
* `c08_positive_initial_request_n` — every REQUEST_STREAM / REQUEST_CHANNEL it emits carries n > 0;
* `c08_types_per_role_api`, `c08_types_on_receive`, `c08_no_frames_on_loss` — which frame types
  each role emits, and on which stream;
* `c08_connection_frames_on_stream_zero`;
* `c08_unregistered_stream_silent_partial` — frames for a stream that is no longer registered
  (after a terminal exchange) trigger no emission;
* `c08_own_terminal_unregisters`, `c08_nothing_after_own_terminal_from_peer` — for request-response
  and request-stream in both roles the termination clause holds as far as the library decides it:
  queueing its own terminal frame unregisters the stream, and nothing the peer sends afterwards makes
  the endpoint emit on it again (only the application calling the finished object again could).
SETUP-first-and-once is C16's theorem on the client model.
-/
namespace RSocketModel.Engine

/-! ### opening a stream -/

/-- the request methods: the only frame queued is the request frame, on a fresh non-zero stream
id of the endpoint's own parity (or nothing is queued and the caller gets an exception) -/
theorem c08_opens_with_request_own_parity (st : State) (h : Inv08 st) (hc : st.closed = false) (ev : Ev)
    (hev : (∃ d, ev = .requestResponse d) ∨ (∃ d, ev = .fireAndForget d) ∨ (∃ d n s, ev = .requestStream d n s) ∨
      (∃ d n p s, ev = .requestChannel d n p s)) :
    ∀ g, Out.send g ∈ (step st ev).2 →
      isInitiate g.ty = true ∧ g.sid ≠ 0 ∧ g.sid % 2 = st.first % 2 ∧ st.isActive g.sid = false ∧
      (step st ev).2.filter (fun o => match o with | .send _ => true | _ => false) = [.send g] := by
  intro g hg
  have hg := mem_emit _ _ _ hg
  have key : ∀ sid st1, allocate st = (some sid, st1) → g.sid = sid → g.sid ≠ 0 ∧ g.sid % 2 = st.first % 2 ∧ st.isActive g.sid = false := by
    intro sid st1 ha e
    obtain ⟨a, b, c, _⟩ := allocate_sound st h sid st1 ha
    rw [e]; exact ⟨a, b, c⟩
  rcases hev with ⟨d, rfl⟩ | ⟨d, rfl⟩ | ⟨d, n, s, rfl⟩ | ⟨d, n, p, s, rfl⟩
  · simp only [apiStep] at hg
    simp only [step, apiStep, State.emit, hc]
    rcases hal : allocate st with ⟨o, st1⟩
    rw [hal] at hg
    cases o with
    | none => simp at hg
    | some sid =>
      simp only [List.mem_cons, reduceCtorEq, Out.send.injEq, List.mem_nil_iff, or_false, false_or] at hg
      subst hg
      refine ⟨rfl, (key sid st1 hal rfl).1, (key sid st1 hal rfl).2.1, (key sid st1 hal rfl).2.2, ?_⟩
      simp [List.filter]
  · simp only [apiStep] at hg
    simp only [step, apiStep, State.emit, hc]
    rcases hal : allocate st with ⟨o, st1⟩
    rw [hal] at hg
    cases o with
    | none => simp at hg
    | some sid =>
      simp only [List.mem_cons, Out.send.injEq, List.mem_nil_iff, or_false] at hg
      subst hg
      refine ⟨rfl, (key sid st1 hal rfl).1, (key sid st1 hal rfl).2.1, (key sid st1 hal rfl).2.2, ?_⟩
      simp [List.filter]
  · simp only [apiStep] at hg
    simp only [step, apiStep, State.emit, hc]
    rcases hal : allocate st with ⟨o, st1⟩
    rw [hal] at hg
    cases o with
    | none => simp at hg
    | some sid =>
      simp only at hg ⊢
      split at hg
      · simp at hg
      · split at hg
        · simp only [List.mem_cons, reduceCtorEq, Out.send.injEq, List.mem_nil_iff, or_false, false_or] at hg
          subst hg
          refine ⟨rfl, (key sid st1 hal rfl).1, (key sid st1 hal rfl).2.1, (key sid st1 hal rfl).2.2, ?_⟩
          simp_all [List.filter]
        · simp at hg
  · simp only [apiStep] at hg
    simp only [step, apiStep, State.emit, hc]
    rcases hal : allocate st with ⟨o, st1⟩
    rw [hal] at hg
    cases o with
    | none => simp at hg
    | some sid =>
      simp only at hg ⊢
      split at hg
      · simp at hg
      · split at hg
        · have hgs : g = { ty := .requestChannel, sid := sid, n := n, data := d, complete := !p } := by
            cases p <;> simp at hg <;> exact hg
          subst hgs
          refine ⟨rfl, (key sid st1 hal rfl).1, (key sid st1 hal rfl).2.1, (key sid st1 hal rfl).2.2, ?_⟩
          cases p <;> simp_all [List.filter]
        · simp at hg

/-- **stream and channel requests carry a positive initial request-n** — every such frame ever
queued, over every run from the initial state of either role -/
theorem c08_positive_initial_request_n (first : Nat) (hf : 1 ≤ first) (lp : Bool) (evs : List Ev) (ev : Ev) (g : Frame)
    (hg : Out.send g ∈ (step (run (init first lp) evs).1 ev).2) (hty : g.ty = .requestStream ∨ g.ty = .requestChannel) :
    0 < g.n := by
  have := (step_preds _ (wf_run evs _ (wf_init first lp)) (inv08_run evs _ (inv08_init first hf lp)) ev _ hg).1
  simp only [Out.sendAll, pN] at this
  rcases hty with h | h <;> simpa [h] using this

/-- **connection-level frames use stream 0 only** -/
theorem c08_connection_frames_on_stream_zero (first : Nat) (hf : 1 ≤ first) (lp : Bool) (evs : List Ev) (ev : Ev) (g : Frame)
    (hg : Out.send g ∈ (step (run (init first lp) evs).1 ev).2) (hty : isConnectionLevel g.ty = true) : g.sid = 0 := by
  have := (step_preds _ (wf_run evs _ (wf_init first lp)) (inv08_run evs _ (inv08_init first hf lp)) ev _ hg).2
  simpa [Out.sendAll, pZero, hty] using this

/-- while a received frame is processed the endpoint queues only ERROR, a KEEPALIVE echo, or the
empty complete PAYLOAD with which a channel responder without a publisher closes its direction —
and (C12 `c12_sends_local`) only on that frame's stream -/
theorem c08_types_on_receive (st : State) (hw : WF st) (f : Frame) (b : Behaviour) (g : Frame)
    (hg : Out.send g ∈ (step st (.recv f b)).2) :
    (g.ty = .error ∨ g.ty = .keepalive ∨ g = mkPayload g.sid [] true) ∧ g.sid = f.sid := by
  refine ⟨?_, c12_sends_local st hw f b g hg⟩
  have := (recvStep_preds st hw f b _ (mem_emit _ _ _ hg)).2.2
  simpa [Out.sendAll, pRecvTypes, or_assoc] using this

/-- connection loss and `stop_all_streams` queue no frame at all -/
theorem c08_no_frames_on_loss (st : State) (g : Frame) :
    Out.send g ∉ (step st .lost).2 ∧ Out.send g ∉ (step st .stopStreams).2 := by
  constructor
  · intro hg
    have hg := mem_emit _ _ _ hg
    simp only [lostStep] at hg
    split at hg
    · simp at hg
    · simp only [List.mem_append, List.mem_singleton] at hg
      rcases hg with hg | hg
      · exact stopAll_targets st.table st _ hg rfl
      · cases hg
  · intro hg
    exact stopAll_targets st.table st _ (mem_emit _ _ _ hg) rfl

/-- the frame types each role may emit after the request frame -/
def allowed : Kind → FType → Bool
  | .rrReq, t => t == .cancel
  | .stReq, t => t == .requestStream || t == .requestN || t == .cancel
  | .chReq, t => t == .requestChannel || t == .payload || t == .requestN || t == .cancel || t == .error
  | .rrResp, t => t == .payload || t == .error
  | .stResp, t => t == .payload || t == .error
  | .chResp, t => t == .payload || t == .requestN || t == .cancel || t == .error

/-- **per-role frame types**: whatever the application does with a handler object (subscribe,
request, cancel, publisher signals, future resolutions, done-callbacks), the frames queued are on
that object's stream and of a type its role allows -/
theorem c08_types_per_role_api (st : State) (ev : Ev) (oid : Nat) (s : Stream) (ho : st.obj oid = some s)
    (hev : ev = .subscribe oid ∨ (∃ n, ev = .subRequest oid n) ∨ ev = .subCancel oid ∨ ev = .futCancel oid ∨
      (∃ d c, ev = .pubNext oid d c) ∨ ev = .pubComplete oid ∨ ev = .pubError oid ∨ (∃ d, ev = .hfResolve oid d) ∨
      ev = .hfFail oid ∨ ev = .cbRRReq oid ∨ ev = .cbRRResp oid) :
    ∀ g, Out.send g ∈ (step st ev).2 → g.sid = s.sid ∧ allowed s.kind g.ty = true := by
  intro g hg
  have hg := mem_emit _ _ _ hg
  rcases hev with rfl | ⟨n, rfl⟩ | rfl | rfl | ⟨d, c, rfl⟩ | rfl | rfl | ⟨d, rfl⟩ | rfl | rfl | rfl <;>
    simp only [apiStep, ho] at hg <;> (repeat' split at hg) <;>
    simp_all [allowed, mkRequestN, mkCancel, mkPayload, mkError]
  all_goals (try (rcases hg with hg | hg <;> simp_all [allowed]))

/-! ### after termination -/

/-- (partial) a frame for a stream that is not (or no longer) registered triggers no emission:
REQUEST_N, CANCEL, ERROR and unfragmented PAYLOAD for an unknown stream are dropped -/
theorem c08_unregistered_stream_silent_partial (st : State) (hc : st.closed = false) (f : Frame) (b : Behaviour)
    (h0 : f.sid ≠ 0) (hna : st.oidOf f.sid = none)
    (hty : f.ty = .requestN ∨ f.ty = .cancel ∨ f.ty = .error ∨
      (f.ty = .payload ∧ f.follows = false ∧ st.cache.find? (·.1 == f.sid) = none)) :
    (step st (.recv f b)).2 = [.drop f.sid] := by
  rcases hty with h | h | h | ⟨h, hf, hcache⟩
  · simp [step, recvStep, hc, isFragmentable, h, h0, isInitiate, hna, State.emit]
  · simp [step, recvStep, hc, isFragmentable, h, h0, isInitiate, hna, State.emit]
  · simp [step, recvStep, hc, isFragmentable, h, h0, isInitiate, hna, State.emit]
  · simp [step, recvStep, hc, isFragmentable, h, h0, isInitiate, hna, State.emit, cacheAppend, hf, hcache]

/-- **own terminal frame ⇒ the stream is closed locally** (request-response and request-stream,
both roles): when a handler object queues its terminal frame — a requester's CANCEL, a responder's
ERROR or complete PAYLOAD — its stream id is no longer registered afterwards -/
theorem c08_own_terminal_unregisters (st : State) (ev : Ev) (oid : Nat) (s : Stream) (ho : st.obj oid = some s)
    (hk : s.kind = .rrReq ∨ s.kind = .stReq ∨ s.kind = .rrResp ∨ s.kind = .stResp)
    (hev : ev = .subCancel oid ∨ ev = .cbRRReq oid ∨ (∃ d c, ev = .pubNext oid d c) ∨ ev = .pubComplete oid ∨ ev = .pubError oid ∨
      ev = .cbRRResp oid)
    (g : Frame) (hg : Out.send g ∈ (step st ev).2)
    (hterm : g.ty = .cancel ∨ g.ty = .error ∨ (g.ty = .payload ∧ g.complete = true)) :
    (step st ev).1.isActive s.sid = false := by
  have hg := mem_emit _ _ _ hg
  rcases hev with rfl | rfl | ⟨d, c, rfl⟩ | rfl | rfl | rfl <;>
    simp only [step, apiStep, ho] at hg ⊢ <;>
    rcases hk with hk | hk | hk | hk <;> simp only [hk] at hg ⊢ <;> (repeat' split at hg) <;>
    simp_all [isActive_finish, mkCancel, mkPayload, mkError]

/-- … so nothing the peer sends on that stream afterwards makes the endpoint emit again
(REQUEST_N, CANCEL, ERROR, whole PAYLOAD frames are dropped): after its own terminal frame the
endpoint emits on that stream only if the application itself calls the finished object again -/
theorem c08_nothing_after_own_terminal_from_peer (st : State) (hc : st.closed = false) (ev : Ev) (oid : Nat) (s : Stream)
    (ho : st.obj oid = some s) (hk : s.kind = .rrReq ∨ s.kind = .stReq ∨ s.kind = .rrResp ∨ s.kind = .stResp)
    (hev : ev = .subCancel oid ∨ ev = .cbRRReq oid ∨ (∃ d c, ev = .pubNext oid d c) ∨ ev = .pubComplete oid ∨ ev = .pubError oid ∨
      ev = .cbRRResp oid)
    (g : Frame) (hg : Out.send g ∈ (step st ev).2)
    (hterm : g.ty = .cancel ∨ g.ty = .error ∨ (g.ty = .payload ∧ g.complete = true))
    (f : Frame) (b : Behaviour) (hsid : f.sid = s.sid) (h0 : f.sid ≠ 0)
    (hty : f.ty = .requestN ∨ f.ty = .cancel ∨ f.ty = .error ∨
      (f.ty = .payload ∧ f.follows = false ∧ (step st ev).1.cache.find? (·.1 == f.sid) = none)) :
    (step (step st ev).1 (.recv f b)).2 = [.drop f.sid] := by
  have hact := c08_own_terminal_unregisters st ev oid s ho hk hev g hg hterm
  have hcl : (step st ev).1.closed = false := by
    rcases hev with rfl | rfl | ⟨d, c, rfl⟩ | rfl | rfl | rfl <;>
      simp only [step, apiStep, ho] <;> (repeat' split) <;> simp_all
  have hna : (step st ev).1.oidOf f.sid = none := by
    rw [hsid]
    simp only [State.isActive, List.any_eq_false] at hact
    simp only [State.oidOf, Option.map_eq_none_iff, List.find?_eq_none]
    exact fun p hp => by simpa using hact p hp
  exact c08_unregistered_stream_silent_partial _ hcl f b h0 hna hty

/-- **the full termination clause is false for request-channel** (known finding F16): a channel
requester whose publisher fails emits ERROR, and a later `request(n)` of its subscriber still
emits REQUEST_N on the same stream -/
theorem c08_half_close_counterexample :
    (run (init 1) [.requestChannel [1] 3 true true, .pubError 0, .subRequest 0 5]).2 =
      [[.created 0 1, .pubSubscribe 0, .send { ty := .requestChannel, sid := 1, n := 3, data := [1] }, .onSubscribe 0],
       [.send (mkError 1 cApplicationError)],
       [.send (mkRequestN 1 5)]] := by decide +kernel

/-! ### the request frame precedes on_subscribe (defect F18, repaired by 315146e) -/

/-- whichever requester entry point hands the application its subscription (`on_subscribe`) has,
in the same entry point and immediately before, queued the request frame of that stream: whatever
the subscriber does inside `on_subscribe` (request(n), cancel) is queued after the frame that opens
the stream (before the repair REQUEST_N / CANCEL could overtake it: F18). -/
theorem c08_request_frame_precedes_on_subscribe (st : State) (hc : st.closed = false) (ev : Ev)
    (hev : (∃ d n, ev = .requestStream d n true) ∨ (∃ d n p, ev = .requestChannel d n p true) ∨ (∃ o, ev = .subscribe o))
    (oid : Nat) (h : Out.onSubscribe oid ∈ (step st ev).2) :
    ∃ a g, isInitiate g.ty = true ∧ (step st ev).2 = a ++ [.send g, .onSubscribe oid] := by
  rcases hev with ⟨d, n, rfl⟩ | ⟨d, n, p, rfl⟩ | ⟨o, rfl⟩
  · have hs : (step st (.requestStream d n true)).2 = (apiStep st (.requestStream d n true)).2 := by simp [step, State.emit, hc]
    rw [hs] at h ⊢
    simp only [apiStep] at h ⊢
    generalize allocate st = r at h ⊢
    rcases r with ⟨_ | sid, st1⟩ <;> simp only at h ⊢
    · simp at h
    · by_cases hn : n = 0
      · simp [hn] at h
      · simp only [hn, if_false, if_true] at h ⊢
        simp only [List.mem_cons, reduceCtorEq, Out.onSubscribe.injEq, List.mem_nil_iff, or_false, false_or] at h
        subst h
        exact ⟨[.created _ sid], _, rfl, rfl⟩
  · have hs : (step st (.requestChannel d n p true)).2 = (apiStep st (.requestChannel d n p true)).2 := by simp [step, State.emit, hc]
    rw [hs] at h ⊢
    simp only [apiStep] at h ⊢
    generalize allocate st = r at h ⊢
    rcases r with ⟨_ | sid, st1⟩ <;> simp only at h ⊢
    · simp at h
    · by_cases hn : n = 0
      · simp [hn] at h
      · simp only [hn, if_false, if_true] at h ⊢
        cases p <;> simp at h <;> subst h
        · refine ⟨[_], _, ?_, rfl⟩; rfl
        · refine ⟨[_, _], _, ?_, rfl⟩; rfl
  · have hs : (step st (.subscribe o)).2 = (apiStep st (.subscribe o)).2 := by simp [step, State.emit, hc]
    rw [hs] at h ⊢
    simp only [apiStep] at h ⊢
    split at h
    · rename_i s hso
      split at h
      · simp at h
      · rename_i hsub
        cases hk : s.kind <;> simp only [hk] at h ⊢
        all_goals try (simp at h; done)
        · simp at h; subst h
          rw [if_neg hsub]
          refine ⟨[], _, ?_, rfl⟩; rfl
        · cases hp : s.pubGiven <;> simp [hp] at h <;> subst h
          · rw [if_neg hsub]; simp only
            refine ⟨[], _, ?_, rfl⟩; rfl
          · rw [if_neg hsub]; simp only
            refine ⟨[_], _, ?_, rfl⟩; rfl
    · simp at h

example : (step (init 1) (.requestStream [1] 2 true)).2 =
    [.created 0 1] ++ [.send { ty := .requestStream, sid := 1, n := 2, data := [1] }, .onSubscribe 0] := by decide +kernel

/-! ### from queueing order to wire order -/

/-- every per-stream fact above is about the order in which the engine *queues* frames
(`Out.send`). The sender task (C05, instantiated with the engine's frames cut into any number ≥ 1
of fragments) puts the fragments of one stream on the wire in exactly that order, each frame's
fragments contiguous within the stream — so the same facts hold of the wire, stream by stream. -/
theorem c08_wire_order_is_queue_order (evs : List (SendQueue.Ev (Frame × Nat))) (h : SendQueue.Legal SendQueue.init evs)
    (hq : (SendQueue.run SendQueue.init evs).queue = []) (sid : Nat) :
    SendQueue.wireOf sid (SendQueue.run SendQueue.init evs).wire = SendQueue.queuedFor sid evs :=
  SendQueue.c05_drained_exact evs h hq sid

end RSocketModel.Engine

/-! ### the library's own stream sources behind a responder (`Credit.lean`) -/
namespace RSocketModel.Credit

variable {α : Type}

/-- **Nothing after the terminal signal, at the source.** For every source (any elements, flagging
its last element complete or not, failing or not) and every interleaving of credit, producer,
feeder and cancel events: once the subscriber (the endpoint's sender of PAYLOAD / COMPLETE / ERROR
frames) has been given a terminal signal, no later event gives it anything more - no element and no
second terminal signal (in particular no ERROR after an element that was flagged complete). -/
theorem c08_source_nothing_after_terminal (src : List α) (f e : Bool) (evs evs' : List Ev)
    (ht : (run (init src f e) evs).terminal ≠ none) :
    (run (init src f e) (evs ++ evs')).emitted = (run (init src f e) evs).emitted ∧
    (run (init src f e) (evs ++ evs')).terminal = (run (init src f e) evs).terminal := by
  have hrun : run (init src f e) (evs ++ evs') = run (run (init src f e) evs) evs' := by
    simp [run, List.foldl_append]
  rw [hrun]
  exact run_after_terminal _ (tinv_run (init src f e) evs (tinv_init src f e)) ht evs'

/-- the producer stops with the item that ends the stream: a source that flags its last element
pulls nothing further from the generator (so a generator that would raise there is never resumed) -/
theorem c08_source_stops_at_flagged_element (s : State α) (hinv : TInv s) (x : α) (hs : s.src = [x]) (hf : s.flagged = true)
    (hc : s.cancelled = false) (hd : s.producerDone = false) (hcur : s.cur ≠ 0) (evs : List Ev) :
    (run (step s .produce) evs).src = [] ∧ (run (step s .produce) evs).producerDone = true ∧
    ∀ i ∈ (run (step s .produce) evs).outQ, i ≠ .error := by
  have h0 : (step s .produce).producerDone = true ∧ (step s .produce).src = [] ∧
      (∀ i ∈ (step s .produce).outQ, i ∈ s.outQ ∨ i = .elem x true) := by
    simp [step, hc, hd, hcur, hs, hf]
  obtain ⟨g1, g2, g3⟩ := run_done (step s .produce) h0.1 evs
  refine ⟨g2.trans h0.2.1, g1, fun i hi => ?_⟩
  rcases h0.2.2 i (g3 i hi) with h | h
  · intro he
    have := (hinv.1 hd).1 i h
    rw [he] at this
    simp [Item.isTerminal] at this
  · rw [h]; simp

/-- Non-vacuity: a two-element source that flags its last element and would fail afterwards: the failure is never produced. -/
example : (run (init [1, 2] true true) [.request 5, .produce, .produce, .feed, .produce, .feed, .produce, .feed, .produce]).terminal = some true
    ∧ (run (init [1, 2] true true) [.request 5, .produce, .produce, .feed, .produce, .feed, .produce, .feed, .produce]).emitted = [1, 2]
    ∧ (run (init [1, 2] true true) [.request 5, .produce, .produce, .feed, .produce, .feed, .produce, .feed, .produce]).outQ = [] := by decide

end RSocketModel.Credit
