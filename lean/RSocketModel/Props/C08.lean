import RSocketModel.Engine.Step
/-! # C08 — placeholder until the proofs land -/
namespace RSocketModel.Engine
theorem c08_placeholder : (init 1).closed = false := rfl
end RSocketModel.Engine
