import RSocketModel.Props.C15
import RSocketModel.Gen.KeepAliveFn
/-!
# C15 — the echo is the source's `handle_keep_alive`

`KeepAlive.echo` is proved equal to `RSocketBase.handle_keep_alive` as compiled from
`rsocket/rsocket_base.py` on every run (`Gen/KeepAliveFn.lean`): a KEEPALIVE with RESPOND is answered
with exactly one KEEPALIVE carrying the same data and RESPOND cleared, one without is not answered,
and in both cases the time of the last keepalive is refreshed.
-/
namespace RSocketModel.KeepAlive

theorem c15_echo_matches_source (respond : Bool) (data : List Nat) :
    Gen.handle_keep_alive respond data = (true, echo respond data) := by
  cases respond <;> rfl

/-- read off the compiled function: the answer never asks for an answer (no echo loops), and the
data comes back unchanged -/
theorem c15_source_echo_cleared (respond : Bool) (data : List Nat) :
    ∀ r ∈ (Gen.handle_keep_alive respond data).2, r = (false, data) := by
  cases respond <;> simp [Gen.handle_keep_alive]

end RSocketModel.KeepAlive
