import RSocketModel.Props.C15
import RSocketModel.Gen.KeepAliveFn
import RSocketModel.Gen.KeepAliveTasksFn
/-!
# C15 — the echo is the source's `handle_keep_alive`

`KeepAlive.echo` is proved equal to `RSocketBase.handle_keep_alive` as compiled from
`rsocket/rsocket_base.py` on every run (`Gen/KeepAliveFn.lean`): a KEEPALIVE with RESPOND is answered
with exactly one KEEPALIVE carrying the same data and RESPOND cleared, one without is not answered,
and in both cases the time of the last keepalive is refreshed.
-/
namespace RSocketModel.KeepAlive

theorem c15_echo_matches_source (respond : Bool) (data : List Nat) :
    Gen.handle_keep_alive respond data = (true, echo respond data) := by
  cases respond <;> rfl

/-- read off the compiled function: the answer never asks for an answer (no echo loops), and the
data comes back unchanged -/
theorem c15_source_echo_cleared (respond : Bool) (data : List Nat) :
    ∀ r ∈ (Gen.handle_keep_alive respond data).2, r = (false, data) := by
  cases respond <;> simp [Gen.handle_keep_alive]

/-- **the watchdog's test is the source's**: at every check instant the model's `fires` is the
comparison `_keepalive_timeout_task` makes (`now - last_server_keepalive > max_lifetime`, strict),
compiled from `rsocket/rsocket_client.py` on every run -/
theorem c15_check_matches_source (r0 L T : Nat) (arrivals : List Nat) :
    Gen.keepalive_check T (lastBefore r0 arrivals T) L = fires r0 L arrivals T := by
  simp only [Gen.keepalive_check, fires, gt_iff_lt]

/-- the sender loop sleeps for the keep-alive period and the watchdog for the maximum lifetime (not
the other way round), and a firing check clears the alive flag and calls the application -/
theorem c15_loop_periods :
    Gen.keepaliveSendSleeps = "_keep_alive_period" ∧ Gen.keepaliveCheckSleeps = "_max_lifetime_period" ∧
    Gen.keepaliveFireClearsAlive = true ∧ Gen.keepaliveFireCallsHandler = true := by decide

/-- read off the compiled test: exactly at `last + L` the watchdog does not fire yet (strictness) -/
theorem c15_source_strict (last L : Nat) :
    Gen.keepalive_check (last + L) last L = false ∧ Gen.keepalive_check (last + L + 1) last L = true := by
  simp only [Gen.keepalive_check, gt_iff_lt, decide_eq_false_iff_not, decide_eq_true_eq]
  omega

end RSocketModel.KeepAlive
