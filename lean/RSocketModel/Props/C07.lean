import RSocketModel.Engine.Grammar
import RSocketModel.Props.C11
/-!
# C07 — Every interaction terminates at most once at the API

Engine model (`Engine/Step.lean`), every event sequence (local API calls, application publisher /
future signals, received frames of any kind — legal or not —, done-callbacks in any order,
connection loss at any point, `stop_all_streams`), every application object.

`monitor oid` (in `Engine/Grammar.lean`) is the grammar of the statement as an automaton over the
outputs addressed to object `oid`:

    idle --on_subscribe--> active --on_next(not complete)*--> active
    active --on_next(complete) | on_complete | on_error--> done
    idle --future result | future error--> done            (request-response awaitable)
    anything else addressed to the object as a signal: violation (`none`)

`c07_grammar` is the full statement; the theorems after it restate its consequences without the
automaton.
-/
namespace RSocketModel.Engine

/-- **the signals every application object receives follow the grammar**, over any run from the
initial state of either role -/
theorem c07_grammar (first : Nat) (lp : Bool) (evs : List Ev) (oid : Nat) :
    ∃ p, monitor oid .idle (run (init first lp) evs).2.flatten = some p := by
  obtain ⟨p, hp, _⟩ := run_good evs (init first lp) (wf_init first lp) oid .idle (by
    intro s hs; simp [State.obj, init] at hs)
  exact ⟨p, hp⟩

/-- … and from any well-formed state in which the object has reached phase `p` -/
theorem c07_grammar_from (st : State) (h : WF st) (evs : List Ev) (oid : Nat) (p : Phase) (hr : Rel p st oid) :
    ∃ p', monitor oid p (run st evs).2.flatten = some p' :=
  let ⟨p', hp', _⟩ := run_good evs st h oid p hr; ⟨p', hp'⟩

/-! ### what acceptance by the monitor means, without the automaton -/

/-- **nothing after the terminal signal**: once an object has received a completion, an error, an
element flagged complete or a future resolution, no later output of the run is a signal (or a
second `on_subscribe`) for that object -/
theorem c07_nothing_after_terminal (first : Nat) (lp : Bool) (evs : List Ev) (oid : Nat) (a b : List Out) (x : Out)
    (hsplit : (run (init first lp) evs).2.flatten = a ++ x :: b) (ht : x.target = some oid) (hterm : x.isTerminal = true) :
    ∀ y ∈ b, y.target = some oid → y.isSignal = false ∧ y ≠ .onSubscribe oid := by
  obtain ⟨q, hq⟩ := c07_grammar first lp evs oid
  rw [hsplit] at hq
  obtain ⟨p1, p2, _, h2, h3⟩ := monitor_split oid a x b .idle q hq ht
  obtain ⟨rfl, _⟩ := feed_terminal p1 p2 x hterm h2
  exact monitor_done oid b q h3

/-- **`on_subscribe` first**: every element, completion or error a subscriber receives is
preceded by that subscriber's `on_subscribe` -/
theorem c07_on_subscribe_first (first : Nat) (lp : Bool) (evs : List Ev) (oid : Nat) (a b : List Out) (x : Out)
    (hsplit : (run (init first lp) evs).2.flatten = a ++ x :: b)
    (hx : (∃ d c, x = .onNext oid d c) ∨ x = .onComplete oid ∨ ∃ c, x = .onError oid c) :
    .onSubscribe oid ∈ a := by
  obtain ⟨q, hq⟩ := c07_grammar first lp evs oid
  rw [hsplit] at hq
  have ht : x.target = some oid := by
    rcases hx with ⟨d, c, rfl⟩ | rfl | ⟨c, rfl⟩ <;> rfl
  obtain ⟨p1, p2, h1, h2, _⟩ := monitor_split oid a x b .idle q hq ht
  have : p1 = .active := by
    rcases hx with ⟨d, c, rfl⟩ | rfl | ⟨c, rfl⟩ <;> simp only [Phase.feed] at h2 <;> split at h2 <;> simp_all
  subst this
  exact monitor_active oid a .idle (by simp) h1

/-- **`on_subscribe` once** -/
theorem c07_on_subscribe_once (first : Nat) (lp : Bool) (evs : List Ev) (oid : Nat) (a b : List Out)
    (hsplit : (run (init first lp) evs).2.flatten = a ++ .onSubscribe oid :: b) :
    .onSubscribe oid ∉ a ∧ .onSubscribe oid ∉ b := by
  obtain ⟨q, hq⟩ := c07_grammar first lp evs oid
  rw [hsplit] at hq
  obtain ⟨p1, p2, h1, h2, h3⟩ := monitor_split oid a (.onSubscribe oid) b .idle q hq rfl
  have hp1 : p1 = .idle ∧ p2 = .active := by
    simp only [Phase.feed] at h2; split at h2 <;> simp_all
  obtain ⟨rfl, rfl⟩ := hp1
  constructor
  · intro hin
    obtain ⟨a1, a2, rfl⟩ := List.append_of_mem hin
    obtain ⟨q1, q2, _, g2, g3⟩ := monitor_split oid a1 (.onSubscribe oid) a2 .idle .idle h1 rfl
    have : q2 = .active := by simp only [Phase.feed] at g2; split at g2 <;> simp_all
    subst this
    exact monitor_not_idle oid a2 .active (by simp) g3
  · intro hin
    obtain ⟨b1, b2, rfl⟩ := List.append_of_mem hin
    obtain ⟨q1, q2, g1, g2, _⟩ := monitor_split oid b1 (.onSubscribe oid) b2 .active q h3 rfl
    have : q1 = .idle := by simp only [Phase.feed] at g2; split at g2 <;> simp_all
    subst this
    exact monitor_not_idle oid b1 .active (by simp) g1

/-- **at most one terminal signal**: a request-response awaitable is resolved by the library at
most once; a subscriber receives at most one of completion / error / element flagged complete -/
theorem c07_at_most_one_terminal (first : Nat) (lp : Bool) (evs : List Ev) (oid : Nat) (a b : List Out) (x : Out)
    (hsplit : (run (init first lp) evs).2.flatten = a ++ x :: b) (ht : x.target = some oid) (hterm : x.isTerminal = true) :
    (∀ y ∈ a, y.target = some oid → y.isTerminal = false) ∧ (∀ y ∈ b, y.target = some oid → y.isTerminal = false) := by
  have hsig : ∀ y : Out, y.isSignal = false → y.isTerminal = false := by
    intro y; cases y <;> simp [Out.isSignal, Out.isTerminal]
  constructor
  · intro y hy hty
    obtain ⟨a1, a2, rfl⟩ := List.append_of_mem hy
    cases hyt : y.isTerminal with
    | false => rfl
    | true =>
      have := c07_nothing_after_terminal first lp evs oid a1 (a2 ++ x :: b) y (by rw [hsplit]; simp) hty hyt x (by simp) ht
      have := hsig x this.1
      rw [hterm] at this; cases this
  · intro y hy hty
    exact hsig y (c07_nothing_after_terminal first lp evs oid a b x hsplit ht hterm y hy hty).1

/-- **a cancelled awaitable stays cancelled**: after the caller cancels a pending request-response
(a resolution by cancellation), no result or error is ever set on it -/
theorem c07_cancelled_future_not_resolved (st : State) (h : WF st) (oid : Nat) (s : Stream) (ho : st.obj oid = some s)
    (hk : s.kind = .rrReq) (hf : s.fut = .pending) (evs : List Ev) :
    ∀ y ∈ (run (step st (.futCancel oid)).1 evs).2.flatten, y.target = some oid → y.isSignal = false := by
  have hs : Silent (step st (.futCancel oid)).1 oid := by
    simp only [step, apiStep, ho, hk, hf]
    exact silent_rr _ oid _ (obj_setObj_self st oid s _ ho) rfl (by simp)
  have hw := wf_step st h (.futCancel oid)
  generalize (step st (.futCancel oid)).1 = st1 at hs hw
  induction evs generalizing st1 with
  | nil => intro y hy; simp [run] at hy
  | cons ev es ih =>
    intro y hy ht
    simp only [run, List.flatten_cons, List.mem_append] at hy
    rcases hy with hy | hy
    · exact silent_no_signal st1 hw oid hs ev y hy ht
    · exact ih _ (silent_persists st1 _ (ext_step st1 ev) oid hs) (wf_step st1 hw ev) y hy ht

/-- **a pending awaitable is resolved when the connection is lost** (the "at least once" half on
the only path the library controls) -/
theorem c07_pending_future_resolved_on_loss (st : State) (h : WF st) (hc : st.closed = false) (sid oid : Nat) (s : Stream)
    (hm : (sid, oid) ∈ st.table) (ho : st.obj oid = some s) (hk : s.kind = .rrReq) (hf : s.fut = .pending) :
    Out.futError oid cConnectionError ∈ (step st .lost).2 :=
  c11_pending_request_response_failed st h hc sid oid s hm ho hk hf

end RSocketModel.Engine

namespace RSocketModel.Engine

/-! ### non-vacuity: the monitor rejects bad sequences, and a real run reaches `done` -/

example : monitor 0 .idle [.onSubscribe 0, .onComplete 0, .onError 0 1] = none := by decide
example : monitor 0 .idle [.onNext 0 [1] false] = none := by decide
example : monitor 0 .idle [.futResult 0 [1], .futError 0 1] = none := by decide
example : monitor 0 .idle (run (init 1) [.requestStream [1] 5 true,
    .recv { ty := .payload, sid := 1, data := [7], next := true } .ok,
    .recv { ty := .payload, sid := 1, data := [8], next := true, complete := true } .ok, .lost]).2.flatten = some .done := by
  decide +kernel

end RSocketModel.Engine
