import RSocketModel.Engine.Step
/-! # C07 — placeholder until the invariant proofs land (see Props/C07 in a later commit) -/
namespace RSocketModel.Engine
theorem c07_placeholder : (init 1).closed = false := rfl
end RSocketModel.Engine
