import RSocketModel.Props.C04
import RSocketModel.Transport
import RSocketModel.Gen.TcpStepFn
import RSocketModel.Gen.MsgStepFn
/-!
# C04 — the transports' receive loops around the parser

Property theorems only: what the receiver dispatches over a byte-stream transport depends on the
bytes that arrived before the end of the stream, not on how `read` cut them, and nothing that
arrived complete is lost to the end of the stream or to a later error.
-/
namespace RSocketModel.Transport
open RSocketModel.Parser

/-- **Reads, then end of stream.** For every way `read` cuts the peer's bytes into non-empty
results, once the end of the stream is seen the receiver has dispatched exactly what the whole byte
string decodes to — including the frames that arrived in the very last read before the end — and
the loop has ended normally; whatever the reader would return afterwards is never asked for. -/
theorem c04_tcp_reads_then_eof {β : Type} (parse : Bytes → List β) (chunks : List Bytes)
    (hne : ∀ c ∈ chunks, c ≠ []) (later : List Read) :
    tcpLoop parse [] (chunks.map .data ++ .eof :: later) = ((drain parse chunks.flatten).1, .closed) := by
  have key : ∀ (cs : List Bytes) (buf : Bytes), (∀ c ∈ cs, c ≠ []) →
      tcpLoop parse buf (cs.map .data ++ .eof :: later) = ((feedAll parse buf cs).1, .closed) := by
    intro cs
    induction cs with
    | nil => intro buf _; simp [tcpLoop, feedAll]
    | cons c cs ih =>
      intro buf h
      have hc : c ≠ [] := h c (by simp)
      have ih' := ih (feed parse buf c).2 (fun x hx => h x (by simp [hx]))
      simp only [List.map_cons, List.cons_append, tcpLoop, hc, if_false, feedAll]
      rw [ih']
  rw [key chunks [] hne, c04_chunking_independent]

/-- an empty read *is* the end of the stream (that is how `StreamReader.read` reports it) -/
theorem c04_tcp_empty_read_is_eof {β : Type} (parse : Bytes → List β) (buf : Bytes) (later : List Read) :
    tcpLoop parse buf (.data [] :: later) = tcpLoop parse buf (.eof :: later) := by
  simp [tcpLoop]

/-- **Chunking independence up to the end of the stream**: two read sequences that carry the same
bytes before the end dispatch the same items. -/
theorem c04_tcp_any_two_read_sequences {β : Type} (parse : Bytes → List β) (c₁ c₂ : List Bytes)
    (h₁ : ∀ c ∈ c₁, c ≠ []) (h₂ : ∀ c ∈ c₂, c ≠ []) (h : c₁.flatten = c₂.flatten) (l₁ l₂ : List Read) :
    tcpLoop parse [] (c₁.map .data ++ .eof :: l₁) = tcpLoop parse [] (c₂.map .data ++ .eof :: l₂) := by
  rw [c04_tcp_reads_then_eof parse c₁ h₁, c04_tcp_reads_then_eof parse c₂ h₂, h]

/-- **Frames exact over TCP.** Correctly delimited frames, cut anyhow into reads, followed by the
end of the stream: each frame's own decoding, in order, none lost, none twice. -/
theorem c04_tcp_frames_exact {β : Type} (parse : Bytes → List β) (fs : List Bytes)
    (hfs : ∀ f ∈ fs, f.length < 2 ^ 24) (chunks : List Bytes) (hne : ∀ c ∈ chunks, c ≠ [])
    (h : chunks.flatten = (fs.map prefixed).flatten) (later : List Read) :
    tcpLoop parse [] (chunks.map .data ++ .eof :: later) = (fs.flatMap parse, .closed) := by
  rw [c04_tcp_reads_then_eof parse chunks hne, h]
  have := c04_frames_exact parse fs hfs []
  rw [List.append_nil] at this
  rw [this]
  simp [drain_short parse [] (by simp)]

/-- **A failing read loses nothing that had arrived.** Everything decoded from the reads before
the failure has been dispatched when the error ends the loop. -/
theorem c04_tcp_error_after_reads {β : Type} (parse : Bytes → List β) (chunks : List Bytes)
    (hne : ∀ c ∈ chunks, c ≠ []) (later : List Read) :
    tcpLoop parse [] (chunks.map .data ++ .err :: later) = ((drain parse chunks.flatten).1, .failed) := by
  have key : ∀ (cs : List Bytes) (buf : Bytes), (∀ c ∈ cs, c ≠ []) →
      tcpLoop parse buf (cs.map .data ++ .err :: later) = ((feedAll parse buf cs).1, .failed) := by
    intro cs
    induction cs with
    | nil => intro buf _; simp [tcpLoop, feedAll]
    | cons c cs ih =>
      intro buf h
      have hc : c ≠ [] := h c (by simp)
      have ih' := ih (feed parse buf c).2 (fun x hx => h x (by simp [hx]))
      simp only [List.map_cons, List.cons_append, tcpLoop, hc, if_false, feedAll]
      rw [ih']
  rw [key chunks [] hne, c04_chunking_independent]

/-- while the stream is open the loop is exactly the parser: items and residual buffer of `feedAll` -/
theorem c04_tcp_open_is_parser {β : Type} (parse : Bytes → List β) (chunks : List Bytes)
    (hne : ∀ c ∈ chunks, c ≠ []) (buf : Bytes) :
    tcpLoop parse buf (chunks.map .data) = ((feedAll parse buf chunks).1, .reading (feedAll parse buf chunks).2) := by
  induction chunks generalizing buf with
  | nil => simp [tcpLoop, feedAll]
  | cons c cs ih =>
    have hc : c ≠ [] := hne c (by simp)
    have ih' := ih (fun x hx => hne x (by simp [hx])) (feed parse buf c).2
    simp only [List.map_cons, tcpLoop, hc, if_false, feedAll]
    rw [ih']

/-- message transports: every queue entry before the first exception is dispatched, once, in
order; the exception ends the loop; nothing behind it is dispatched -/
theorem c04_msg_queue_exact {β : Type} (xs : List β) (rest : List (QItem β)) :
    msgQueueLoop (xs.map .item ++ .exc :: rest) = (xs, true) ∧ msgQueueLoop (xs.map (QItem.item)) = (xs, false) := by
  constructor
  · induction xs with
    | nil => simp [msgQueueLoop]
    | cons x xs ih => simp [msgQueueLoop, ih]
  · induction xs with
    | nil => simp [msgQueueLoop]
    | cons x xs ih => simp [msgQueueLoop, ih]

theorem msgQueueLoop_items_append {β : Type} (xs : List β) (rest : List (QItem β)) :
    msgQueueLoop (xs.map .item ++ rest) = (xs ++ (msgQueueLoop rest).1, (msgQueueLoop rest).2) := by
  induction xs with
  | nil => simp
  | cons x xs ih => simp [msgQueueLoop, ih]

/-- **websocket messages, exact.** With no failure of the iteration, the receiver dispatches, in
order, exactly what each non-empty binary message parses to; text / ping / other messages and empty
binary messages contribute nothing and disturb nothing. -/
theorem c04_ws_messages_exact {β : Type} (qf : Bool) (parse : Bytes → List β) (msgs : List WsMsg)
    (hnf : WsMsg.fail ∉ msgs) :
    msgQueueLoop (pump qf parse msgs) = (msgs.flatMap (bodyItems parse), false) := by
  induction msgs with
  | nil => simp [pump, msgQueueLoop]
  | cons m r ih =>
    have hr : WsMsg.fail ∉ r := fun h => hnf (by simp [h])
    have hm : m ≠ .fail := fun h => hnf (by simp [h])
    cases m with
    | fail => exact absurd rfl hm
    | binary b => simp only [pump, msgQueueLoop_items_append, ih hr, List.flatMap_cons]
    | other => simp only [pump, msgQueueLoop_items_append, ih hr, List.flatMap_cons]

/-- **a failing websocket loses nothing that had arrived** (client transport): the frames of every
message received before the failure are dispatched first, then the transport error ends the loop;
whatever the websocket would have produced afterwards is never looked at. -/
theorem c04_ws_failure_after_messages {β : Type} (parse : Bytes → List β) (pre post : List WsMsg)
    (hnf : WsMsg.fail ∉ pre) :
    msgQueueLoop (pump true parse (pre ++ .fail :: post)) = (pre.flatMap (bodyItems parse), true) := by
  induction pre with
  | nil => simp [pump, msgQueueLoop]
  | cons m r ih =>
    have hr : WsMsg.fail ∉ r := fun h => hnf (by simp [h])
    have hm : m ≠ .fail := fun h => hnf (by simp [h])
    cases m with
    | fail => exact absurd rfl hm
    | binary b => simp only [List.cons_append, pump, msgQueueLoop_items_append, ih hr, List.flatMap_cons]
    | other => simp only [List.cons_append, pump, msgQueueLoop_items_append, ih hr, List.flatMap_cons]

/-- what the model's loop does with one read, in the vocabulary of the compiled function -/
def stepKind : Read → Gen.TcpStep
  | .err => .transportError
  | .eof => .endOfStream true
  | .data c => if c = [] then .endOfStream true else .parses

/-- **the loop's per-read decision is the source's**: `tcpLoop` treats each outcome of `read` the
way `TransportTCP.next_frame_generator`, compiled from `rsocket/transports/tcp.py` on every run
(`Gen/TcpStepFn.lean`), does — a failing read is a transport error, no bytes is the end of the
stream (writer closed), and **any bytes at all are handed to the parser**, whether or not the end
of the stream is already known (the case two seeded changes, C04d and C01k, got wrong) -/
theorem c04_tcp_step_matches_source (r : Read) :
    stepKind r = Gen.tcp_next (decide (r = .err)) (decide (r = .eof ∨ r = .data [])) := by
  cases r with
  | err => rfl
  | eof => rfl
  | data c => cases c <;> simp [stepKind, Gen.tcp_next]

/-- **the message loop's per-entry decision is the source's**: `msgQueueLoop` dispatches a queue entry
exactly when `AbstractMessagingTransport.next_frame_generator` (compiled from its source,
`Gen/MsgStepFn.lean`) yields it — everything that is not an exception object, in particular the
parser's invalid-frame marker — and fails exactly when it raises the entry -/
theorem c04_msg_step_matches_source {β : Type} (q : QItem β) (rest : List (QItem β)) :
    (Gen.msg_next (match q with | .exc => true | .item _ => false) = .raisesIt ↔ msgQueueLoop (q :: rest) = ([], true)) ∧
    (∀ x, q = .item x → Gen.msg_next false = .yieldsIt ∧ (msgQueueLoop (q :: rest)).1 = x :: (msgQueueLoop rest).1) := by
  constructor
  · cases q with
    | exc => simp [Gen.msg_next, msgQueueLoop]
    | item x => simp [Gen.msg_next, msgQueueLoop]
  · intro x hx
    subst hx
    simp [Gen.msg_next, msgQueueLoop]

/-- non-vacuity: two frames, the second arriving in the same read as the end of the first and
followed at once by the end of the stream -/
example : tcpLoop (fun b => [b]) [] ([[0, 0, 1, 7, 0], [0, 2, 8, 9]].map .data ++ .eof :: [.data [1]]) =
    ([[7], [8, 9]], .closed) := by
  have := c04_tcp_frames_exact (fun b => [b]) [[7], [8, 9]] (by decide) [[0, 0, 1, 7, 0], [0, 2, 8, 9]] (by decide) (by decide) [.data [1]]
  simpa using this

end RSocketModel.Transport
