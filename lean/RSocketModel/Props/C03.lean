import RSocketModel.Engine.Reassembly
import RSocketModel.Proofs.FragmentGen
import RSocketModel.Proofs.Cache
/-!
# C03 — Fragmentation and reassembly are exact and respect the size limit

Property theorems only. Quantified over every metadata and data (lists over any type), every
fragment size `F ≥ MINIMUM_FRAGMENT_SIZE_BYTES` (regenerated constant), both framings `lp`, and
the five fragmentable frame types of the regenerated table.
-/
namespace RSocketModel.Fragment

variable {α : Type}

/-! ### Side conditions re-checked against the regenerated tables on every build -/

/-- the fragmenter's header table agrees with the codec's real header length for every
fragmentable type, and the minimum fragment size leaves room for at least one byte -/
theorem c03_header_table : ∀ ty ∈ Gen.fragmentableTypes, headerOf ty = wireHeader ty := by decide

theorem c03_min_fragment_room :
    ∀ ty ∈ Gen.fragmentableTypes, headerOf ty + 3 + 1 ≤ Gen.minimumFragmentSize ∧ 6 + 3 + 1 ≤ Gen.minimumFragmentSize := by
  decide

theorem c03_first_types_not_payload_have_no_next :
    Gen.tyPayload ∈ Gen.fragmentableTypes ∧ wireHeader Gen.tyPayload = 6 := by decide

theorem budgets_pos (ty F : Nat) (lp : Bool) (hty : ty ∈ Gen.fragmentableTypes)
    (hF : Gen.minimumFragmentSize ≤ F) :
    0 < firstBudget (headerOf ty) F lp ∧ 0 < nextBudget F lp := by
  have := c03_min_fragment_room ty hty
  unfold firstBudget nextBudget lpBytes
  cases lp <;> simp <;> omega

/-- the fragment list, in uniform form -/
theorem fragmentsFor_eq (ty F : Nat) (lp : Bool) (hty : ty ∈ Gen.fragmentableTypes)
    (hF : Gen.minimumFragmentSize ≤ F) (md d : List α) :
    fragmentsFor ty F lp md d =
      if md.length = 0 ∧ d.length = 0 then [{ md := [], d := [], isLast := true, isFirst := true }]
      else gen (firstBudget (headerOf ty) F lp) (nextBudget F lp) true md d := by
  obtain ⟨h1, h2⟩ := budgets_pos ty F lp hty hF
  unfold fragmentsFor
  by_cases h0 : md.length = 0 ∧ d.length = 0
  · simp [fragments, h0]
  · rw [if_neg h0, fragments_eq_gen _ _ h1 h2 md d (by omega)]

theorem followsOK_map (b : Base α) (l : List (Frag α)) (h : LastOK l) : FollowsOK (l.map (toFrame b)) := by
  induction l with
  | nil => trivial
  | cons x t ih =>
    refine ⟨?_, ih h.2⟩
    simp only [toFrame, h.1, List.isEmpty_map]

section
variable (b : Base α) (F : Nat) (lp : Bool)
variable (hty : b.ty ∈ Gen.fragmentableTypes) (hF : Gen.minimumFragmentSize ≤ F)
include hty hF

/-- there is always at least one fragment; the head is the only first fragment -/
theorem frags_shape :
    ∃ x t, fragmentsFor b.ty F lp b.md b.d = x :: t ∧ x.isFirst = true ∧ (∀ y ∈ t, y.isFirst = false) ∧
      LastOK (x :: t) ∧ MdBeforeD (x :: t) ∧
      (x :: t).flatMap (·.md) = b.md ∧ (x :: t).flatMap (·.d) = b.d ∧
      (∀ y ∈ x :: t, y.md.length + y.d.length ≤
          sz (firstBudget (headerOf b.ty) F lp) (nextBudget F lp) y.isFirst) ∧
      (t ≠ [] → ∀ y ∈ x :: t, 1 ≤ y.md.length + y.d.length) := by
  obtain ⟨h1, h2⟩ := budgets_pos b.ty F lp hty hF
  rw [fragmentsFor_eq b.ty F lp hty hF]
  by_cases h0 : b.md.length = 0 ∧ b.d.length = 0
  · rw [if_pos h0]
    have hm : b.md = [] := List.eq_nil_of_length_eq_zero h0.1
    have hd : b.d = [] := List.eq_nil_of_length_eq_zero h0.2
    refine ⟨_, [], rfl, rfl, by simp, by simp [LastOK], by simp [MdBeforeD], by simp [hm], by simp [hd], ?_, by simp⟩
    intro y hy; simp at hy; subst hy; simp
  · rw [if_neg h0]
    have hne : 0 < b.md.length + b.d.length := by omega
    have hc := gen_cons _ _ h1 h2 true b.md b.d hne
    have hlast := gen_lastOK _ _ h1 h2 true b.md b.d
    have hmd := gen_mdBeforeD _ _ h1 h2 true b.md b.d
    have hcat := gen_concat _ _ h1 h2 true b.md b.d
    have hbud := gen_budget _ _ h1 h2 true b.md b.d
    rw [hc] at hlast hmd hcat hbud ⊢
    refine ⟨_, _, rfl, rfl, gen_not_first _ _ h1 h2 _ _, hlast, hmd, hcat.1, hcat.2,
      fun y hy => (hbud y hy).1, fun _ y hy => (hbud y hy).2⟩

/-- **first fragment keeps the type and initial request-n; the rest are PAYLOAD frames** -/
theorem c03_first_type_and_n :
    ∃ x t, toFrames b F lp = x :: t ∧ x.ty = b.ty ∧ x.n = (if hasN b.ty then b.n else 0) ∧
      x.sid = b.sid ∧ ∀ y ∈ t, y.ty = Gen.tyPayload ∧ y.n = 0 ∧ y.sid = b.sid := by
  obtain ⟨x, t, he, hx, ht, _⟩ := frags_shape b F lp hty hF
  refine ⟨toFrame b x, t.map (toFrame b), by simp [toFrames, he], by simp [toFrame, hx], by simp [toFrame, hx],
    rfl, ?_⟩
  intro y hy
  simp only [List.mem_map] at hy
  obtain ⟨fr, hfr, rfl⟩ := hy
  have : hasN Gen.tyPayload = false := by decide
  simp [toFrame, ht fr hfr, this]

/-- **`follows` is set on all but the last fragment** -/
theorem c03_follows_all_but_last : FollowsOK (toFrames b F lp) := by
  obtain ⟨x, t, he, _, _, hl, _⟩ := frags_shape b F lp hty hF
  unfold toFrames
  rw [he]
  exact followsOK_map b _ hl

/-- **`complete` appears only on the last fragment (where it equals the original's)** -/
theorem c03_complete_only_last :
    ∀ pre x suf, toFrames b F lp = pre ++ x :: suf →
      (suf ≠ [] → x.complete = false) ∧ (suf = [] → x.complete = b.complete) := by
  obtain ⟨x0, t0, he, _, _, hl, _⟩ := frags_shape b F lp hty hF
  unfold toFrames
  rw [he]
  generalize x0 :: t0 = l at hl
  intro pre x suf h
  induction l generalizing pre with
  | nil => simp at h
  | cons y t ih =>
    cases pre with
    | nil =>
      simp only [List.map_cons, List.nil_append, List.cons.injEq] at h
      obtain ⟨rfl, rfl⟩ := h
      have := hl.1
      constructor
      · intro hs
        have : y.isLast = false := by
          rw [this]; cases t <;> simp at hs ⊢
        simp [toFrame, this]
      · intro hs
        have : y.isLast = true := by
          rw [this]; cases t <;> simp at hs ⊢
        simp [toFrame, this]
    | cons p pre' =>
      simp only [List.map_cons, List.cons_append, List.cons.injEq] at h
      exact ih hl.2 pre' h.2

/-- **all metadata precedes any data** -/
theorem c03_metadata_before_data :
    ∀ pre x suf, toFrames b F lp = pre ++ x :: suf → 0 < x.d.length → ∀ y ∈ suf, y.md = [] := by
  obtain ⟨x0, t0, he, _, _, _, hm, _⟩ := frags_shape b F lp hty hF
  unfold toFrames
  rw [he]
  generalize x0 :: t0 = l at hm
  intro pre x suf h
  induction l generalizing pre with
  | nil => simp at h
  | cons y t ih =>
    cases pre with
    | nil =>
      simp only [List.map_cons, List.nil_append, List.cons.injEq] at h
      obtain ⟨rfl, rfl⟩ := h
      intro hd z hz
      simp only [List.mem_map] at hz
      obtain ⟨fr, hfr, rfl⟩ := hz
      exact hm.1 hd fr hfr
    | cons p pre' =>
      simp only [List.map_cons, List.cons_append, List.cons.injEq] at h
      exact ih hm.2 pre' h.2

/-- **the slices concatenate to the original metadata and data** -/
theorem c03_concat :
    (toFrames b F lp).flatMap (·.md) = b.md ∧ (toFrames b F lp).flatMap (·.d) = b.d := by
  obtain ⟨x0, t0, he, _, _, _, _, h1, h2, _⟩ := frags_shape b F lp hty hF
  unfold toFrames
  rw [he]
  constructor
  · rw [← h1]; simp [List.flatMap_map, toFrame]
  · rw [← h2]; simp [List.flatMap_map, toFrame]

/-- **no empty fragments**: when a frame is split, every fragment carries at least one byte -/
theorem c03_progress :
    1 < (toFrames b F lp).length → ∀ y ∈ toFrames b F lp, 1 ≤ y.md.length + y.d.length := by
  obtain ⟨x0, t0, he, _, _, _, _, _, _, _, hp⟩ := frags_shape b F lp hty hF
  unfold toFrames
  rw [he]
  intro hlen y hy
  simp only [List.mem_map] at hy
  obtain ⟨fr, hfr, rfl⟩ := hy
  have : t0 ≠ [] := by
    intro h; subst h; simp at hlen
  exact hp this fr hfr

/-- **size clause (partial, see `c03_size_counterexample`)**: a fragment is at most 3 bytes over
the configured size, and within it whenever it carries no metadata. -/
theorem c03_size_partial :
    ∀ y ∈ toFrames b F lp, wireSize y lp ≤ F + 3 ∧ (y.md.length = 0 → wireSize y lp ≤ F) := by
  obtain ⟨x0, t0, he, hx, ht, _, _, _, _, hb, _⟩ := frags_shape b F lp hty hF
  have hroom := c03_min_fragment_room b.ty hty
  have hhdr := c03_header_table b.ty hty
  unfold toFrames
  rw [he]
  intro y hy
  simp only [List.mem_map] at hy
  obtain ⟨fr, hfr, rfl⟩ := hy
  have hbud := hb fr hfr
  have hp6 : wireHeader Gen.tyPayload = 6 := by decide
  have hlp : lpBytes lp ≤ 3 := by unfold lpBytes; split <;> omega
  simp only [List.mem_cons] at hfr
  rcases hfr with rfl | hfr
  · simp only [wireSize, toFrame, hx, if_true, sz, firstBudget] at hbud ⊢
    rw [← hhdr]
    constructor
    · split <;> omega
    · intro h; simp only [h, if_true]; omega
  · have hf := ht fr hfr
    simp only [wireSize, toFrame, hf, Bool.false_eq_true, if_false, sz, nextBudget, hp6] at hbud ⊢
    constructor
    · split <;> omega
    · intro h; simp only [h, if_true]; omega

/-- **a frame that fits is sent as a single frame** (fits = its whole wire size, length prefix
included, is within the configured size) -/
theorem c03_fits_single (hfit : wireSize (canonBase b) lp ≤ F) :
    toFrames b F lp = [canonBase b] := by
  obtain ⟨h1, h2⟩ := budgets_pos b.ty F lp hty hF
  have hhdr := c03_header_table b.ty hty
  unfold toFrames
  rw [fragmentsFor_eq b.ty F lp hty hF]
  by_cases h0 : b.md.length = 0 ∧ b.d.length = 0
  · rw [if_pos h0]
    have hm : b.md = [] := List.eq_nil_of_length_eq_zero h0.1
    have hd : b.d = [] := List.eq_nil_of_length_eq_zero h0.2
    simp [toFrame, canonBase, hm, hd]
  · rw [if_neg h0]
    simp only [wireSize, canonBase] at hfit
    rw [← hhdr] at hfit
    have hfb : b.md.length + b.d.length ≤ firstBudget (headerOf b.ty) F lp ∧
        b.md.length < firstBudget (headerOf b.ty) F lp := by
      unfold firstBudget
      by_cases hm : b.md.length = 0
      · simp only [hm, if_true] at hfit; omega
      · simp only [hm, if_false] at hfit; omega
    rw [gen_single _ _ h1 h2 b.md b.d (by omega) hfb.1 hfb.2]
    simp [toFrame, canonBase]

/-- **the receiver reassembles exactly the original frame.** Feeding the fragments, in order,
to a fragment cache that holds nothing for this stream answers `pending` for every fragment but
the last, returns the original frame (canonical wire form; the internal `follows` flag of the
merged object stays set when there was more than one fragment) on the last, and leaves the
cache without an entry for the stream. -/
theorem c03_reassemble_exact (c : Cache α) (hc : c.get? b.sid = none) :
    let k := (toFrames b F lp).length
    appendAll c (toFrames b F lp) =
      (c.erase b.sid,
       List.replicate (k - 1) .pending ++ [.frame { canonBase b with follows := decide (1 < k) }]) ∨
    (k = 1 ∧ appendAll c (toFrames b F lp) = (c, [.frame (canonBase b)])) := by
  intro k
  obtain ⟨x, t, he, hxty, hxn, hxsid, ht⟩ := c03_first_type_and_n b F lp hty hF
  have hfol := c03_follows_all_but_last b F lp hty hF
  have hcat := c03_concat b F lp hty hF
  have hcompl := c03_complete_only_last b F lp hty hF
  have hprog := c03_progress b F lp hty hF
  have hk : k = (x :: t).length := by simp only [k, he]
  rw [he] at hfol hcat hcompl hprog ⊢
  cases t with
  | nil =>
    right
    have hx0 : x.follows = false := by simpa using hfol.1
    have hxc := (hcompl [] x [] rfl).2 rfl
    refine ⟨by simp [hk], ?_⟩
    simp only [appendAll, append, hx0, Bool.false_eq_true, if_false, hxsid, hc]
    congr
    -- x = canonBase b, field by field
    have hmd : x.md = b.md := by simpa using hcat.1
    have hd : x.d = b.d := by simpa using hcat.2
    have hxnext : x.next = (b.ty == Gen.tyPayload && (decide (0 < b.md.length) || decide (0 < b.d.length))) := by
      have : toFrames b F lp = [x] := he
      unfold toFrames at this
      cases hfr : fragmentsFor b.ty F lp b.md b.d with
      | nil => simp [hfr] at this
      | cons fr rest =>
        simp only [hfr, List.map_cons, List.cons.injEq, List.map_eq_nil_iff] at this
        obtain ⟨rfl, hrest⟩ := this
        obtain ⟨x', t', he', hfirst, _⟩ := frags_shape b F lp hty hF
        rw [hfr] at he'
        simp only [List.cons.injEq] at he'
        obtain ⟨rfl, _⟩ := he'
        simp only [toFrame, hfirst, if_true] at hmd hd ⊢
        rw [hmd, hd]
    cases x
    simp_all [canonBase]
  | cons g t' =>
    left
    have hx1 : x.follows = true := by simpa using hfol.1
    have hstep : append c x = (c.set b.sid x, .pending) := by
      simp [append, hx1, hxsid, hc, build]
    have happ : appendAll c (x :: g :: t') = ((appendAll (append c x).1 (g :: t')).1,
        (append c x).2 :: (appendAll (append c x).1 (g :: t')).2) := rfl
    rw [happ, hstep]
    simp only
    have hcont := appendAll_continuation b.sid (g :: t') (c.set b.sid x) x (by simp) (Cache.get_set _ _ _)
      (fun f hf => ⟨(ht f hf).2.2, (ht f hf).1⟩) hfol.2
    rw [hcont, Cache.erase_set]
    have hk2 : k - 1 = (g :: t').length := by simp [hk]
    have hk3 : decide (1 < k) = true := by simp [hk]
    rw [hk2, hk3]
    simp only [List.length_cons, Nat.add_sub_cancel, Prod.mk.injEq, true_and, List.append_cancel_left_eq,
      List.cons.injEq, AppendResult.frame.injEq, and_true]
    obtain ⟨m1, m2, m3, m4, m5, m6⟩ := merged_fields x (g :: t')
    obtain ⟨l, hl⟩ : ∃ l, (g :: t').getLast? = some l := by
      cases h : (g :: t').getLast? with
      | none => simp at h
      | some l => exact ⟨l, rfl⟩
    obtain ⟨m7, m8⟩ := merged_last x (g :: t') l hl
    -- the last fragment
    have hlast_mem : l ∈ g :: t' := List.mem_of_getLast? hl
    obtain ⟨pre, hsplit⟩ : ∃ pre, x :: g :: t' = pre ++ [l] := by
      have := List.getLast?_eq_some_iff.mp hl
      obtain ⟨ys, hys⟩ := this
      exact ⟨x :: ys, by rw [hys]; rfl⟩
    have hlc := (hcompl pre l [] hsplit).2 rfl
    have hlnext : l.ty = Gen.tyPayload := (ht l hlast_mem).1
    have hlen2 : 1 < (x :: g :: t').length := by simp
    have hlbytes := hprog hlen2 l (by simp [hlast_mem])
    have hxbytes := hprog hlen2 x (by simp)
    -- `next` of PAYLOAD fragments is "has content"
    have hnext_of : ∀ y ∈ toFrames b F lp, y.next = (y.ty == Gen.tyPayload && (decide (0 < y.md.length) || decide (0 < y.d.length))) := by
      intro y hy
      unfold toFrames at hy
      simp only [List.mem_map] at hy
      obtain ⟨fr, _, rfl⟩ := hy
      simp [toFrame]
    have hln := hnext_of l (by rw [he]; simp [hlast_mem])
    have hxn' := hnext_of x (by rw [he]; simp)
    have hbm : b.md.length + b.d.length ≥ 1 := by
      have h1 := congrArg List.length hcat.1
      have h2 := congrArg List.length hcat.2
      simp only [List.flatMap_cons, List.length_append] at h1 h2
      omega
    suffices hmain : merged x (g :: t') = { canonBase b with follows := true } by
      rw [hmain, List.replicate_succ]; rfl
    apply FFrame.ext' <;> simp only [canonBase]
    · rw [m1, hxty]
    · rw [m2, hxsid]
    · rw [m3, hxn]
    · rw [m4, hx1]
    · rw [m7, hlc]
    · rw [m8, hxty]
      by_cases hp : b.ty = Gen.tyPayload
      · simp only [hp, beq_self_eq_true, if_true, Bool.true_and, hln, hlnext]
        rw [Bool.eq_iff_iff]
        simp only [Bool.or_eq_true, decide_eq_true_eq]
        omega
      · have : (b.ty == Gen.tyPayload) = false := by simpa using hp
        simp only [this, Bool.false_eq_true, if_false, Bool.false_and, hxn', hxty]
    · rw [m5, ← hcat.1]; simp
    · rw [m6, ← hcat.2]; simp

end

/-- **the size clause at full strength is false of the code**: a PAYLOAD frame with 1 byte of
metadata and 55 bytes of data, fragment size 64, message framing, is sent as one 65-byte
fragment (the 3-byte metadata-length field is not budgeted). Recorded finding. -/
theorem c03_size_counterexample :
    ∃ (b : Base Unit) (F : Nat) (lp : Bool), b.ty ∈ Gen.fragmentableTypes ∧ Gen.minimumFragmentSize ≤ F ∧
      ∃ y ∈ toFrames b F lp, F < wireSize y lp := by
  refine ⟨⟨Gen.tyPayload, 1, 0, false, [()], List.replicate 55 ()⟩, 64, false, by decide, by decide, ?_⟩
  have hty : Gen.tyPayload ∈ Gen.fragmentableTypes := by decide
  have hF : Gen.minimumFragmentSize ≤ 64 := by decide
  obtain ⟨h1, h2⟩ := budgets_pos Gen.tyPayload 64 false hty hF
  unfold toFrames
  rw [fragmentsFor_eq Gen.tyPayload 64 false hty hF]
  simp only [List.length_cons, List.length_nil, List.length_replicate]
  rw [if_neg (by omega)]
  rw [gen_single _ _ h1 h2 _ _ (by simp) (by simp [firstBudget, headerOf, lpBytes]; decide)
    (by simp [firstBudget, headerOf, lpBytes]; decide)]
  refine ⟨_, List.mem_singleton.mpr rfl, ?_⟩
  simp [wireSize, toFrame, wireHeader, hasN, lpBytes]
  decide

/-- non-vacuity: the hypotheses are met by a REQUEST_CHANNEL frame at the minimum size -/
example : Gen.tyRequestChannel ∈ Gen.fragmentableTypes ∧ Gen.minimumFragmentSize ≤ 64 := by decide

end RSocketModel.Fragment

/-! ### reassembly inside the engine -/
namespace RSocketModel.Engine

/-- **a frame that arrives in fragments has exactly the effect of the whole frame** — for every
engine state, every fragmentable frame type (PAYLOAD and the four requests), every split of the
payload into a first fragment, any number of continuation fragments and a last one (COMPLETE
travelling on the last fragment only), every handler behaviour: the fragments produce no output
until the last one arrives, and then the state and the outputs are those of the unfragmented frame.
In particular a fragmented REQUEST_CHANNEL keeps its COMPLETE flag (defect F15, fixed). -/
theorem c03_engine_reassembles (st : State) (hc : st.closed = false) (f : Frame) (b : Behaviour)
    (hfr : isFragmentable f.ty = true) (hff : f.follows = false) (hpn : f.ty = .payload → f.next = true)
    (hnone : st.cache.find? (·.1 == f.sid) = none) (d1 : List Nat) (mids : List (List Nat)) (dl : List Nat)
    (hd : f.data = d1 ++ mids.flatten ++ dl) :
    run st ((fragsOf f d1 mids dl).map (fun g => Ev.recv g b)) =
      ((step st (.recv f b)).1, [] :: (mids.map (fun _ => []) ++ [(step st (.recv f b)).2])) := by
  have hfirst := recv_first st hc { f with follows := true, complete := false, data := d1 } b hfr rfl hnone
  have hrest := run_fragments st hc f.sid b
    { ty := .payload, sid := f.sid, follows := false, complete := f.complete, next := f.next, data := dl } rfl rfl rfl hnone mids
    { f with follows := true, complete := false, data := d1 } rfl hpn
  have hframe : ({ ({ f with follows := true, complete := false, data := d1 } : Frame) with
        complete := f.complete, next := if f.ty == .payload then f.next else f.next, data := d1 ++ mids.flatten ++ dl } : Frame) =
      { f with follows := true } := by
    cases f; simp_all
  simp only at hrest
  rw [hframe, dispatch_follows st f b hfr true, ← recv_whole st hc f b hff hnone] at hrest
  simp only [fragsOf, List.map_cons, List.map_append, List.map_map, List.map_nil, List.cons_append, run]
  rw [hfirst]
  simp only
  have hmap : List.map ((fun g => Ev.recv g b) ∘ fun d => ({ ty := .payload, sid := f.sid, follows := true, next := true, data := d } : Frame)) mids =
      mids.map (fun d => Ev.recv (midFrag f.sid d) b) := rfl
  rw [hmap, hrest]

/-- non-vacuity: a REQUEST_CHANNEL with COMPLETE arriving in three fragments on a fresh server -/
example : (run (init 2) ((fragsOf { ty := .requestChannel, sid := 1, n := 3, complete := true, data := [1, 2, 3] } [1] [[2]] [3]).map
    (fun g => Ev.recv g (.channel true true)))).2 =
    [[], [], [.handlerCall .requestChannel [1, 2, 3], .created 0 1, .onSubscribe 0, .pubSubscribe 0, .pubRequest 0 3, .onComplete 0]] := by
  decide +kernel

end RSocketModel.Engine
