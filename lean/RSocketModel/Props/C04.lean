import RSocketModel.Proofs.C04Lemmas
import RSocketModel.Codec
/-!
# C04 — Decoded frames are independent of how the byte stream is chunked

Property theorems only. `parse` is an arbitrary per-frame decoder (`[]` = ignored frame,
`[x]` = a frame or the invalid-frame marker), so the statements hold for the real decoder.
-/
namespace RSocketModel.Parser

variable {β : Type}

/-- **Chunking independence.** Whatever the partition of the received bytes into reads (single
bytes, splits inside the length prefix, …), the items produced over the whole connection and the
residual buffer are those of a single read of the concatenation. -/
theorem c04_chunking_independent (parse : Bytes → List β) (chunks : List Bytes) :
    feedAll parse [] chunks = drain parse chunks.flatten := by
  have := feedAll_of_residue parse chunks [] (drain_short parse [] (by simp))
  simpa using this

/-- Two chunkings of the same byte stream decode identically. -/
theorem c04_any_two_chunkings (parse : Bytes → List β) (c₁ c₂ : List Bytes)
    (h : c₁.flatten = c₂.flatten) : feedAll parse [] c₁ = feedAll parse [] c₂ := by
  rw [c04_chunking_independent, c04_chunking_independent, h]

/-- **Frames exact.** A stream of correctly delimited frames (each shorter than 2^24 bytes)
decodes to exactly the per-frame results, in order, none lost or duplicated; an undecodable
frame contributes only its own `parse` result (the invalid marker, or nothing) and does not
disturb the frames after it; nothing is left in the buffer. -/
theorem c04_frames_exact (parse : Bytes → List β) (fs : List Bytes)
    (hfs : ∀ f ∈ fs, f.length < 2 ^ 24) (tail : Bytes) :
    drain parse ((fs.map prefixed).flatten ++ tail) =
      (fs.flatMap parse ++ (drain parse tail).1, (drain parse tail).2) := by
  induction fs with
  | nil => simp
  | cons f fs ih =>
    simp only [List.map_cons, List.flatten_cons, List.flatMap_cons, List.append_assoc]
    rw [drain_prefixed parse f _ (hfs f (by simp))]
    rw [ih (fun g hg => hfs g (by simp [hg]))]

theorem c04_frames_exact_chunked (parse : Bytes → List β) (fs : List Bytes)
    (hfs : ∀ f ∈ fs, f.length < 2 ^ 24) (chunks : List Bytes)
    (h : chunks.flatten = (fs.map prefixed).flatten) :
    feedAll parse [] chunks = (fs.flatMap parse, []) := by
  rw [c04_chunking_independent, h]
  have := c04_frames_exact parse fs hfs []
  simpa [drain_short parse [] (by simp)] using this

/-- A partial frame at the end of the stream yields nothing and stays buffered. -/
theorem c04_truncated_tail (parse : Bytes → List β) (f : Bytes) (hf : f.length < 2 ^ 24)
    (n : Nat) (hn : n < (prefixed f).length) :
    drain parse ((prefixed f).take n) = ([], (prefixed f).take n) := by
  by_cases h3 : n < 3
  · exact drain_short parse _ (by simp; omega)
  · have hlen : ((prefixed f).take n).length = n := by simp; omega
    have ht : ((prefixed f).take n).take 3 = beBytes 3 f.length := by
      rw [List.take_take, Nat.min_eq_left (by omega)]
      have := take3_prefixed f []
      simpa using this
    apply drain_incomplete parse _ (by omega)
    rw [ht, beVal_beBytes_of_lt 3 _ (by omega), hlen]
    simp [prefixed] at hn
    omega

/-- **Message transports.** From the (always empty) buffer, `receive_data(msg, 0)` terminates
and yields exactly the result of decoding that message; the empty message yields nothing. -/
theorem c04_message_mode (parse : Bytes → List β) (msg : Bytes) :
    feedMsg parse [] msg = some (if msg = [] then [] else parse msg, []) := by
  cases msg with
  | nil => simp [feedMsg, msgLoop]
  | cons x xs =>
    simp [feedMsg, msgLoop]

/-- non-vacuity: two frames, the second split inside its length prefix -/
example : ∃ c₁ c₂ : List Bytes, c₁ ≠ c₂ ∧ c₁.flatten = c₂.flatten ∧ c₁.flatten = (([[1,2],[3]] : List Bytes).map prefixed).flatten :=
  ⟨[[0,0,2,1,2,0],[0,1,3]], [[0,0,2,1,2,0,0,1,3]], by decide, by decide, by decide⟩

end RSocketModel.Parser

namespace RSocketModel.Codec

/-! ### "Each message yields exactly the frame it contains": present-but-empty metadata

A frame may carry the METADATA flag with a zero-length metadata block (what other implementations
put on the wire for empty metadata; this library's own encoder clears the flag instead). It is the
same frame as the unflagged form: the three length bytes are consumed, the data starts behind them. -/

theorem readMetadata_empty_block (rest : Bytes) :
    readMetadata true ((0 : UInt8) :: 0 :: 0 :: rest) = readMetadata false rest := by
  simp [readMetadata, readBE, beVal, bind, R.bind, pure]

/-- Request-response, fire-and-forget and payload frames (metadata right behind the header). -/
theorem c04_empty_metadata_block_same_frame (h : Header) (hty : h.ty = 4 ∨ h.ty = 5 ∨ h.ty = 10) (rest : Bytes) :
    parseBody { h with m := true } ((0 : UInt8) :: 0 :: 0 :: rest) = parseBody { h with m := false } rest := by
  rcases hty with e | e | e <;> simp [parseBody, e, readMetadata_empty_block]

/-- Stream and channel requests (metadata behind the 4-byte initial request-n). -/
theorem c04_empty_metadata_block_same_frame_n (h : Header) (hty : h.ty = 6 ∨ h.ty = 7)
    (a b c d : UInt8) (rest : Bytes) :
    parseBody { h with m := true } (a :: b :: c :: d :: 0 :: 0 :: 0 :: rest)
      = parseBody { h with m := false } (a :: b :: c :: d :: rest) := by
  rcases hty with e | e <;>
    simp [parseBody, e, readBE, bind, R.bind, readMetadata_empty_block]

/-- Non-vacuity: a PAYLOAD frame on stream 1 with NEXT, the METADATA flag, an empty metadata block and the data `ab`. -/
example : decode [0, 0, 0, 1, 0x29, 0x20, 0, 0, 0, 0x61, 0x62] = .frame (.payload 1 false false false true [] [0x61, 0x62]) := by
  decide

end RSocketModel.Codec
