import RSocketModel.Proofs.C14Lemmas
import RSocketModel.Codec
/-!
# C14 — Lease: no request without a valid lease, never more than granted
Property theorems only. All statements are for every sequence of LEASE frames and requests at
non-decreasing virtual times.
-/
namespace RSocketModel.Lease

/-! ### the drain loop of `handle_lease` -/

/-! ### invariants over histories -/

/-- **no request before the first LEASE** -/
theorem c14_none_before_first_lease (cap t0 : Nat) (evs : List Ev) (h : ∀ e ∈ evs, isRequest e = true) :
    (run (init cap t0) evs).sent = [] := by
  suffices H : ∀ s : State, s.lease.max = 0 → s.sent = [] → (run s evs).lease.max = 0 ∧ (run s evs).sent = [] from
    (H _ rfl rfl).2
  induction evs with
  | nil => intro s h1 h2; exact ⟨h1, h2⟩
  | cons e es ih =>
    intro s h1 h2
    have he := h e (by simp)
    cases e with
    | lease n ttl t => simp [isRequest] at he
    | request tag t =>
      simp only [run, List.foldl_cons]
      apply ih (fun x hx => h x (by simp [hx]))
      · simp only [step]
        rcases ha : allow s.lease (max s.now t) with ⟨ok, l'⟩
        have hs := allow_snd s.lease (max s.now t)
        rw [ha] at hs
        cases ok <;> simp only [Bool.false_eq_true, if_false, if_true] <;> (try split) <;> (dsimp only at hs ⊢; omega)
      · simp only [step]
        rcases ha : allow s.lease (max s.now t) with ⟨ok, l'⟩
        cases ok
        · simp only [Bool.false_eq_true, if_false]; split <;> exact h2
        · have := allow_true s.lease (max s.now t) (by rw [ha])
          omega

/-- every newly sent request is stamped with the current time and that time is strictly before the
expiry of the lease in force: **nothing is sent after the time-to-live has elapsed** -/
theorem c14_none_after_ttl (s : State) (e : Ev) :
    ∀ x ∈ (step s e).sent, x ∈ s.sent ∨
      (x.2 = (step s e).now ∧ x.2 < (step s e).lease.created + (step s e).lease.ttl) := by
  cases e with
  | request tag t =>
    simp only [step]
    rcases ha : allow s.lease (max s.now t) with ⟨ok, l'⟩
    have hs := allow_snd s.lease (max s.now t)
    rw [ha] at hs
    dsimp only at hs
    cases ok
    · simp only [Bool.false_eq_true, if_false]; split <;> exact fun x hx => Or.inl hx
    · obtain ⟨ht, _, _⟩ := allow_true s.lease (max s.now t) (by rw [ha])
      simp only [if_true, List.mem_append, List.mem_singleton]
      intro x hx
      rcases hx with hx | rfl
      · exact Or.inl hx
      · right; dsimp only; exact ⟨rfl, by omega⟩
  | lease n ttl t =>
    simp only [step]
    obtain ⟨new, e1, e2, _, e4⟩ := drain_sent { max := n, used := 0, created := max s.now t, ttl := ttl } (max s.now t) s.queue s.sent
    have hl := drain_lease { max := n, used := 0, created := max s.now t, ttl := ttl } (max s.now t) s.queue s.sent
    intro x hx
    rw [e1, List.mem_append] at hx
    rcases hx with hx | hx
    · exact Or.inl hx
    · right
      refine ⟨e2 x hx, ?_⟩
      rw [hl.2.1, hl.2.2.1, e2 x hx]
      exact e4 (List.ne_nil_of_mem hx)

/-- **at most the granted number under each lease**: the number of requests sent since the latest
LEASE frame never exceeds the number it granted -/
theorem c14_at_most_granted (cap t0 : Nat) (evs : List Ev) :
    (run (init cap t0) evs).underLease ≤ (run (init cap t0) evs).lease.max := (inv_run cap t0 evs).2.1

theorem c14_at_most_granted_count (cap t0 : Nat) (pre : List Ev) (n ttl t : Nat) (post : List Ev)
    (h : ∀ e ∈ post, isRequest e = true) :
    (run (init cap t0) (pre ++ .lease n ttl t :: post)).sent.length - (run (init cap t0) pre).sent.length ≤ n := by
  have hrun : run (init cap t0) (pre ++ .lease n ttl t :: post) = run (step (run (init cap t0) pre) (.lease n ttl t)) post := by
    simp [run, List.foldl_append]
  rw [hrun]
  obtain ⟨h1, h2, _⟩ := underLease_spec (run (init cap t0) pre) n ttl t post h
  have hinv : Inv (run (step (run (init cap t0) pre) (.lease n ttl t)) post) := by
    rw [← hrun]; exact inv_run cap t0 _
  have := hinv.2.1
  rw [h1, h2] at this
  exact this

/-- **FIFO, each request at most once**: requests that were not refused for lack of queue space
are, in arrival order, exactly the ones already sent followed by the ones still held -/
theorem c14_fifo_once (s : State) (h : Inv s) (e : Ev) :
    accepted (step s e) = accepted s ∨ ∃ tag t, e = .request tag t ∧ accepted (step s e) = accepted s ++ [tag] := by
  cases e with
  | request tag t =>
    simp only [step]
    rcases ha : allow s.lease (max s.now t) with ⟨ok, l'⟩
    cases ok
    · simp only [Bool.false_eq_true, if_false]
      split
      · exact Or.inl rfl
      · exact Or.inr ⟨tag, t, rfl, by simp [accepted]⟩
    · simp only [if_true]
      right
      refine ⟨tag, t, rfl, ?_⟩
      -- the lease allowed, hence it was not spent, hence nothing is held: the request does not overtake
      have hq : s.queue = [] := by
        cases hqq : s.queue with
        | nil => rfl
        | cons a as =>
          have hne : s.queue ≠ [] := by rw [hqq]; simp
          have := spent_allow s.lease (max s.now t) (spent_mono _ _ _ (h.1 hne) (Nat.le_max_left _ _))
          rw [ha] at this
          simp at this
      simp [accepted, hq]
  | lease n ttl t =>
    left
    simp only [step, accepted]
    exact drain_conserves _ _ _ _

/-- requests are retained up to the configured queue size -/
theorem c14_retained_up_to_capacity (s : State) (tag t : Nat) (hc : s.capacity ≠ 0) (hq : s.queue.length ≤ s.capacity) :
    (step s (.request tag t)).queue.length ≤ s.capacity ∧
    ((step s (.request tag t)).rejected ≠ s.rejected → s.queue.length = s.capacity) := by
  simp only [step]
  rcases ha : allow s.lease (max s.now t) with ⟨ok, l'⟩
  cases ok
  · simp only [Bool.false_eq_true, if_false]
    split
    · rename_i hfull; exact ⟨hq, fun _ => by omega⟩
    · rename_i hnf
      refine ⟨by simp; omega, fun h => absurd rfl h⟩
  · simp only [if_true]
    exact ⟨hq, fun h => absurd rfl h⟩

/-- **the responder announces exactly what it publishes**: granted count unchanged, time-to-live
in milliseconds (whole-millisecond values) -/
theorem c14_announce_exact (n k : Nat) : announce n (1000 * k) = (n, k) := by
  unfold announce; congr 1; omega

/-- **no request vanishes**: over every history the tags that were sent or are still held, together
with the refused ones, are exactly (as a multiset) the tags of the requests made - whatever the
leases did in between (`drain_conserves` is the step the drain loop of `handle_lease` has to get
right: a request taken off the queue is either sent or stays at the head) -/
theorem c14_no_request_lost (cap t0 : Nat) (evs : List Ev) :
    (accepted (run (init cap t0) evs) ++ (run (init cap t0) evs).rejected).Perm (requestedTags evs) := by
  suffices H : ∀ s : State, (accepted (run s evs) ++ (run s evs).rejected).Perm (accepted s ++ s.rejected ++ requestedTags evs) by
    simpa [init, accepted] using H (init cap t0)
  induction evs with
  | nil => intro s; simp [run, requestedTags]
  | cons e evs ih =>
    intro s
    have h1 := ih (step s e)
    have h2 := step_accounts s e
    simp only [run, List.foldl_cons] at h1 ⊢
    refine h1.trans ?_
    have : requestedTags (e :: evs) = requestedTags [e] ++ requestedTags evs := by
      cases e <;> simp [requestedTags]
    rw [this, ← List.append_assoc]
    exact List.Perm.append_right _ h2

/-- non-vacuity: lease of 2 for 100 ms, three requests held, two released in order, third held;
a later request does not overtake it -/
example : (run (init 0 0) [.request 1 0, .request 2 1, .request 3 2, .lease 2 100 10, .request 4 11]).sent = [(1, 10), (2, 10)] ∧
    (run (init 0 0) [.request 1 0, .request 2 1, .request 3 2, .lease 2 100 10, .request 4 11]).queue = [3, 4] := by decide

end RSocketModel.Lease

namespace RSocketModel.Codec

/-! ### what a received LEASE frame grants: the reserved top bit of both fields is not part of the value -/

/-- Decoding a LEASE frame of at least 8 body bytes: time-to-live and number of requests are the
two 32-bit words *modulo 2^31* - whatever the reserved top bits carry, the requester is granted
the 31-bit values, both below 2^31. -/
theorem c14_lease_reserved_bits_ignored (h : Header) (hty : h.ty = 2) (buf : Bytes) (hl : 8 ≤ buf.length) :
    parseBody h buf = .ok (.lease h.sid h.ign (beVal (buf.take 4) % 2 ^ 31) (beVal ((buf.drop 4).take 4) % 2 ^ 31)
      (if h.m then buf.drop 8 else [])) := by
  have h4 : 4 ≤ buf.length := by omega
  have h4' : 4 ≤ buf.length - 4 := by omega
  simp [parseBody, hty, readBE, h4, h4', bind, R.bind, pure, List.drop_drop]

theorem c14_lease_fields_below_2_31 (h : Header) (hty : h.ty = 2) (buf : Bytes) (f : Frame) (hp : parseBody h buf = .ok f) :
    ∃ t n md, f = .lease h.sid h.ign t n md ∧ t < 2 ^ 31 ∧ n < 2 ^ 31 := by
  by_cases hl : 8 ≤ buf.length
  · rw [c14_lease_reserved_bits_ignored h hty buf hl] at hp
    cases hp
    exact ⟨_, _, _, rfl, Nat.mod_lt _ (by decide), Nat.mod_lt _ (by decide)⟩
  · exfalso
    by_cases h4 : 4 ≤ buf.length
    · have h4' : ¬ 4 ≤ buf.length - 4 := by omega
      simp [parseBody, hty, readBE, h4, h4', bind, R.bind] at hp
    · simp [parseBody, hty, readBE, h4, bind, R.bind] at hp

/-- Non-vacuity: ttl word 0x80000064, requests word 0x80000002: granted 100 ms and 2 requests. -/
example : decode [0, 0, 0, 0, 0x08, 0, 0x80, 0, 0, 0x64, 0x80, 0, 0, 2] = .frame (.lease 0 false 100 2 []) := by decide

end RSocketModel.Codec
