import RSocketModel.Proofs.C15Lemmas
/-!
# C15 — Keepalive: echo, periodic emission, timeout detection
Property theorems only. Times are integer milliseconds of the virtual clock.
-/
namespace RSocketModel.KeepAlive

/-- **echo**: a KEEPALIVE with the respond flag is answered by exactly one KEEPALIVE without the
flag carrying the same data; one without the flag is never answered. -/
theorem c15_echo (respond : Bool) (data : List Nat) :
    echo respond data = if respond then [(false, data)] else [] := rfl

/-- the same in the engine model: the reply is queued on stream 0, nothing else happens -/
theorem c15_echo_engine (st : Engine.State) (hc : st.closed = false) (respond : Bool) (data : List Nat)
    (b : Engine.Behaviour) :
    (Engine.step st (.recv { ty := .keepalive, sid := 0, respond := respond, data := data } b)).2 =
      (if respond then [.send { ty := .keepalive, sid := 0, respond := false, data := data }] else []) := by
  cases respond <;>
    simp [Engine.step, Engine.recvStep, hc, Engine.isFragmentable, Engine.handleByType, Engine.State.emit]

/-- **periodic emission**: consecutive keepalives are exactly one period apart, the first one
period after the sender started -/
theorem c15_periodic (t0 P i : Nat) :
    sendTime t0 P 1 = t0 + P ∧ sendTime t0 P (i + 1) = sendTime t0 P i + P := by
  simp [sendTime, Nat.succ_mul, Nat.add_assoc]

/-- **no false timeout**: a check does not fire when some KEEPALIVE (or the connect instant)
arrived within the last maximum lifetime before it -/
theorem c15_no_false_timeout (r0 L T : Nat) (arrivals : List Nat)
    (h : (r0 ≤ T ∧ T ≤ r0 + L) ∨ ∃ a ∈ arrivals, a ≤ T ∧ T ≤ a + L) :
    fires r0 L arrivals T = false := by
  unfold fires
  rcases h with ⟨h1, h2⟩ | ⟨a, ha, h1, h2⟩
  · have := foldl_max_ge_init (arrivals.filter (· ≤ T)) r0
    unfold lastBefore
    simp only [decide_eq_false_iff_not, Nat.not_lt]
    omega
  · have := lastBefore_ge r0 T a arrivals ha h1
    simp only [decide_eq_false_iff_not, Nat.not_lt]
    omega

/-- … hence **while KEEPALIVEs keep arriving at intervals ≤ L, no check up to one lifetime after
the latest arrival ever fires** -/
theorem c15_no_false_timeout_gaps (r0 L : Nat) (arrivals : List Nat) (hg : GapsOK L r0 arrivals)
    (T : Nat) (h0 : r0 ≤ T) (hT : T ≤ (arrivals.getLast?.getD r0) + L) :
    fires r0 L arrivals T = false := by
  apply c15_no_false_timeout
  induction arrivals generalizing r0 with
  | nil => left; simpa using ⟨h0, hT⟩
  | cons a rest ih =>
    obtain ⟨h1, h2, h3⟩ := hg
    by_cases haT : T < a
    · left; exact ⟨h0, by omega⟩
    · have hlast : (a :: rest).getLast?.getD r0 = rest.getLast?.getD a := by
        cases rest with
        | nil => simp
        | cons b bs =>
          rw [List.getLast?_cons_cons]
          cases hgl : (b :: bs).getLast? with
          | none => simp at hgl
          | some v => rfl
      rw [hlast] at hT
      have := ih a h3 (by omega) hT
      rcases this with ⟨_, h5⟩ | ⟨x, hx, h5, h6⟩
      · right; exact ⟨a, by simp, by omega, h5⟩
      · right; exact ⟨x, by simp [hx], h5, h6⟩

/-- **detection**: if the server falls silent after time `r` (no arrival later than `r`, and the
receiver's checks started no later than one lifetime after `r`), some check in the window
`(r + L, r + 2L]` fires: silence of more than two maximum lifetimes is always detected. -/
theorem c15_detects (r0 c0 L r : Nat) (arrivals : List Nat) (hL : 0 < L)
    (hlast : ∀ T, r ≤ T → lastBefore r0 arrivals T = r) (hc : c0 ≤ r + L) :
    ∃ j, 1 ≤ j ∧ r + L < checkTime c0 L j ∧ checkTime c0 L j ≤ r + 2 * L ∧
      fires r0 L arrivals (checkTime c0 L j) = true := by
  refine ⟨(r + L - c0) / L + 1, Nat.le_add_left 1 _, ?_⟩
  have hdm := Nat.div_add_mod (r + L - c0) L
  have hm := Nat.mod_lt (r + L - c0) hL
  have hT : checkTime c0 L ((r + L - c0) / L + 1) = c0 + L * ((r + L - c0) / L) + L := by
    unfold checkTime
    rw [Nat.add_mul, Nat.one_mul, Nat.mul_comm]
    omega
  generalize L * ((r + L - c0) / L) = Q at hdm hT
  generalize (r + L - c0) % L = m at hdm hm
  rw [hT]
  refine ⟨by omega, by omega, ?_⟩
  unfold fires
  rw [hlast _ (by omega)]
  simp only [decide_eq_true_eq]
  omega

/-- non-vacuity of `c15_detects`: last arrival at 2000 ms, lifetime 700 ms, checks from 0 -/
example : fires 0 700 [500, 1200, 2000] (checkTime 0 700 4) = true ∧ 2000 + 700 < checkTime 0 700 4 ∧
    checkTime 0 700 4 ≤ 2000 + 2 * 700 := by decide

end RSocketModel.KeepAlive
