import RSocketModel.Proofs.C12Lemmas
import RSocketModel.Engine.Signals
import RSocketModel.Gen.Engine
import RSocketModel.Gen.Constants
/-!
# C12 — Hostile input and failing application code are contained

`Engine.step` is a total function (Lean's termination checker): processing any input terminates.
The theorems below are *locality* (a received frame touches only its own stream and is answered
only on its own stream), *containment of application failures* and *liveness after any history*.
-/
namespace RSocketModel.Engine

/-! ### the table entry of another stream is not touched -/

/-! ### property theorems -/

/-- **answers are local**: every frame queued while a received frame is being processed — a
response, an echo, or the ERROR that reports a protocol violation or a failing handler — is on
that frame's own stream (stream 0 for setup / resume / metadata-push errors) -/
theorem c12_sends_local (st : State) (h : WF st) (f : Frame) (b : Behaviour) :
    ∀ g, Out.send g ∈ (step st (.recv f b)).2 → g.sid = f.sid := by
  intro g hg
  have hg' : Out.send g ∈ (recvStep st f b).2 := by
    simp only [step, State.emit] at hg
    split at hg
    · exact (List.mem_filter.mp hg).1
    · exact hg
  clear hg
  unfold recvStep at hg'
  split at hg'
  · simp at hg'
  · have hspec := cacheAppend_spec st h f
    generalize hgen : (if isFragmentable f.ty = true then cacheAppend st f else (st, some (Except.ok f))) = r at hg'
    have hsid : ∀ cf, r.2 = some (.ok cf) → cf.sid = f.sid := by
      intro cf hcf
      rw [← hgen] at hcf
      split at hcf
      · exact hspec.2.1 cf hcf
      · simp only [Option.some.injEq, Except.ok.injEq] at hcf; rw [← hcf]
    rcases r with ⟨st', c⟩
    simp only at hg' hsid
    split at hg'
    · simp at hg'
    · simp [mkError] at hg'; rw [hg']
    · rename_i _ cf
      have hcs := hsid cf rfl
      split at hg'
      · rename_i hd
        rw [← hcs]
        exact handleByType_sends st' cf b (by simpa using hd) g hg'
      · split at hg'
        · simp at hg'
        · split at hg'
          · simp at hg'
          · rw [← hcs]; exact frameReceived_sends st' _ _ cf g hg'

/-- **other streams are not disturbed**: processing a received frame leaves the registration of
every other stream exactly as it was -/
theorem c12_other_streams_untouched (st : State) (h : WF st) (f : Frame) (b : Behaviour) (j : Nat) (hj : j ≠ f.sid) :
    (step st (.recv f b)).1.oidOf j = st.oidOf j := by
  simp only [step]
  unfold recvStep
  split
  · rfl
  · have hspec := cacheAppend_spec st h f
    generalize hgen : (if isFragmentable f.ty = true then cacheAppend st f else (st, some (Except.ok f))) = r
    have hsid : ∀ cf, r.2 = some (.ok cf) → cf.sid = f.sid := by
      intro cf hcf
      rw [← hgen] at hcf
      split at hcf
      · exact hspec.2.1 cf hcf
      · simp only [Option.some.injEq, Except.ok.injEq] at hcf; rw [← hcf]
    have hoid : r.1.oidOf j = st.oidOf j := by
      rw [← hgen]; split
      · exact oidOf_cacheAppend st f j
      · rfl
    have hw : WF r.1 := by
      rw [← hgen]; split
      · exact hspec.1
      · exact h
    rcases r with ⟨st', c⟩
    simp only at hsid hoid hw ⊢
    split
    · exact hoid
    · exact hoid
    · rename_i _ cf
      have hcs := hsid cf rfl
      split
      · rw [oidOf_handleByType_ne st' cf b j (by rw [hcs]; exact hj)]; exact hoid
      · split
        · exact hoid
        · split
          · exact hoid
          · rename_i _ oid ho _ s hs
            obtain ⟨s', hs', hss⟩ := oidOf_obj st' hw cf.sid oid ho
            rw [hs] at hs'
            cases hs'
            rw [oidOf_frameReceived_ne st' oid s cf j (by rw [hss, hcs]; exact hj)]; exact hoid

/-- **partial frames of other streams are not disturbed**: whatever frame arrives - well-formed or
not, for a live, finished or unknown stream, whatever the handler does - the fragments the
reassembly cache holds for every *other* stream are exactly what they were -/
theorem c12_other_partial_frames_untouched (st : State) (h : WF st) (f : Frame) (b : Behaviour) (j : Nat) (hj : j ≠ f.sid) :
    (step st (.recv f b)).1.partialOf j = st.partialOf j := by
  simp only [step]
  unfold recvStep
  split
  · rfl
  · have hspec := cacheAppend_spec st h f
    generalize hgen : (if isFragmentable f.ty = true then cacheAppend st f else (st, some (Except.ok f))) = r
    have hsid : ∀ cf, r.2 = some (.ok cf) → cf.sid = f.sid := by
      intro cf hcf
      rw [← hgen] at hcf
      split at hcf
      · exact hspec.2.1 cf hcf
      · simp only [Option.some.injEq, Except.ok.injEq] at hcf; rw [← hcf]
    have hp : r.1.partialOf j = st.partialOf j := by
      rw [← hgen]; split
      · exact partialOf_cacheAppend_ne st f j hj
      · rfl
    have hw : WF r.1 := by
      rw [← hgen]; split
      · exact hspec.1
      · exact h
    rcases r with ⟨st', c⟩
    simp only at hsid hp hw ⊢
    split
    · exact hp
    · exact hp
    · rename_i _ cf
      have hcs := hsid cf rfl
      split
      · rw [partialOf_handleByType_ne st' cf b j (by rw [hcs]; exact hj)]; exact hp
      · split
        · exact hp
        · split
          · exact hp
          · rename_i _ oid ho _ s hs
            obtain ⟨s', hs', hss⟩ := oidOf_obj st' hw cf.sid oid ho
            rw [hs] at hs'
            cases hs'
            rw [partialOf_frameReceived_ne st' oid s cf j (by rw [hss, hcs]; exact hj)]; exact hp

/-- non-vacuity: a first fragment on stream 1 is held while a frame of the wrong type arrives behind a fragment on stream 3 -/
example : (run (init 2) [.recv { ty := .requestResponse, sid := 1, follows := true, data := [1] } .ok,
                          .recv { ty := .requestResponse, sid := 3, follows := true, data := [2] } .ok,
                          .recv { ty := .requestResponse, sid := 3, data := [3] } .ok]).1.partialOf 1 =
    [(1, { ty := .requestResponse, sid := 1, follows := true, data := [1] })] := by decide +kernel

/-- **a failing handler is answered with an ERROR on the offending stream and nothing else
happens**: for a request on a fresh, non-zero stream whose handler raises, the only effects are the
handler call and one APPLICATION_ERROR frame on that stream; no stream is registered -/
theorem c12_handler_failure_contained (st : State) (hc : st.closed = false) (ty : FType) (hty : isInitiate ty = true)
    (sid : Nat) (hna : st.isActive sid = false) (hcache : (st.cache.find? (·.1 == sid)) = none) (data : List Nat) (n : Nat) :
    step st (.recv { ty := ty, sid := sid, n := n, data := data } .raises) =
      (st, [.handlerCall ty data, .send (mkError sid cApplicationError)]) := by
  cases ty <;> simp [isInitiate] at hty <;>
    simp [step, recvStep, hc, isFragmentable, cacheAppend, hcache, isInitiate, handleByType, hna, State.emit]

/-- **the connection keeps serving**: in whatever state the endpoint is after any history (not
closed), a fresh request-response on an unused non-zero stream is handed to the application, and
once its future is resolved the response goes out on that stream -/
theorem c12_probe_served (st : State) (hc : st.closed = false) (sid : Nat) (h0 : sid ≠ 0) (hna : st.isActive sid = false)
    (hcache : (st.cache.find? (·.1 == sid)) = none) (req resp : List Nat) :
    let r1 := step st (.recv { ty := .requestResponse, sid := sid, data := req } (.futReady resp))
    r1.2 = [.handlerCall .requestResponse req, .created st.heap.length sid] ∧
    (step r1.1 (.cbRRResp st.heap.length)).2 = [.send (mkPayload sid resp true)] := by
  simp [step, recvStep, hc, isFragmentable, cacheAppend, hcache, isInitiate, handleByType, hna, h0, State.emit, State.register,
    apiStep, State.obj, State.setObj, State.finish]

/-- non-vacuity of the two statements above -/
example : (init 2).closed = false ∧ (init 2).isActive 7 = false ∧ ((init 2).cache.find? (·.1 == 7)) = none := by decide

/-- the model's step function is total: every event in every state has an outcome -/
theorem c12_total (st : State) (ev : Ev) : ∃ st' outs, step st ev = (st', outs) := ⟨_, _, rfl⟩

end RSocketModel.Engine

namespace RSocketModel.Engine

/-! ### the dispatch structure the model transcribes, tied to the source (regenerated tables) -/

/-- frame type ids as in `rsocket.frame.FrameType` -/
def tyId : FType → Nat
  | .setup => Gen.tySetup | .lease => Gen.tyLease | .keepalive => Gen.tyKeepalive
  | .requestResponse => Gen.tyRequestResponse | .requestFnf => Gen.tyRequestFnf | .requestStream => Gen.tyRequestStream
  | .requestChannel => Gen.tyRequestChannel | .requestN => Gen.tyRequestN | .cancel => Gen.tyCancel | .payload => Gen.tyPayload
  | .error => Gen.tyError | .metadataPush => Gen.tyMetadataPush | .resume => Gen.tyResume | .resumeOk => Gen.tyResumeOk

/-- the frame types for which the receiver has a `handle_*` method -/
def dispatched : FType → Bool
  | .setup | .lease | .keepalive | .requestResponse | .requestFnf | .requestStream | .requestChannel | .error
  | .metadataPush | .resume => true
  | _ => false

def Kind.name : Kind → String
  | .rrReq => "rrReq" | .rrResp => "rrResp" | .stReq => "stReq" | .stResp => "stResp" | .chReq => "chReq" | .chResp => "chResp"
/-- `isinstance(stream, Requester)`: `stop_all_streams` hands it a synthetic ERROR frame -/
def Kind.isRequester : Kind → Bool
  | .rrReq | .stReq | .chReq => true
  | _ => false
/-- `isinstance(stream, Disposable)`: `stop_all_streams` calls `dispose()` -/
def Kind.isDisposable : Kind → Bool
  | .rrResp | .stResp | .chReq | .chResp => true
  | _ => false

/-- **the model's dispatch tables are the code's**: which frame types the receiver dispatches by
type, which open a stream, which go through the fragment cache, and how `stop_all_streams`
classifies the six handler classes — each compared with the table regenerated from the source -/
theorem c12_dispatch_tables_match_source :
    (∀ ty : FType, dispatched ty = (Gen.receiverDispatch.map (·.1)).contains (tyId ty)) ∧
    (∀ ty : FType, isInitiate ty = Gen.initiateRequestTypes.contains (tyId ty)) ∧
    (∀ ty : FType, isFragmentable ty = Gen.fragmentableTypes.contains (tyId ty)) ∧
    (∀ k : Kind, (k.name, k.isRequester, k.isDisposable) ∈ Gen.handlerKinds) ∧ Gen.handlerKinds.length = 6 := by
  refine ⟨?_, ?_, ?_, ?_, by decide⟩ <;> intro x <;> cases x <;> decide

/-- a stream-0 frame of a type without a `handle_*` method does nothing -/
theorem c12_undispatched_is_noop (st : State) (f : Frame) (b : Behaviour) (h : dispatched f.ty = false) :
    handleByType st f b = (st, []) := by
  unfold handleByType
  cases hty : f.ty <;> simp [hty, dispatched] at h ⊢

/-- `stop_all_streams` addresses the subscriber / awaitable only of `Requester` classes and the
producer only of `Disposable` classes -/
theorem c12_stop_respects_classes (s : Stream) (oid : Nat) (x : Out) (hx : x ∈ stopOuts (some s) oid) :
    (x.isSignal = true → s.kind.isRequester = true) ∧
    ((x = .pubCancel oid ∨ x = .hfCancel oid) → s.kind.isDisposable = true) := by
  unfold stopOuts at hx
  cases hk : s.kind <;> simp only [hk] at hx <;> (repeat' split at hx) <;>
    simp_all [Out.isSignal, Kind.isRequester, Kind.isDisposable]

end RSocketModel.Engine
