import RSocketModel.Engine.Step
/-! # C12 — placeholder until the proofs land -/
namespace RSocketModel.Engine
theorem c12_placeholder : (init 1).closed = false := rfl
end RSocketModel.Engine
