import RSocketModel.Engine.Invariants
/-!
# C12 — Hostile input and failing application code are contained

`Engine.step` is a total function (Lean's termination checker): processing any input terminates.
The theorems below are *locality* (a received frame touches only its own stream and is answered
only on its own stream), *containment of application failures* and *liveness after any history*.
-/
namespace RSocketModel.Engine

/-- every frame queued while processing a received frame is on that frame's stream -/
theorem frameReceived_sends (st : State) (oid : Nat) (s : Stream) (f : Frame) :
    ∀ g, Out.send g ∈ (frameReceived st oid s f).2 → g.sid = f.sid := by
  unfold frameReceived
  cases s.kind <;> simp only <;> cases f.ty <;> simp only <;> (repeat' split) <;> simp [mkError]

theorem handleByType_sends (st : State) (f : Frame) (b : Behaviour) (hd : f.sid = 0 ∨ isInitiate f.ty = true) :
    ∀ g, Out.send g ∈ (handleByType st f b).2 → g.sid = f.sid := by
  unfold handleByType
  cases hty : f.ty <;> simp only
  case requestResponse => split <;> (try cases b) <;> simp only <;> (repeat' split) <;> simp_all [mkError]
  case requestStream => split <;> (try cases b) <;> simp only <;> (repeat' split) <;> simp_all [mkError]
  case requestFnf => split <;> (try cases b) <;> simp_all [mkError]
  case requestChannel =>
    split
    · simp [mkError]
    · cases b <;> simp only <;> (try simp [mkError])
      rename_i hasPub hasSub
      split
      · simp [mkError]; omega
      · cases hasPub <;> cases hasSub <;> cases f.complete <;> simp [mkPayload]
  case setup =>
    have h0 : f.sid = 0 := by rcases hd with h | h; exact h; simp [hty, isInitiate] at h
    (repeat' split) <;> simp_all [mkError]
  case metadataPush =>
    have h0 : f.sid = 0 := by rcases hd with h | h; exact h; simp [hty, isInitiate] at h
    cases b <;> simp_all [mkError]
  case resume =>
    have h0 : f.sid = 0 := by rcases hd with h | h; exact h; simp [hty, isInitiate] at h
    simp_all [mkError]
  case keepalive => split <;> simp
  all_goals simp

/-! ### the table entry of another stream is not touched -/

theorem find_filter_ne (l : List (Nat × Nat)) (sid j : Nat) (h : j ≠ sid) :
    (l.filter (·.1 != sid)).find? (·.1 == j) = l.find? (·.1 == j) := by
  induction l with
  | nil => rfl
  | cons p rest ih =>
    by_cases hp : p.1 = sid
    · have hb : (p.1 != sid) = false := by simp [hp]
      have hj : (p.1 == j) = false := by simp; omega
      simp only [List.filter_cons, hb, Bool.false_eq_true, if_false, List.find?_cons, hj]
      exact ih
    · have hb : (p.1 != sid) = true := by simp [hp]
      simp only [List.filter_cons, hb, if_true, List.find?_cons]
      cases hpj : (p.1 == j)
      · exact ih
      · rfl

@[simp] theorem oidOf_setObj (st : State) (oid : Nat) (s : Stream) (j : Nat) : (st.setObj oid s).oidOf j = st.oidOf j := rfl

theorem oidOf_finish_ne (st : State) (sid j : Nat) (h : j ≠ sid) : (st.finish sid).oidOf j = st.oidOf j := by
  simp only [State.oidOf, State.finish]
  rw [find_filter_ne _ _ _ h]

theorem oidOf_unregister_ne (st : State) (sid j : Nat) (h : j ≠ sid) : (st.unregister sid).oidOf j = st.oidOf j :=
  oidOf_finish_ne st sid j h

theorem oidOf_markChannel_ne (st : State) (oid : Nat) (s : Stream) (r t : Bool) (j : Nat) (h : j ≠ s.sid) :
    (markChannel st oid s r t).oidOf j = st.oidOf j := by
  simp only [markChannel]
  split
  · rw [oidOf_finish_ne _ _ _ h]; rfl
  · rfl

theorem oidOf_register_ne (st : State) (s : Stream) (j : Nat) (h : j ≠ s.sid) : (st.register s).1.oidOf j = st.oidOf j := by
  simp only [State.oidOf, State.register, List.find?_append]
  rw [find_filter_ne _ _ _ h]
  have : ¬ (s.sid = j) := fun e => h e.symm
  cases st.table.find? (·.1 == j) <;> simp [this]

theorem oidOf_frameReceived_ne (st : State) (oid : Nat) (s : Stream) (f : Frame) (j : Nat) (h : j ≠ s.sid) :
    (frameReceived st oid s f).1.oidOf j = st.oidOf j := by
  unfold frameReceived
  cases s.kind <;> simp only <;> cases f.ty <;> simp only <;> (repeat' split) <;>
    simp [oidOf_finish_ne _ _ _ h, oidOf_markChannel_ne _ _ _ _ _ _ h]

theorem oidOf_cacheAppend (st : State) (f : Frame) (j : Nat) : (cacheAppend st f).1.oidOf j = st.oidOf j := by
  unfold cacheAppend
  simp only
  (repeat' split) <;> rfl

theorem oidOf_handleByType_ne (st : State) (f : Frame) (b : Behaviour) (j : Nat) (h : j ≠ f.sid) :
    (handleByType st f b).1.oidOf j = st.oidOf j := by
  have hr : ∀ s : Stream, s.sid = f.sid → (st.register s).1.oidOf j = st.oidOf j :=
    fun s hs => oidOf_register_ne st s j (by rw [hs]; exact h)
  unfold handleByType
  cases f.ty <;> simp only
  case requestResponse => split <;> (try cases b) <;> simp only <;> (repeat' split) <;> (first | rfl | exact hr _ rfl)
  case requestStream => split <;> (try cases b) <;> simp only <;> (repeat' split) <;> (first | rfl | exact hr _ rfl)
  case requestFnf => split <;> (try cases b) <;> rfl
  case setup => (repeat' split) <;> rfl
  case metadataPush => cases b <;> rfl
  case requestChannel =>
    split
    · rfl
    · cases b <;> simp only <;> (try rfl)
      rename_i hasPub hasSub
      split
      · rfl
      · have hm : ∀ (st' : State) (oid : Nat) (s : Stream) (r t : Bool), s.sid = f.sid →
            (markChannel st' oid s r t).oidOf j = st'.oidOf j :=
          fun st' oid s r t hs => oidOf_markChannel_ne st' oid s r t j (by rw [hs]; exact h)
        generalize hreg : st.register { kind := .chResp, sid := f.sid, hasPub := hasPub, subscribed := hasSub, setupDone := true } = r
        have h0 : r.1.oidOf j = st.oidOf j := by rw [← hreg]; exact hr _ rfl
        have ho : r.1.obj r.2 = some { kind := .chResp, sid := f.sid, hasPub := hasPub, subscribed := hasSub, setupDone := true } := by
          rw [← hreg]; exact obj_register st _
        rcases r with ⟨st0, oid⟩
        simp only at h0 ho ⊢
        cases hasSub <;> cases hasPub <;> cases f.complete <;>
          simp [ho, markChannel_obj, hm, h0]
  all_goals rfl

theorem oidOf_stopOne_ne (st : State) (sid oid j : Nat) (h : j ≠ sid) : (stopOne st sid oid).1.oidOf j = st.oidOf j := by
  unfold stopOne
  (repeat' split) <;> simp [oidOf_finish_ne _ _ _ h, oidOf_unregister_ne _ _ _ h]

/-! ### property theorems -/

/-- **answers are local**: every frame queued while a received frame is being processed — a
response, an echo, or the ERROR that reports a protocol violation or a failing handler — is on
that frame's own stream (stream 0 for setup / resume / metadata-push errors) -/
theorem c12_sends_local (st : State) (h : WF st) (f : Frame) (b : Behaviour) :
    ∀ g, Out.send g ∈ (step st (.recv f b)).2 → g.sid = f.sid := by
  intro g hg
  have hg' : Out.send g ∈ (recvStep st f b).2 := by
    simp only [step, State.emit] at hg
    split at hg
    · exact (List.mem_filter.mp hg).1
    · exact hg
  clear hg
  unfold recvStep at hg'
  split at hg'
  · simp at hg'
  · have hspec := cacheAppend_spec st h f
    generalize hgen : (if isFragmentable f.ty = true then cacheAppend st f else (st, some (Except.ok f))) = r at hg'
    have hsid : ∀ cf, r.2 = some (.ok cf) → cf.sid = f.sid := by
      intro cf hcf
      rw [← hgen] at hcf
      split at hcf
      · exact hspec.2.1 cf hcf
      · simp only [Option.some.injEq, Except.ok.injEq] at hcf; rw [← hcf]
    rcases r with ⟨st', c⟩
    simp only at hg' hsid
    split at hg'
    · simp at hg'
    · simp [mkError] at hg'; rw [hg']
    · rename_i _ cf
      have hcs := hsid cf rfl
      split at hg'
      · rename_i hd
        rw [← hcs]
        exact handleByType_sends st' cf b (by simpa using hd) g hg'
      · split at hg'
        · simp at hg'
        · split at hg'
          · simp at hg'
          · rw [← hcs]; exact frameReceived_sends st' _ _ cf g hg'

/-- **other streams are not disturbed**: processing a received frame leaves the registration of
every other stream exactly as it was -/
theorem c12_other_streams_untouched (st : State) (h : WF st) (f : Frame) (b : Behaviour) (j : Nat) (hj : j ≠ f.sid) :
    (step st (.recv f b)).1.oidOf j = st.oidOf j := by
  simp only [step]
  unfold recvStep
  split
  · rfl
  · have hspec := cacheAppend_spec st h f
    generalize hgen : (if isFragmentable f.ty = true then cacheAppend st f else (st, some (Except.ok f))) = r
    have hsid : ∀ cf, r.2 = some (.ok cf) → cf.sid = f.sid := by
      intro cf hcf
      rw [← hgen] at hcf
      split at hcf
      · exact hspec.2.1 cf hcf
      · simp only [Option.some.injEq, Except.ok.injEq] at hcf; rw [← hcf]
    have hoid : r.1.oidOf j = st.oidOf j := by
      rw [← hgen]; split
      · exact oidOf_cacheAppend st f j
      · rfl
    have hw : WF r.1 := by
      rw [← hgen]; split
      · exact hspec.1
      · exact h
    rcases r with ⟨st', c⟩
    simp only at hsid hoid hw ⊢
    split
    · exact hoid
    · exact hoid
    · rename_i _ cf
      have hcs := hsid cf rfl
      split
      · rw [oidOf_handleByType_ne st' cf b j (by rw [hcs]; exact hj)]; exact hoid
      · split
        · exact hoid
        · split
          · exact hoid
          · rename_i _ oid ho _ s hs
            obtain ⟨s', hs', hss⟩ := oidOf_obj st' hw cf.sid oid ho
            rw [hs] at hs'
            cases hs'
            rw [oidOf_frameReceived_ne st' oid s cf j (by rw [hss, hcs]; exact hj)]; exact hoid

/-- **a failing handler is answered with an ERROR on the offending stream and nothing else
happens**: for a request on a fresh, non-zero stream whose handler raises, the only effects are the
handler call and one APPLICATION_ERROR frame on that stream; no stream is registered -/
theorem c12_handler_failure_contained (st : State) (hc : st.closed = false) (ty : FType) (hty : isInitiate ty = true)
    (sid : Nat) (hna : st.isActive sid = false) (hcache : (st.cache.find? (·.1 == sid)) = none) (data : List Nat) (n : Nat) :
    step st (.recv { ty := ty, sid := sid, n := n, data := data } .raises) =
      (st, [.handlerCall ty data, .send (mkError sid cApplicationError)]) := by
  cases ty <;> simp [isInitiate] at hty <;>
    simp [step, recvStep, hc, isFragmentable, cacheAppend, hcache, isInitiate, handleByType, hna, State.emit]

/-- **the connection keeps serving**: in whatever state the endpoint is after any history (not
closed), a fresh request-response on an unused non-zero stream is handed to the application, and
once its future is resolved the response goes out on that stream -/
theorem c12_probe_served (st : State) (hc : st.closed = false) (sid : Nat) (h0 : sid ≠ 0) (hna : st.isActive sid = false)
    (hcache : (st.cache.find? (·.1 == sid)) = none) (req resp : List Nat) :
    let r1 := step st (.recv { ty := .requestResponse, sid := sid, data := req } (.futReady resp))
    r1.2 = [.handlerCall .requestResponse req, .created st.heap.length sid] ∧
    (step r1.1 (.cbRRResp st.heap.length)).2 = [.send (mkPayload sid resp true)] := by
  simp [step, recvStep, hc, isFragmentable, cacheAppend, hcache, isInitiate, handleByType, hna, h0, State.emit, State.register,
    apiStep, State.obj, State.setObj, State.finish]

/-- non-vacuity of the two statements above -/
example : (init 2).closed = false ∧ (init 2).isActive 7 = false ∧ ((init 2).cache.find? (·.1 == 7)) = none := by decide

/-- the model's step function is total: every event in every state has an outcome -/
theorem c12_total (st : State) (ev : Ev) : ∃ st' outs, step st ev = (st', outs) := ⟨_, _, rfl⟩

end RSocketModel.Engine
