import RSocketModel.Proofs.C12Lemmas
/-!
# C12 — Hostile input and failing application code are contained

`Engine.step` is a total function (Lean's termination checker): processing any input terminates.
The theorems below are *locality* (a received frame touches only its own stream and is answered
only on its own stream), *containment of application failures* and *liveness after any history*.
-/
namespace RSocketModel.Engine

/-! ### the table entry of another stream is not touched -/

/-! ### property theorems -/

/-- **answers are local**: every frame queued while a received frame is being processed — a
response, an echo, or the ERROR that reports a protocol violation or a failing handler — is on
that frame's own stream (stream 0 for setup / resume / metadata-push errors) -/
theorem c12_sends_local (st : State) (h : WF st) (f : Frame) (b : Behaviour) :
    ∀ g, Out.send g ∈ (step st (.recv f b)).2 → g.sid = f.sid := by
  intro g hg
  have hg' : Out.send g ∈ (recvStep st f b).2 := by
    simp only [step, State.emit] at hg
    split at hg
    · exact (List.mem_filter.mp hg).1
    · exact hg
  clear hg
  unfold recvStep at hg'
  split at hg'
  · simp at hg'
  · have hspec := cacheAppend_spec st h f
    generalize hgen : (if isFragmentable f.ty = true then cacheAppend st f else (st, some (Except.ok f))) = r at hg'
    have hsid : ∀ cf, r.2 = some (.ok cf) → cf.sid = f.sid := by
      intro cf hcf
      rw [← hgen] at hcf
      split at hcf
      · exact hspec.2.1 cf hcf
      · simp only [Option.some.injEq, Except.ok.injEq] at hcf; rw [← hcf]
    rcases r with ⟨st', c⟩
    simp only at hg' hsid
    split at hg'
    · simp at hg'
    · simp [mkError] at hg'; rw [hg']
    · rename_i _ cf
      have hcs := hsid cf rfl
      split at hg'
      · rename_i hd
        rw [← hcs]
        exact handleByType_sends st' cf b (by simpa using hd) g hg'
      · split at hg'
        · simp at hg'
        · split at hg'
          · simp at hg'
          · rw [← hcs]; exact frameReceived_sends st' _ _ cf g hg'

/-- **other streams are not disturbed**: processing a received frame leaves the registration of
every other stream exactly as it was -/
theorem c12_other_streams_untouched (st : State) (h : WF st) (f : Frame) (b : Behaviour) (j : Nat) (hj : j ≠ f.sid) :
    (step st (.recv f b)).1.oidOf j = st.oidOf j := by
  simp only [step]
  unfold recvStep
  split
  · rfl
  · have hspec := cacheAppend_spec st h f
    generalize hgen : (if isFragmentable f.ty = true then cacheAppend st f else (st, some (Except.ok f))) = r
    have hsid : ∀ cf, r.2 = some (.ok cf) → cf.sid = f.sid := by
      intro cf hcf
      rw [← hgen] at hcf
      split at hcf
      · exact hspec.2.1 cf hcf
      · simp only [Option.some.injEq, Except.ok.injEq] at hcf; rw [← hcf]
    have hoid : r.1.oidOf j = st.oidOf j := by
      rw [← hgen]; split
      · exact oidOf_cacheAppend st f j
      · rfl
    have hw : WF r.1 := by
      rw [← hgen]; split
      · exact hspec.1
      · exact h
    rcases r with ⟨st', c⟩
    simp only at hsid hoid hw ⊢
    split
    · exact hoid
    · exact hoid
    · rename_i _ cf
      have hcs := hsid cf rfl
      split
      · rw [oidOf_handleByType_ne st' cf b j (by rw [hcs]; exact hj)]; exact hoid
      · split
        · exact hoid
        · split
          · exact hoid
          · rename_i _ oid ho _ s hs
            obtain ⟨s', hs', hss⟩ := oidOf_obj st' hw cf.sid oid ho
            rw [hs] at hs'
            cases hs'
            rw [oidOf_frameReceived_ne st' oid s cf j (by rw [hss, hcs]; exact hj)]; exact hoid

/-- **a failing handler is answered with an ERROR on the offending stream and nothing else
happens**: for a request on a fresh, non-zero stream whose handler raises, the only effects are the
handler call and one APPLICATION_ERROR frame on that stream; no stream is registered -/
theorem c12_handler_failure_contained (st : State) (hc : st.closed = false) (ty : FType) (hty : isInitiate ty = true)
    (sid : Nat) (hna : st.isActive sid = false) (hcache : (st.cache.find? (·.1 == sid)) = none) (data : List Nat) (n : Nat) :
    step st (.recv { ty := ty, sid := sid, n := n, data := data } .raises) =
      (st, [.handlerCall ty data, .send (mkError sid cApplicationError)]) := by
  cases ty <;> simp [isInitiate] at hty <;>
    simp [step, recvStep, hc, isFragmentable, cacheAppend, hcache, isInitiate, handleByType, hna, State.emit]

/-- **the connection keeps serving**: in whatever state the endpoint is after any history (not
closed), a fresh request-response on an unused non-zero stream is handed to the application, and
once its future is resolved the response goes out on that stream -/
theorem c12_probe_served (st : State) (hc : st.closed = false) (sid : Nat) (h0 : sid ≠ 0) (hna : st.isActive sid = false)
    (hcache : (st.cache.find? (·.1 == sid)) = none) (req resp : List Nat) :
    let r1 := step st (.recv { ty := .requestResponse, sid := sid, data := req } (.futReady resp))
    r1.2 = [.handlerCall .requestResponse req, .created st.heap.length sid] ∧
    (step r1.1 (.cbRRResp st.heap.length)).2 = [.send (mkPayload sid resp true)] := by
  simp [step, recvStep, hc, isFragmentable, cacheAppend, hcache, isInitiate, handleByType, hna, h0, State.emit, State.register,
    apiStep, State.obj, State.setObj, State.finish]

/-- non-vacuity of the two statements above -/
example : (init 2).closed = false ∧ (init 2).isActive 7 = false ∧ ((init 2).cache.find? (·.1 == 7)) = none := by decide

/-- the model's step function is total: every event in every state has an outcome -/
theorem c12_total (st : State) (ev : Ev) : ∃ st' outs, step st ev = (st', outs) := ⟨_, _, rfl⟩

end RSocketModel.Engine
