import RSocketModel.Props.C13
import RSocketModel.Gen.StreamIdFn
/-!
# C13 — the id arithmetic is the source's

`StreamId.incr` and `StreamId.initCur` at the code's width (31 bits, `c13_code_width`) are proved
equal to `StreamControl._increment_stream_id` and the initial value computed by
`StreamControl.__init__` as compiled from `rsocket/stream_control.py` on every run
(`Gen/StreamIdFn.lean`; `x & mask` with the all-ones mask read as `x mod (mask + 1)` over the
integers, which is what Python computes, also for the negative `first - 2`).
-/
namespace RSocketModel.StreamId

theorem c13_increment_matches_source (cur : Nat) :
    Gen.increment_stream_id Gen.maxStreamId cur = incr 31 cur := by
  simp only [Gen.increment_stream_id, Gen.maxStreamId, incr]
  omega

theorem c13_initial_matches_source (first : Nat) :
    Gen.initial_stream_id Gen.maxStreamId first = initCur 31 first := by
  simp only [Gen.initial_stream_id, Gen.maxStreamId, initCur]
  omega

/-- read off the compiled function: the step keeps parity and stays below 2^31 -/
theorem c13_source_step_parity_range (cur : Nat) :
    Gen.increment_stream_id Gen.maxStreamId cur % 2 = cur % 2 ∧ Gen.increment_stream_id Gen.maxStreamId cur < 2 ^ 31 := by
  simp only [Gen.increment_stream_id, Gen.maxStreamId]
  omega

/-- a client (first id 1) starts so that its first allocation is 1, a server (2) so that it is 2 -/
example : Gen.increment_stream_id Gen.maxStreamId (Gen.initial_stream_id Gen.maxStreamId 1) = 1 ∧
    Gen.increment_stream_id Gen.maxStreamId (Gen.initial_stream_id Gen.maxStreamId 2) = 2 := by decide

end RSocketModel.StreamId
