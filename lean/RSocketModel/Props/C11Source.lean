import RSocketModel.Gen.StopStreamsFn
/-!
# C11 — what `stop_all_streams` does for each stream, read off the source

`Gen/StopStreamsFn.lean` is the body of the sweep in `StreamControl.stop_all_streams` compiled from
its AST on every run (with its `try / except / finally`), as a function of four facts about the
stream's handler. The theorems are statements about that compiled function — the per-stream rules
the engine model's `lost` / `stopStreams` events transcribe.
-/
namespace RSocketModel.StopStreams
open RSocketModel.Gen

/-- **every stream is unregistered and the sweep goes on, whatever raises** — a handler whose
`frame_received` or `dispose()` fails neither keeps its table entry nor stops the other streams from
being failed (defect F12, and the hoisting seeded change C11e) -/
theorem c11_every_stream_unregistered_and_sweep_goes_on (rq dp fr dr : Bool) :
    (stop_one_stream rq dp fr dr).2.2 = (true, true) := by
  cases rq <;> cases dp <;> cases fr <;> cases dr <;> rfl

/-- a requester whose `frame_received` does not raise is handed the synthetic connection ERROR -/
theorem c11_requester_gets_the_error (dp dr : Bool) : (stop_one_stream true dp false dr).1 = true := by
  cases dp <;> cases dr <;> rfl

/-- a disposable handler is disposed **also when it is a requester** (the two tests are independent:
the `elif` of seeded change C08f) — unless its own `frame_received` raised first -/
theorem c11_disposable_is_disposed (rq : Bool) : (stop_one_stream rq true false false).2.1 = true := by
  cases rq <;> rfl

/-- nothing is delivered to, or disposed on, a handler that is neither -/
theorem c11_plain_handler_only_unregistered (fr dr : Bool) :
    stop_one_stream false false fr dr = (false, false, true, true) := by
  cases fr <;> cases dr <;> rfl

end RSocketModel.StopStreams
